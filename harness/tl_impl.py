"""build / project / apply for the timeline of a partitura Part (binding for Timeline.tla)."""
import inspect

NONE = -1

# fixed assignment of pool objects to classes (mirrors PoolCls in TimelineMC.tla)
POOL_CLS = {"o1": "Note", "o2": "GraceNote", "o3": "Measure", "o4": "Rest", "o5": "TimeSignature",
            "o6": "ConstantLoudnessDirection", "o7": "Slur", "o8": "KeySignature", "o9": "Clef",
            "o10": "Repeat", "o11": "Tuplet", "o12": "UnpitchedNote"}


def make_obj(score, cls_name, oid):
    """Instantiate a timed object of the named class with neutral attributes."""
    cls = getattr(score, cls_name)
    table = {
        "Note": lambda: cls(step="C", octave=4, id=oid),
        "GraceNote": lambda: cls("grace", step="D", octave=4, id=oid),
        "UnpitchedNote": lambda: cls(step="E", octave=4, id=oid),
        "Rest": lambda: cls(id=oid),
        "GenericNote": lambda: cls(id=oid),
        "Measure": lambda: cls(number=1),
        "TimeSignature": lambda: cls(4, 4),
        "KeySignature": lambda: cls(0, "major"),
        "Clef": lambda: cls(1, "G", 2, 0),
        "Tempo": lambda: cls(120),
        "Ending": lambda: cls(1),
        "Barline": lambda: cls("light-heavy"),
        "Staff": lambda: cls(1),
        "Transposition": lambda: cls(0, 0),
        "Words": lambda: cls("w"),
        "OctaveShiftDirection": lambda: cls("up"),
        "Harmony": lambda: cls("h"),
        "ChordSymbol": lambda: cls("C", "major"),
        "Cadence": lambda: cls("PAC"),
        "Segment": lambda: cls("s", [], None),
    }
    if cls_name in table:
        return table[cls_name]()
    try:
        return cls()
    except TypeError:
        pass
    if issubclass(cls, score.Direction):
        return cls("dir")
    sig = inspect.signature(cls.__init__)
    args = []
    for name, p in list(sig.parameters.items())[1:]:
        if p.default is inspect.Parameter.empty and p.kind in (p.POSITIONAL_ONLY, p.POSITIONAL_OR_KEYWORD):
            args.append("x")
    return cls(*args)


class Impl(object):
    """A Part together with the pool objects (by oid)."""

    def __init__(self, score, pool_cls=None, quarter=1):
        self.score = score
        self.pool_cls = pool_cls or POOL_CLS
        self.part = score.Part("P0", quarter_duration=quarter)
        self.objs = {}

    def obj(self, oid):
        if oid not in self.objs:
            self.objs[oid] = make_obj(self.score, self.pool_cls[oid], oid)
        return self.objs[oid]

    # --- the public calls that spec actions denote
    def apply(self, a):
        """a = ["add", o, s, e] | ["remove", o, w] | ["point", t] | ["setq", t, q]; returns exception or None"""
        try:
            op = a[0]
            if op == "add":
                kw = {}
                if a[2] != NONE:
                    kw["start"] = a[2]
                if a[3] != NONE:
                    kw["end"] = a[3]
                self.part.add(self.obj(a[1]), **kw)
            elif op == "remove":
                self.part.remove(self.obj(a[1]), a[2])
            elif op == "point":
                self.part.get_or_add_point(a[1])
            elif op == "setq":
                self.part.set_quarter_duration(a[1], a[2])
            else:
                raise ValueError("unknown action %r" % (a,))
        except Exception as ex:  # the statement: no such operation raises on valid arguments
            return ex
        return None


def build(score, state, pool):
    """Construct an implementation object in abstract state `state` through the public API only."""
    qtab = sorted(state["qtab"])
    impl = Impl(score, quarter=997)
    for t, q in reversed(qtab):  # right to left so that no entry is dropped as redundant
        impl.part.set_quarter_duration(t, q)
    for o in pool:
        s, e = state["start"][o], state["end"][o]
        kw = {}
        if s != NONE:
            kw["start"] = s
        if e != NONE:
            kw["end"] = e
        if kw:
            impl.part.add(impl.obj(o), **kw)
    occupied = set(v for v in list(state["start"].values()) + list(state["end"].values()) if v != NONE)
    for t in state["pts"]:
        if t not in occupied:
            impl.part.get_or_add_point(t)
    return impl


def project(impl, pool, max_t=None):
    """Observable abstract state of the implementation (public API), in the JSON shape TLC emits."""
    part = impl.part
    oid_of = {id(o): k for k, o in impl.objs.items()}
    chain = []
    tp = part.first_point
    guard = 0
    while tp is not None and guard < 100000:
        chain.append(tp)
        tp = tp.next
        guard += 1
    back = []
    tp = part.last_point
    guard = 0
    while tp is not None and guard < 100000:
        back.append(tp)
        tp = tp.prev
        guard += 1
    pr = {"pts": [p.t for p in chain],
          "pts_backward": [p.t for p in reversed(back)],
          "view": [[p.t, p.prev.t if p.prev is not None else NONE, p.next.t if p.next is not None else NONE,
                    p.quarter] for p in chain],
          "start": {}, "end": {}, "problems": []}
    try:
        internal = [p.t for p in part._points]
        if internal != pr["pts"]:
            pr["problems"].append("internal point array %s differs from the linked chain %s" % (internal, pr["pts"]))
    except AttributeError:
        pass
    reg_s, reg_e = {}, {}
    for p in chain:
        if part.get_point(p.t) is not p:
            pr["problems"].append("get_point(%d) is not the point in the chain" % p.t)
        for cls, oo in p.starting_objects.items():
            for o in oo:
                k = oid_of.get(id(o), "?%s" % cls.__name__)
                reg_s.setdefault(k, []).append(p.t)
                if o.start is not p:
                    pr["problems"].append("object %s listed as starting at %d but its start is %s" % (
                        k, p.t, getattr(o.start, "t", None)))
                if cls is not type(o):
                    pr["problems"].append("object %s registered under class %s" % (k, cls.__name__))
        for cls, oo in p.ending_objects.items():
            for o in oo:
                k = oid_of.get(id(o), "?%s" % cls.__name__)
                reg_e.setdefault(k, []).append(p.t)
                if o.end is not p:
                    pr["problems"].append("object %s listed as ending at %d but its end is %s" % (
                        k, p.t, getattr(o.end, "t", None)))
    for o in pool:
        ob = impl.objs.get(o)
        s = NONE if ob is None or ob.start is None else ob.start.t
        e = NONE if ob is None or ob.end is None else ob.end.t
        pr["start"][o] = s
        pr["end"][o] = e
        if reg_s.get(o, []) != ([s] if s != NONE else []):
            pr["problems"].append("object %s: start=%s but registered as starting at %s" % (o, s, reg_s.get(o, [])))
        if reg_e.get(o, []) != ([e] if e != NONE else []):
            pr["problems"].append("object %s: end=%s but registered as ending at %s" % (o, e, reg_e.get(o, [])))
    for k in set(list(reg_s) + list(reg_e)):
        if k not in pool:
            pr["problems"].append("unknown object %s registered" % k)
    qd = part.quarter_durations()
    pr["qtab"] = [[int(a), int(b)] for a, b in qd]
    return pr


def compare(expected, got):
    """expected: state as emitted by TLC (with derived view); got: projection. Returns [(clause, detail)]."""
    out = []
    exp_pts = sorted(expected["pts"])
    if got["pts"] != exp_pts:
        out.append(("points", {"expected": exp_pts, "got": got["pts"]}))
    if got["pts_backward"] != got["pts"]:
        out.append(("links.backward_chain", {"forward": got["pts"], "backward": got["pts_backward"]}))
    exp_view = {v[0]: v for v in expected["view"]}
    for v in got["view"]:
        e = exp_view.get(v[0])
        if e is None:
            continue
        if v[1] != e[1]:
            out.append(("links.prev", {"t": v[0], "expected": e[1], "got": v[1]}))
        if v[2] != e[2]:
            out.append(("links.next", {"t": v[0], "expected": e[2], "got": v[2]}))
        if v[3] != e[3]:
            out.append(("point.quarter", {"t": v[0], "expected": e[3], "got": v[3]}))
    for o in expected["start"]:
        if got["start"].get(o) != expected["start"][o]:
            out.append(("object.start", {"o": o, "expected": expected["start"][o], "got": got["start"].get(o)}))
        if got["end"].get(o) != expected["end"][o]:
            out.append(("object.end", {"o": o, "expected": expected["end"][o], "got": got["end"].get(o)}))
    if got["problems"]:
        out.append(("registry", {"problems": got["problems"][:5]}))
    if sorted(map(list, expected["qtab"])) != got["qtab"]:
        out.append(("quarter.table", {"expected": sorted(map(list, expected["qtab"])), "got": got["qtab"]}))
    return out


def compare_any(candidates, got):
    """Non-deterministic spec action: accept if any successor matches; report against the closest."""
    best = None
    for c in candidates:
        d = compare(c, got)
        if not d:
            return []
        if best is None or len(d) < len(best):
            best = d
    return best
