"""Semantic fingerprint of a score for the MusicXML round trip (C03): exactly the attributes the property
lists, keyed by note id / position, independent of object registration order."""
import collections


def _n0(v):
    return 0 if v is None else v


def note_key(n):
    return n.id


def fp_part(part, score):
    cls = lambda o: type(o).__name__
    out = {"id": part.id, "name": part.part_name, "abbrev": getattr(part, "part_abbreviation", None)}
    out["divisions"] = [[int(t), int(q)] for t, q in part.quarter_durations()]
    out["measures"] = sorted([m.start.t, m.end.t if m.end else None, m.number, m.name] for m in part.iter_all(score.Measure))
    # (signatures and clefs as sets: a repeated identical statement at one position says nothing more)
    uniq = lambda rows: sorted([list(r) for r in set(tuple(r) for r in rows)], key=repr)
    out["time_signatures"] = uniq([t.start.t, t.beats, t.beat_type] for t in part.iter_all(score.TimeSignature))
    out["key_signatures"] = uniq([k.start.t, k.fifths, k.mode] for k in part.iter_all(score.KeySignature))
    out["clefs"] = uniq([c.start.t, _n0(c.staff) or 1, c.sign, c.line, _n0(c.octave_change)] for c in part.iter_all(score.Clef))
    notes = {}
    for n in part.iter_all(score.GenericNote, include_subclasses=True):
        sd = n.symbolic_duration or {}
        rec = {"cls": cls(n), "start": n.start.t, "end": n.end.t if n.end else None, "voice": n.voice, "staff": n.staff,
               "sym": [sd.get("type"), sd.get("dots", 0) or 0, sd.get("actual_notes"), sd.get("normal_notes")] if sd else None,
               "tie_next": n.tie_next.id if n.tie_next is not None else None, "tie_prev": n.tie_prev.id if n.tie_prev is not None else None,
               "articulations": sorted(n.articulations or []),
               "fingering": sorted(t.fingering for t in (n.technical or []) if isinstance(t, score.Fingering)),
               "stem": n.stem_direction, "fermata": n.fermata is not None}
        if isinstance(n, score.Note):
            rec.update(step=n.step, alter=_n0(n.alter), octave=n.octave)
        if isinstance(n, score.UnpitchedNote):
            rec.update(step=n.step, octave=n.octave, notehead=n.notehead)
        if n.id in notes:
            notes[n.id] = {"DUPLICATE_ID": True}
        else:
            notes[n.id] = rec
    out["notes"] = notes
    nid = lambda n: None if n is None else n.id
    out["slurs"] = sorted([nid(s.start_note), nid(s.end_note)] for s in part.iter_all(score.Slur))
    out["tuplets"] = sorted([nid(t.start_note), nid(t.end_note), t.actual_notes, t.normal_notes, t.actual_type, t.normal_type] for t in part.iter_all(score.Tuplet))
    dirs = []
    for d in part.iter_all(score.Direction, include_subclasses=True):
        dirs.append([d.start.t, d.end.t if d.end is not None else None, cls(d), d.text, d.raw_text, _n0(d.staff) or 1,      # (a direction without staff is on staff 1)

                     bool(getattr(d, "wedge", False))])
    out["directions"] = sorted(dirs, key=repr)
    out["tempo"] = sorted([t.start.t, t.bpm, t.unit] for t in part.iter_all(score.Tempo))
    out["repeats"] = sorted([r.start.t if r.start else None, r.end.t if r.end else None] for r in part.iter_all(score.Repeat))
    out["endings"] = sorted([e.start.t if e.start else None, e.end.t if e.end else None, e.number] for e in part.iter_all(score.Ending))
    out["barline_fermatas"] = sorted([f.start.t, f.ref] for f in part.iter_all(score.Fermata) if not isinstance(f.ref, score.GenericNote))
    return out


def fp_score(sc, score):
    def grp(g):
        if isinstance(g, score.PartGroup):
            return {"group": [g.group_symbol, g.group_name, g.number], "children": [grp(c) for c in g.children]}
        return {"part": g.id}
    return {"parts": [fp_part(p, score) for p in sc.parts], "structure": [grp(g) for g in sc.part_structure]}


def diff(a, b, path="", out=None, limit=12):
    out = [] if out is None else out
    if len(out) >= limit:
        return out
    if isinstance(a, dict) and isinstance(b, dict):
        for k in sorted(set(a) | set(b), key=str):
            if k not in a:
                out.append((path + "/" + str(k), "<absent>", b[k]))
            elif k not in b:
                out.append((path + "/" + str(k), a[k], "<absent>"))
            else:
                diff(a[k], b[k], path + "/" + str(k), out, limit)
    elif isinstance(a, list) and isinstance(b, list) and len(a) == len(b) and any(isinstance(x, (list, dict)) for x in a):
        for i, (x, y) in enumerate(zip(a, b)):
            diff(x, y, path + "/" + str(i), out, limit)
    elif a != b:
        out.append((path, a, b))
    return out
