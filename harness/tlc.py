"""Thin runner around TLC: runs a module/config, collects statistics, coverage and PrintT output.

All scratch output goes under /verif/work/<tag>/ ; nothing is written to /tmp.
"""
import json
import os
import re
import shutil
import subprocess
import time

VERIF = os.path.dirname(os.path.dirname(os.path.abspath(__file__)))
SPECS = os.path.join(VERIF, "specs")
WORK = os.environ.get("VERIF_WORK") or os.path.join(VERIF, "work")
JAR = "/opt/veriftools/tla/tla2tools.jar"
DEPS = "/opt/veriftools/tla/CommunityModules-deps.jar"
GEN = os.path.join(WORK, "gen")
LIB = SPECS + os.pathsep + GEN


class TLCError(Exception):
    """Machinery failure (parse error, TLC crash, timeout)."""


class TLCResult(object):
    def __init__(self):
        self.stdout = ""
        self.generated = 0
        self.distinct = 0
        self.depth = 0
        self.violated = None  # name of violated invariant / property, if any
        self.printed = []  # raw PrintT lines (strings)
        self.coverage = {}  # action name -> (distinct, total)
        self.wall_s = 0.0
        self.ok = False
        self.error_trace = ""

    def json_lines(self):
        """PrintT(ToJson(x)) prints a TLA+ string: a quoted, escaped JSON text."""
        out = []
        for ln in self.printed:
            ln = ln.strip()
            if ln.startswith('"'):
                try:
                    out.append(json.loads(json.loads(ln)))
                    continue
                except Exception:
                    pass
            if ln.startswith("{") or ln.startswith("["):
                try:
                    out.append(json.loads(ln))
                except Exception:
                    pass
        return out


_STATS = re.compile(r"(\d+) states generated, (\d+) distinct states found, (\d+) states left on queue")
_DEPTH = re.compile(r"The depth of the complete state graph search is (\d+)")
_COV = re.compile(r"^<(\w+) line (\d+), col (\d+) to line (\d+), col (\d+) of module (\w+)(?: \([\d ]+\))?>: (\d+):(\d+)")
_INV = re.compile(r"Invariant (\w+) is violated")
_PROP = re.compile(r"(?:Action|Temporal) propert(?:y|ies) (?:line .* )?(\w+)? ?(?:is|was|were) violated")


def workdir(tag):
    d = os.path.join(WORK, tag)
    os.makedirs(d, exist_ok=True)
    return d


def run(module, cfg, tag, workers=16, simulate=None, depth=None, seed=None, env=None,
        timeout=1800, coverage=False, extra=None, spec_dir=None, deadlock=True,
        expect_violation=False, heap="4g", dfs=False):
    """Run TLC on specs/<module>.tla with config file `cfg` (path or text)."""
    wd = workdir(tag)
    spec_dir = spec_dir or SPECS
    meta = os.path.join(wd, "states")
    shutil.rmtree(meta, ignore_errors=True)
    if not os.path.isabs(cfg) and "\n" in cfg:
        cfgpath = os.path.join(wd, module + ".cfg")
        with open(cfgpath, "w") as f:
            f.write(cfg)
    elif os.path.isabs(cfg):
        cfgpath = cfg
    else:
        cfgpath = os.path.join(spec_dir, cfg)
    cmd = ["java", "-XX:+UseParallelGC", "-Xss256m", "-Xmx" + heap, "-DTLA-Library=" + LIB]
    if dfs:
        cmd.append("-Dtlc2.tool.queue.IStateQueue=StateDeque")
    cmd += ["-cp", JAR + ":" + DEPS, "tlc2.TLC",
            "-workers", str(workers), "-metadir", meta, "-noGenerateSpecTE", "-config", cfgpath]
    if not deadlock:
        cmd.append("-deadlock")
    if coverage:
        cmd += ["-coverage", "1"]
    if simulate:
        cmd += ["-simulate", simulate]
        if depth:
            cmd += ["-depth", str(depth)]
    if seed is not None:
        cmd += ["-seed", str(seed)]
    if extra:
        cmd += extra
    cmd.append(os.path.join(spec_dir, module + ".tla"))
    e = dict(os.environ)
    if env:
        e.update({k: str(v) for k, v in env.items()})
    t0 = time.time()
    try:
        p = subprocess.run(cmd, cwd=wd, env=e, stdout=subprocess.PIPE, stderr=subprocess.STDOUT,
                           timeout=timeout, text=True, errors="replace")
    except subprocess.TimeoutExpired as ex:
        raise TLCError("TLC timed out after %ss on %s" % (timeout, module))
    r = TLCResult()
    r.wall_s = time.time() - t0
    r.stdout = p.stdout
    in_trace = False
    for ln in p.stdout.splitlines():
        m = _STATS.search(ln)
        if m:
            r.generated, r.distinct = int(m.group(1)), int(m.group(2))
            continue
        m = _DEPTH.search(ln)
        if m:
            r.depth = int(m.group(1))
            continue
        m = _COV.match(ln)
        if m:
            name = m.group(1)
            a, b = int(m.group(7)), int(m.group(8))
            pa, pb = r.coverage.get(name, (0, 0))
            r.coverage[name] = (pa + a, pb + b)
            continue
        m = _INV.search(ln)
        if m:
            r.violated = m.group(1)
        if "is violated" in ln and r.violated is None:
            r.violated = ln.strip()
        if ln.startswith('"') or ln.startswith("{") or ln.startswith("<<") or ln.startswith("["):
            r.printed.append(ln)
    shutil.rmtree(meta, ignore_errors=True)
    finished = ("Model checking completed. No error has been found." in p.stdout
                or (simulate and p.returncode == 0)
                or "Finished in" in p.stdout and r.violated is None and "Error:" not in p.stdout)
    if "Error:" in p.stdout and r.violated is None:
        # parse errors, evaluation errors, assumption failures ...
        idx = p.stdout.index("Error:")
        if not expect_violation:
            raise TLCError("TLC error in %s:\n%s" % (module, p.stdout[idx:idx + 3000]))
        r.violated = p.stdout[idx:idx + 300]
    if r.violated is not None:
        i = p.stdout.find("is violated")
        r.error_trace = p.stdout[max(0, i - 200): i + 4000]
    r.ok = bool(finished) and r.violated is None
    if not r.ok and r.violated is None:
        raise TLCError("TLC did not finish on %s (rc=%s):\n%s" % (module, p.returncode, p.stdout[-3000:]))
    return r


TLAPS_STDLIB = "/opt/veriftools/tlapm/lib/tlapm/stdlib"      # TLAPS.tla, for the proof modules (checked by tlapm in C20 / G01)


def sany(module, spec_dir=None):
    spec_dir = spec_dir or SPECS
    lib = LIB + (os.pathsep + TLAPS_STDLIB if os.path.isdir(TLAPS_STDLIB) else "")
    cmd = ["java", "-DTLA-Library=" + lib, "-cp", JAR + ":" + DEPS, "tla2sany.SANY",
           os.path.join(spec_dir, module + ".tla")]
    p = subprocess.run(cmd, cwd=spec_dir, stdout=subprocess.PIPE, stderr=subprocess.STDOUT, text=True)
    ok = p.returncode == 0 and "Semantic errors" not in p.stdout and "***Parse Error***" not in p.stdout \
        and "Fatal errors" not in p.stdout and "Could not parse" not in p.stdout and "*** Errors" not in p.stdout
    return ok, p.stdout
