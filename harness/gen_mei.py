"""Seeded generator of MEI documents in the supported subset: the same abstract element events are serialised to XML
(for load_mei) and handed to TLC (MeiLayer) as events."""
from fractions import Fraction
from .gen_kern import fill

NS = "http://www.music-encoding.org/ns/mei"
DURNAME = {1: "1", 2: "2", 4: "4", 8: "8", 16: "16", 32: "32"}
ACCID = {-2: "ff", -1: "f", 0: "n", 1: "s", 2: "x"}


def make_doc(rng, chords=True, ties="attr", grace=True, tuplets=True, meter_change=True, mrest=True, attrs_as_children=None, repeats=False):
    nstaves = rng.choice([1, 2, 2, 3])
    beats, bt = rng.choice([(4, 4), (3, 4), (2, 4), (6, 8), (2, 2)])
    nbars = rng.randint(1, 3)
    fifths = rng.randint(-4, 4)
    as_children = rng.random() < 0.5 if attrs_as_children is None else attrs_as_children
    clefs = [rng.choice([("G", 2), ("F", 4), ("C", 3)]) for _ in range(nstaves)]
    layers_of = [rng.choice([1, 1, 2]) for _ in range(nstaves)]
    change_at = rng.randrange(1, nbars) if (meter_change and nbars > 1 and rng.random() < 0.3) else None
    ids = [0]

    def nid(prefix):
        ids[0] += 1
        return "%s%d" % (prefix, ids[0])
    events, xml = [], []
    xml.append('<?xml version="1.0" encoding="UTF-8"?>\n<mei xmlns="%s" meiversion="5.0">\n<meiHead><fileDesc><titleStmt><title/></titleStmt><pubStmt/></fileDesc></meiHead>' % NS)
    xml.append('<music><body><mdiv><score>\n<scoreDef>\n<staffGrp>')
    for s in range(nstaves):
        events.append({"ev": "staffdef", "n": s + 1, "shape": clefs[s][0], "line": clefs[s][1], "sig": fifths, "count": beats, "unit": bt})
        sig = "0" if fifths == 0 else "%d%s" % (abs(fifths), "s" if fifths > 0 else "f")
        if as_children:
            xml.append('<staffDef xml:id="%s" n="%d" lines="5"><clef shape="%s" line="%d"/><keySig sig="%s"/><meterSig count="%d" unit="%d"/></staffDef>'
                       % (nid("sd"), s + 1, clefs[s][0], clefs[s][1], sig, beats, bt))
        else:
            xml.append('<staffDef xml:id="%s" n="%d" lines="5" clef.shape="%s" clef.line="%d" key.sig="%s" meter.count="%d" meter.unit="%d"/>'
                       % (nid("sd"), s + 1, clefs[s][0], clefs[s][1], sig, beats, bt))
    xml.append('</staffGrp>\n</scoreDef>\n<section>')
    cur = (beats, bt)
    rep = None
    ending_bar = None
    if repeats and rng.random() < 0.6:
        i = rng.randrange(nbars)
        rep = (i, rng.randrange(i, nbars))
        if rng.random() < 0.5:
            ending_bar = rep[1]
    tie_els = []
    tie_layer = {}
    last_note = {}      # (staff, layer) -> list of (id, pitch) of the last sounding event
    for b in range(nbars):
        if change_at == b:
            cur = rng.choice([m for m in [(4, 4), (3, 4), (2, 4), (6, 8)] if m != cur])
            events.append({"ev": "meter", "count": cur[0], "unit": cur[1]})
            xml.append('<scoreDef meter.count="%d" meter.unit="%d"/>' % cur)
        length = Fraction(4 * cur[0], cur[1])
        left = "rptstart" if rep is not None and rep[0] == b else ""
        right = "rptend" if rep is not None and rep[1] == b else ""
        if ending_bar == b:
            events.append({"ev": "ending_start", "n": 1})
            xml.append('<ending xml:id="%s" n="1">' % nid("e"))
        events.append({"ev": "measure", "n": str(b + 1), "left": left, "right": right})
        xml.append('<measure xml:id="%s" n="%d"%s%s>' % (nid("m"), b + 1, ' left="%s"' % left if left else "", ' right="%s"' % right if right else ""))
        for s in range(nstaves):
            events.append({"ev": "staff", "n": s + 1})
            xml.append('<staff xml:id="%s" n="%d">' % (nid("st"), s + 1))
            for ly in range(layers_of[s]):
                events.append({"ev": "layer", "n": ly + 1})
                xml.append('<layer xml:id="%s" n="%d">' % (nid("ly"), ly + 1))
                if mrest and rng.random() < 0.1:
                    events.append({"ev": "mrest", "id": nid("mr")})
                    xml.append('<mRest xml:id="%s"/>' % events[-1]["id"])
                    last_note[(s, ly)] = []
                else:
                    seq = fill(rng, length, triplets=tuplets)
                    i = 0
                    while i < len(seq):
                        (recip, dots), d = seq[i]
                        trip = recip in (12, 6, 24)
                        group = seq[i:i + 3] if trip else [seq[i]]
                        if trip:
                            events.append({"ev": "tuplet_start", "num": 3, "numbase": 2})
                            xml.append('<tuplet xml:id="%s" num="3" numbase="2">' % nid("tu"))
                        beam = (not trip) and recip >= 8 and rng.random() < 0.3
                        if beam:
                            xml.append('<beam xml:id="%s">' % nid("bm"))
                        for (r2, dt2), d2 in group:
                            dur = {12: 8, 6: 4, 24: 16}.get(r2, r2)
                            kind = rng.random()
                            if grace and kind > 0.95:
                                gid = nid("g")
                                p = (rng.choice("cdefgab"), 0, rng.randint(3, 5))
                                events.append({"ev": "note", "id": gid, "dur": 8, "dots": 0, "pname": p[0], "accid": 0, "oct": p[2], "grace": 1, "tie": ""})
                                xml.append('<note xml:id="%s" dur="8" pname="%s" oct="%d" grace="acc"/>' % (gid, p[0], p[2]))
                            if kind < 0.12:
                                rid = nid("r")
                                events.append({"ev": "rest", "id": rid, "dur": dur, "dots": dt2})
                                xml.append('<rest xml:id="%s" dur="%d"%s/>' % (rid, dur, ' dots="%d"' % dt2 if dt2 else ""))
                                last_note[(s, ly)] = []
                            elif kind < 0.17:
                                sid = nid("sp")
                                events.append({"ev": "space", "id": sid, "dur": dur, "dots": dt2})
                                xml.append('<space xml:id="%s" dur="%d"%s/>' % (sid, dur, ' dots="%d"' % dt2 if dt2 else ""))
                                last_note[(s, ly)] = []
                            else:
                                n_ch = rng.randint(2, 3) if (chords and rng.random() < 0.2) else 1
                                pitches = []
                                while len(pitches) < n_ch:
                                    p = (rng.choice("cdefgab"), rng.choice([-1, 0, 0, 0, 1]), rng.randint(2, 6))
                                    if p not in pitches:
                                        pitches.append(p)
                                prev = last_note.get((s, ly), [])
                                tie_from = None
                                if ties and prev and rng.random() < 0.25:
                                    pid, pp, pev = rng.choice(prev)
                                    # (@tie pairs by pitch on a staff: one pitch is tied in one layer of a staff only)
                                    if pev["tie"] in ("", "t") and tie_layer.setdefault((s, pp), ly) == ly:
                                        tie_from = (pid, pp, pev)
                                        if pp in pitches:
                                            pitches.remove(pp)
                                        pitches[0:0] = [pp]
                                        pitches = pitches[:max(n_ch, 1)]
                                notes = []
                                for k, p in enumerate(pitches):
                                    ev = {"id": nid("n"), "dur": dur, "dots": dt2, "pname": p[0], "accid": p[1], "oct": p[2], "grace": 0, "tie": ""}
                                    if tie_from is not None and k == 0:
                                        if ties == "attr":
                                            ev["tie"] = "t"
                                            tie_from[2]["tie"] = "m" if tie_from[2]["tie"] == "t" else "i"
                                        else:
                                            tie_els.append((tie_from[0], ev["id"]))
                                    notes.append(ev)
                                if len(notes) == 1:
                                    events.append(dict(notes[0], ev="note"))
                                    xml.append(("note", events[-1]))
                                    last_note[(s, ly)] = [(notes[0]["id"], pitches[0], events[-1])]
                                else:
                                    events.append({"ev": "chord", "id": nid("c"), "dur": dur, "dots": dt2, "notes": notes})
                                    xml.append(("chord", events[-1]))
                                    last_note[(s, ly)] = [(n["id"], p, n) for n, p in zip(notes, pitches)]
                        if beam:
                            xml.append('</beam>')
                        if trip:
                            events.append({"ev": "tuplet_end"})
                            xml.append('</tuplet>')
                        i += len(group)
                events.append({"ev": "endlayer"})
                xml.append('</layer>')
            xml.append('</staff>')
        for a, b2 in tie_els:
            events.append({"ev": "tie", "startid": a, "endid": b2})
            xml.append('<tie xml:id="%s" startid="#%s" endid="#%s"/>' % (nid("t"), a, b2))
        tie_els = []
        events.append({"ev": "endmeasure"})
        xml.append('</measure>')
        if ending_bar == b:
            events.append({"ev": "ending_end"})
            xml.append('</ending>')
    xml.append('</section>\n</score></mdiv></body></music>\n</mei>\n')

    def note_xml(ev, in_chord=False):
        a = 'xml:id="%s"' % ev["id"]
        if not in_chord:
            a += ' dur="%d"' % ev["dur"] + (' dots="%d"' % ev["dots"] if ev["dots"] else "")
        a += ' pname="%s" oct="%d"' % (ev["pname"], ev["oct"])
        if ev["accid"]:
            a += ' accid="%s"' % ACCID[ev["accid"]]
        if ev["tie"]:
            a += ' tie="%s"' % ev["tie"]
        return "<note %s/>" % a
    out = []
    for x in xml:
        if isinstance(x, tuple):
            if x[0] == "note":
                out.append(note_xml(x[1]))
            else:
                ev = x[1]
                out.append('<chord xml:id="%s" dur="%d"%s>' % (ev["id"], ev["dur"], ' dots="%d"' % ev["dots"] if ev["dots"] else "")
                           + "".join(note_xml(n, True) for n in ev["notes"]) + "</chord>")
        else:
            out.append(x)
    # events in the uniform shape TLC reads
    norm = []
    for e in events:
        base = {"ev": e["ev"], "n": 0, "s": "", "a": 0, "b": 0, "c": 0, "d": 0, "id": "", "id2": "", "notes": []}
        if e["ev"] == "staffdef":
            base.update(n=e["n"], s=e["shape"], a=e["line"], b=e["sig"], c=e["count"], d=e["unit"])
        elif e["ev"] == "meter":
            base.update(c=e["count"], d=e["unit"])
        elif e["ev"] in ("measure",):
            base.update(s=e["n"], id=e["left"], id2=e["right"])
        elif e["ev"] == "ending_start":
            base.update(n=e["n"])
        elif e["ev"] in ("staff", "layer"):
            base.update(n=e["n"])
        elif e["ev"] == "tuplet_start":
            base.update(a=e["num"], b=e["numbase"])
        elif e["ev"] in ("rest", "space"):
            base.update(id=e["id"], a=e["dur"], b=e["dots"])
        elif e["ev"] == "mrest":
            base.update(id=e["id"])
        elif e["ev"] == "note":
            base.update(id=e["id"], a=e["dur"], b=e["dots"], notes=[{"id": e["id"], "pname": e["pname"].upper(), "accid": e["accid"], "oct": e["oct"], "grace": e["grace"], "tie": e["tie"]}])
        elif e["ev"] == "chord":
            base.update(id=e["id"], a=e["dur"], b=e["dots"],
                        notes=[{"id": n["id"], "pname": n["pname"].upper(), "accid": n["accid"], "oct": n["oct"], "grace": 0, "tie": n["tie"]} for n in e["notes"]])
        elif e["ev"] == "tie":
            base.update(id=e["startid"], id2=e["endid"])
        norm.append(base)
    meta = {"repeat": rep is not None, "ending": ending_bar is not None, "nstaves": nstaves, "layers": layers_of, "as_children": as_children, "meter_change": change_at is not None, "nbars": nbars}
    return {"events": norm, "nstaves": nstaves}, "\n".join(out), meta


def parse_text(xml_bytes):
    """Read an MEI document (written by anyone) into the element events MeiLayer reads; independent of partitura."""
    from lxml import etree
    root = etree.fromstring(xml_bytes if isinstance(xml_bytes, bytes) else xml_bytes.encode("utf8"))
    q = lambda t: "{%s}%s" % (NS, t)
    XID = "{http://www.w3.org/XML/1998/namespace}id"
    ACC = {"s": 1, "f": -1, "ss": 2, "x": 2, "ff": -2, "n": 0}
    events = []
    base = lambda ev, **kw: dict({"ev": ev, "n": 0, "s": "", "a": 0, "b": 0, "c": 0, "d": 0, "id": "", "id2": "", "notes": []}, **kw)
    cnt = [0]

    def xid(el):
        if el.get(XID):
            return el.get(XID)
        cnt[0] += 1
        return "_anon%d" % cnt[0]

    def sig(text):
        if text in (None, "0"):
            return 0
        return int(text[:-1]) * (1 if text[-1] == "s" else -1)

    def accid(el):
        a = el.get("accid") or el.get("accid.ges")
        if a is None and el.find(q("accid")) is not None:
            a = el.find(q("accid")).get("accid") or el.find(q("accid")).get("accid.ges")
        return ACC.get(a, 0) if a else 0

    def note_rec(el):
        return {"id": xid(el), "pname": (el.get("pname") or "c").upper(), "accid": accid(el), "oct": int(el.get("oct") or 0),
                "grace": 1 if el.get("grace") is not None else 0, "tie": (el.get("tie") or "")[:1]}

    def walk_layer(el):
        for ch in el:
            if not isinstance(ch.tag, str):
                continue
            tag = etree.QName(ch).localname
            if tag == "note":
                events.append(base("note", id=xid(ch), a=int(ch.get("dur") or 4), b=int(ch.get("dots") or 0), notes=[note_rec(ch)]))
            elif tag == "chord":
                events.append(base("chord", id=xid(ch), a=int(ch.get("dur") or 4), b=int(ch.get("dots") or 0), notes=[note_rec(n) for n in ch.findall(q("note"))]))
            elif tag in ("rest", "space"):
                events.append(base(tag, id=xid(ch), a=int(ch.get("dur") or 4), b=int(ch.get("dots") or 0)))
            elif tag == "mRest":
                events.append(base("mrest", id=xid(ch)))
            elif tag == "tuplet":
                events.append(base("tuplet_start", a=int(ch.get("num")), b=int(ch.get("numbase"))))
                walk_layer(ch)
                events.append(base("tuplet_end"))
            elif tag == "beam":
                walk_layer(ch)

    def walk_section(el):
        for ch in el:
            if not isinstance(ch.tag, str):
                continue
            tag = etree.QName(ch).localname
            if tag == "scoreDef":
                ms = ch.find(q("meterSig"))
                cntv, unit = (ms.get("count"), ms.get("unit")) if ms is not None else (ch.get("meter.count"), ch.get("meter.unit"))
                if cntv is not None:
                    events.append(base("meter", c=int(cntv), d=int(unit)))
            elif tag == "measure":
                events.append(base("measure", s=ch.get("n") or "", id=ch.get("left") or "", id2=ch.get("right") or ""))
                for st in ch.findall(q("staff")):
                    events.append(base("staff", n=int(st.get("n") or 1)))
                    for ly in st.findall(q("layer")):
                        events.append(base("layer", n=int(ly.get("n") or 1)))
                        walk_layer(ly)
                        events.append(base("endlayer"))
                for t in ch.findall(q("tie")):
                    if t.get("startid") and t.get("endid"):
                        events.append(base("tie", id=t.get("startid")[1:], id2=t.get("endid")[1:]))
                events.append(base("endmeasure"))
            elif tag == "section":
                walk_section(ch)
            elif tag == "ending":
                events.append(base("ending_start", n=int("".join(c for c in (ch.get("n") or "0") if c.isdigit()) or 0)))
                walk_section(ch)
                events.append(base("ending_end"))
    music = root.find(".//" + q("music"))
    for sd in music.iter(q("staffDef")):
        if sd.getparent() is not None and etree.QName(sd.getparent()).localname == "staffGrp":
            cl, ks, ms = sd.find(q("clef")), sd.find(q("keySig")), sd.find(q("meterSig"))
            scd = next(iter(sd.iterancestors(q("scoreDef"))), None)
            count = ms.get("count") if ms is not None else sd.get("meter.count") or (scd.get("meter.count") if scd is not None else None)
            unit = ms.get("unit") if ms is not None else sd.get("meter.unit") or (scd.get("meter.unit") if scd is not None else None)
            msig = (scd.find(q("meterSig")) if scd is not None else None)
            if count is None and msig is not None:
                count, unit = msig.get("count"), msig.get("unit")
            ksig = ks.get("sig") if ks is not None else sd.get("key.sig") or (scd.get("key.sig") if scd is not None else None)
            events.append(base("staffdef", n=int(sd.get("n") or 1), s=(cl.get("shape") if cl is not None else sd.get("clef.shape")) or "",
                               a=int((cl.get("line") if cl is not None else sd.get("clef.line")) or 0), b=sig(ksig), c=int(count or 4), d=int(unit or 4)))
    for sec in music.iter(q("score")):
        for ch in sec:
            if isinstance(ch.tag, str) and etree.QName(ch).localname == "section":
                walk_section(ch)
    return {"events": events, "nstaves": sum(1 for e in events if e["ev"] == "staffdef")}
