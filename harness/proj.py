"""Canonical projection of partitura objects (parts, scores, performances) to plain JSON-able data.

Used to compare "before" and "after" (frame conditions, read-only observers) and to compare an
implementation object with a state emitted by TLC.  Only public attributes are read; references
between objects become indices into the canonical object order, so a reference to an object that is
not registered on the projected part shows up as "dangling"."""
import hashlib
import json
from fractions import Fraction

import numpy as np


def _prim(v):
    if v is None or isinstance(v, (bool, int, str)):
        return v
    if isinstance(v, (np.integer,)):
        return int(v)
    if isinstance(v, (float, np.floating)):
        return float(v)
    if isinstance(v, Fraction):
        return [v.numerator, v.denominator]
    return None


def part_objects(part, exclude=()):
    """All timed objects registered on the part (starting or ending), in canonical order."""
    import partitura.score as score
    seen = {}
    order = []
    tp = part.first_point
    while tp is not None:
        for reg in (tp.starting_objects, tp.ending_objects):
            for cls in sorted(reg, key=lambda c: c.__name__):
                if cls.__name__ in exclude:
                    continue
                for o in reg[cls]:
                    if id(o) not in seen:
                        seen[id(o)] = len(order)
                        order.append(o)
        tp = tp.next
    return order, seen


def project_part(part, with_ids=True, exclude=()):
    import partitura.score as score
    order, index = part_objects(part, exclude)

    def ref(o):
        if o is None:
            return None
        if id(o) in index:
            return ["ref", index[id(o)]]
        return ["dangling", type(o).__name__, getattr(o, "id", None)]

    def val(v):
        p = _prim(v)
        if p is not None or v is None:
            return p
        if isinstance(v, score.TimedObject):
            return ref(v)
        if isinstance(v, score.TimePoint):
            return ["tp", v.t]
        if isinstance(v, (list, tuple)):
            return [val(x) for x in v]
        if isinstance(v, dict):
            return {str(k): val(x) for k, x in sorted(v.items(), key=lambda kv: str(kv[0]))}
        if isinstance(v, set):
            return sorted(str(x) for x in v)
        if isinstance(v, score.Part):
            return ["part", v.id]
        if hasattr(v, "__dict__"):
            return {"__class__": type(v).__name__, **{k: val(x) for k, x in sorted(vars(v).items()) if not k.startswith("__")}}
        return repr(v)

    objs = []
    for o in order:
        rec = {"cls": type(o).__name__, "start": None if o.start is None else o.start.t,
               "end": None if o.end is None else o.end.t}
        for k, v in sorted(vars(o).items()):
            if k in ("start", "end"):
                continue
            rec[k] = val(v)
        objs.append(rec)
    pts = []
    tp = part.first_point
    while tp is not None:
        pts.append([tp.t, tp.quarter, None if tp.prev is None else tp.prev.t, None if tp.next is None else tp.next.t])
        tp = tp.next
    meta = {k: _prim(v) for k, v in sorted(vars(part).items())
            if (not k.startswith("_") or k == "_use_musical_beat") and k not in ("parent",)
            and (_prim(v) is not None or v is None)}     # public attributes only (lazy caches like _number_of_staves are not content)
    return {"id": part.id, "meta": meta, "points": pts, "objects": objs,
            "qtab": [[int(a), int(b)] for a, b in part.quarter_durations()]}


def project_score(sc, exclude=()):
    import partitura.score as score
    if isinstance(sc, score.Part):
        return {"parts": [project_part(sc, exclude=exclude)]}
    out = {"parts": [project_part(p, exclude=exclude) for p in sc.parts]}

    def grp(g):
        if isinstance(g, score.PartGroup):
            return {"group": [g.group_symbol, g.group_name, g.number], "children": [grp(c) for c in g.children]}
        return {"part": g.id}
    if hasattr(sc, "part_structure"):
        out["structure"] = [grp(g) for g in sc.part_structure]
    for k in ("id", "title", "subtitle", "composer", "lyricist", "copyright"):
        if hasattr(sc, k):
            out[k] = _prim(getattr(sc, k))
    return out


def project_performance(perf):
    import partitura.performance as performance
    parts = perf.performedparts if hasattr(perf, "performedparts") else [perf]
    out = []
    for pp in parts:
        notes = []
        for n in pp.notes:
            d = dict(n) if not isinstance(n, dict) else n
            notes.append({str(k): _prim(v) if _prim(v) is not None else repr(v) for k, v in sorted(d.items(), key=lambda kv: str(kv[0]))})
        rec = {"id": pp.id, "part_name": pp.part_name, "notes": notes,
               "controls": [{k: _prim(v) for k, v in sorted(c.items())} for c in pp.controls],
               "programs": [{k: _prim(v) for k, v in sorted(c.items())} for c in pp.programs],
               "ppq": getattr(pp, "ppq", None), "mpq": getattr(pp, "mpq", None),
               "threshold": getattr(pp, "sustain_pedal_threshold", None)}
        for k in ("time_signatures", "key_signatures", "meta_other", "track_names"):
            if hasattr(pp, k):
                rec[k] = [{kk: _prim(v) if _prim(v) is not None else repr(v) for kk, v in sorted(c.items())} for c in getattr(pp, k)]
        out.append(rec)
    return {"performedparts": out}


def digest(obj):
    return hashlib.sha1(json.dumps(obj, sort_keys=True, default=repr).encode()).hexdigest()[:16]


def diff(a, b, path="", out=None, limit=8):
    """First differences between two projections."""
    if out is None:
        out = []
    if len(out) >= limit:
        return out
    if type(a) != type(b):
        out.append((path, a, b))
    elif isinstance(a, dict):
        for k in sorted(set(a) | set(b)):
            if k not in a or k not in b:
                out.append((path + "/" + str(k), a.get(k, "<missing>"), b.get(k, "<missing>")))
            else:
                diff(a[k], b[k], path + "/" + str(k), out, limit)
            if len(out) >= limit:
                break
    elif isinstance(a, list):
        if len(a) != len(b):
            out.append((path + "/len", len(a), len(b)))
        for i, (x, y) in enumerate(zip(a, b)):
            diff(x, y, path + "/%d" % i, out, limit)
            if len(out) >= limit:
                break
    elif a != b:
        out.append((path, a, b))
    return out
