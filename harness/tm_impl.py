"""Build a partitura Part from a TimeMaps configuration (as emitted by TLC / generated for TLC)."""
from fractions import Fraction

INT_TO_SIGN = {0: "G", 1: "F", 2: "C", 3: "percussion", 4: "TAB", 5: "jianpu", 6: "none"}
INT_TO_MODE = {1: "major", -1: "minor", 0: None}


def build(score, cfg, filler=True):
    qtab = sorted(cfg["qtab"])
    part = score.Part("P1", quarter_duration=qtab[0][1])
    for t, q in qtab[1:]:
        part.set_quarter_duration(t, q)
    tss = {}
    for t, b, bt, mb in sorted(cfg["ts"]):
        ts = score.TimeSignature(b, bt)
        part.add(ts, t)
        tss[(b, bt)] = mb
    for t, f, m in sorted(cfg["ks"]):
        part.add(score.KeySignature(f, INT_TO_MODE.get(m, "major") if m in INT_TO_MODE else m), t)
    for t, st, sg, ln, oc in sorted(cfg["clefs"]):
        part.add(score.Clef(st, INT_TO_SIGN[sg], ln, oc), t)
    for s, e, num in sorted(cfg["measures"]):
        part.add(score.Measure(number=num), s, e)
    if filler:
        part.add(score.Rest(id="r0", voice=1, staff=1), 0, cfg["T"])
        if cfg.get("nstaves", 1) > 1:
            part.add(score.Rest(id="r1", voice=2, staff=cfg["nstaves"]), 0, cfg["T"])
    if cfg.get("musical"):
        default = {6: 2, 9: 3, 12: 4}
        user = {"%d/%d" % k: v for k, v in tss.items() if v != default.get(k[0], k[0])}
        part.use_musical_beat(user)
    return part


def fr(p):
    return Fraction(p[0], p[1])


def close(x, f, rel=1e-9):
    try:
        x = float(x)
    except Exception:
        return False
    f = float(f)
    return abs(x - f) <= rel * max(1.0, abs(f))
