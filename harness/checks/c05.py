"""C05 — the note array is a faithful table of the score.

NoteArray.tla (on TimeMaps.tla and Pitch.tla) defines the rows of the part-level, score-level and rest
tables as functions of the score content (tie chains merged, grace notes with zero duration, every
column read from the maps at the onset, lcm rescaling and id prefixes across parts); TLC checks
OneRowPerSoundingNote / TieChainsCoverEveryNote and computes the expected tables for seeded random
scores built through the public API.  The harness compares every column, the row order, the option
combinations, and the inverse direction through note_array_to_score."""
import json
import os
import random
import sys
import concurrent.futures

import numpy as np

from .. import common, gen_score, tlc, tm_impl
from .c12 import uniq

MODE_INT = {"major": 1, "minor": -1, None: 1, "none": 1}
SIGN_INT = {"G": 0, "F": 1, "C": 2, "percussion": 3, "TAB": 4, "jianpu": 5, "none": 6}
ALL_OPTS = dict(include_pitch_spelling=True, include_key_signature=True, include_time_signature=True,
                include_metrical_position=True, include_grace_notes=True, include_staff=True)


def extract(score, part, unstated=0):
    """The abstract content of a part in the shape NoteArray.tla reads (project)."""
    T = part.last_point.t
    cfg = {"T": T, "qtab": [[int(a), int(b)] for a, b in part.quarter_durations()],
           "ts": [[ts.start.t, ts.beats, ts.beat_type, ts.musical_beats] for ts in part.iter_all(score.TimeSignature)],
           "ks": [[k.start.t, k.fifths, MODE_INT.get(k.mode, 1)] for k in part.iter_all(score.KeySignature)],
           "clefs": [[c.start.t, c.staff, SIGN_INT[c.sign], c.line, c.octave_change or 0] for c in part.iter_all(score.Clef)],
           "measures": [[m.start.t, m.end.t, m.number] for m in part.iter_all(score.Measure)],
           "musical": 1 if part._use_musical_beat else 0, "nstaves": part.number_of_staves}
    objs = list(part.iter_all(score.GenericNote, include_subclasses=True))
    index = {id(o): k + 1 for k, o in enumerate(objs)}
    notes = []
    for o in objs:
        rest = isinstance(o, score.Rest)
        notes.append({"id": o.id, "step": "C" if rest else o.step, "alter": 0 if rest else (getattr(o, "alter", None) or 0),
                      "octave": 0 if rest else o.octave, "on": o.start.t, "dur": o.end.t - o.start.t,
                      "next": index.get(id(o.tie_next), 0) if o.tie_next is not None else 0,
                      "prev": index.get(id(o.tie_prev), 0) if o.tie_prev is not None else 0,
                      "grace": 1 if isinstance(o, score.GraceNote) else 0,
                      "gtype": o.grace_type if isinstance(o, score.GraceNote) else "",
                      "voice": unstated if o.voice is None else o.voice, "staff": o.staff or 0, "rest": 1 if rest else 0})
    return {"cfg": cfg, "notes": notes}


def fr(p):
    return p[0] / p[1]


def f32close(x, y):
    return abs(float(x) - y) <= 2.0 ** -20 * max(1.0, abs(y))


def cmp_rows(report, what, arr, rows, opts, check_voice=True):
    """arr: structured array from partitura; rows: expected rows from TLC."""
    if len(arr) != len(rows):
        report(what + ".row_count", {"expected": len(rows), "got": len(arr), "ids": [r["id"] for r in rows][:8]})
        return
    exp = sorted(rows, key=lambda r: (r["onset_div"], r["pitch"], r["id"]))
    got = sorted(range(len(arr)), key=lambda i: (int(arr["onset_div"][i]), int(arr["pitch"][i]), str(arr["id"][i])))
    for e, gi in zip(exp, got):
        g = arr[gi]
        cols = [("id", str(g["id"]), e["id"]), ("onset_div", int(g["onset_div"]), e["onset_div"]),
                ("duration_div", int(g["duration_div"]), e["duration_div"]), ("pitch", int(g["pitch"]), e["pitch"])]
        if check_voice and e["voice"] != -1:        # (-1: the score states no voice; a stated voice may be 0)
            cols.append(("voice", int(g["voice"]), e["voice"]))
        names = arr.dtype.names
        if "step" in names:
            cols += [("step", str(g["step"]), e["step"]), ("alter", int(g["alter"]), e["alter"]), ("octave", int(g["octave"]), e["octave"])]
        if "ks_fifths" in names:
            cols += [("ks", [int(g["ks_fifths"]), int(g["ks_mode"])], e["ks"])]
        if "ts_beats" in names:
            if "ts_mus_beats" in names:
                cols += [("ts", [int(g["ts_beats"]), int(g["ts_beat_type"]), int(g["ts_mus_beats"])], e["ts"])]
            else:
                cols += [("ts", [int(g["ts_beats"]), int(g["ts_beat_type"])], e["ts"][:2])]
        if "rel_onset_div" in names and e["mpos"] != [-1, -1]:
            cols += [("metrical", [int(g["rel_onset_div"]), int(g["tot_measure_div"]), int(g["is_downbeat"])],
                      e["mpos"] + [1 if e["mpos"][0] == 0 else 0])]
        if "is_grace" in names:
            cols += [("grace", [int(g["is_grace"]), str(g["grace_type"])], [e["is_grace"], e["grace_type"]])]
        if "staff" in names:
            cols += [("staff", int(g["staff"]), e["staff"])]
        if "divs_pq" in names:
            cols += [("divs_pq", int(g["divs_pq"]), e["divs_pq"])]
        for name, gv, ev in cols:
            if gv != ev:
                report(what + "." + name, {"id": e["id"], "expected": ev, "got": gv})
                return
        for name in ("onset_quarter", "duration_quarter", "onset_beat", "duration_beat"):
            if name in names and not f32close(g[name], fr(e[name])):
                report(what + "." + name, {"id": e["id"], "expected": "%d/%d" % tuple(e[name]), "got": float(g[name])})
                return
    # rows ordered by onset, then pitch
    on = arr["onset_div"].astype(float) if "onset_beat" not in arr.dtype.names else arr["onset_beat"].astype(float)
    for i in range(len(arr) - 1):
        if on[i] > on[i + 1] + 1e-6 or (abs(on[i] - on[i + 1]) <= 1e-6 and arr["pitch"][i] > arr["pitch"][i + 1]):
            report(what + ".order", {"rows": [[float(on[j]), int(arr["pitch"][j])] for j in (i, i + 1)]})
            return


def run_gen(args):
    tag, env = args
    return tlc.run("NoteArrayCases", "NoteArrayCases.cfg", tag, workers=1, env=env, expect_violation=True, timeout=3000, heap="3g")


def main(chk):
    common.setup_repo_path()
    import partitura
    import partitura.score as score
    import partitura.utils.music as M
    from partitura.musicanalysis import note_array_to_score
    rng = random.Random(chk.seed)
    n = 400 if chk.tier == "quick" else 4000
    scores = {}
    cases = []
    for cid in range(1, n + 1):
        npart = rng.choice([1, 1, 2, 3])
        divs_choices = [rng.choice([1, 2, 4, 6, 12]) for _ in range(npart)]
        parts = []
        for i in range(npart):
            nm = rng.randint(1, 3)
            # (a pickup needs a following bar: a part shorter than one beat is the known C10 finding)
            parts.append(gen_score.make_part(score, rng, pid="P%d" % (i + 1), divs=divs_choices[i],
                                             pickup=nm >= 2 and rng.random() < 0.4, ts_change=rng.random() < 0.4,
                                             no_voice=rng.choice([0, 0, 0.3]), no_staff=rng.choice([0, 0, 0.3]),
                                             staves=rng.choice([1, 2]), max_notes=12, n_measures=nm))
        if rng.random() < 0.2:
            # voices numbered from 0 (hand-built parts, parts made from a note array with a zero-based voice column): a stated
            # voice 0 is a voice like any other, not a missing one
            for o in parts[-1].iter_all(score.GenericNote, include_subclasses=True):
                if o.voice is not None:
                    o.voice -= 1
        if rng.random() < 0.25:
            parts[0].use_musical_beat()
        sc = score.Score(partlist=parts, id="S%d" % cid)
        scores[cid] = sc
        cases.append({"cid": cid, "unique_ids": rng.randint(0, 1), "parts": [extract(score, p, unstated=-1) for p in parts]})
    shards = 8
    jobs = []
    for k in range(shards):
        wd = tlc.workdir("c05/file%d" % k)
        path = os.path.join(wd, "cases.json")
        with open(path, "w") as f:
            json.dump(cases[k::shards], f)
        jobs.append(("c05/file%d" % k, {"CASE_FILE": path}))
    with concurrent.futures.ThreadPoolExecutor(shards) as ex:
        results = list(ex.map(run_gen, jobs))
    expected = {}
    for r in results:
        chk.add_mc("NoteArrayCases", r)
        if r.violated:
            chk.machinery("NoteArray specification violates its own property %s\n%s" % (r.violated, r.error_trace[:1200]))
            return
        for j in uniq(r.json_lines()):
            expected[j["cid"]] = j["out"]
    bycid = {c["cid"]: c for c in cases}
    for cid, out in sorted(expected.items()):
        sc = scores[cid]
        case = bycid[cid]
        chk.count(1, validated=1)
        feats = tuple(sorted(set(["ties" if any(x["next"] for p in case["parts"] for x in p["notes"]) else "",
                                  "grace" if any(x["grace"] for p in case["parts"] for x in p["notes"]) else "",
                                  "multi" if len(case["parts"]) > 1 else ""])))
        chk.nontrivial(cid) if any(feats) else None

        def report(clause, detail, **attrs):
            chk.violation("s2c", clause, dict(score=cid, **detail), replay={"case": case, "expected_rows": "see TLC"},
                          op=clause.split(".")[0], **attrs)
        # --- part level
        for i, part in enumerate(sc.parts):
            one_div = len(case["parts"][i]["cfg"]["qtab"]) == 1
            try:
                arr = part.note_array(include_divs_per_quarter=one_div, **ALL_OPTS)
                cmp_rows(report, "part_note_array", arr, out["part_rows"][i], ALL_OPTS)
                # any subset of the options gives the same columns
                sub = {k: rng.random() < 0.5 for k in ALL_OPTS}
                arr2 = part.note_array(**sub)
                for name in arr2.dtype.names:
                    if not np.array_equal(arr2[name], arr[name]):
                        report("part_note_array.option_changes_column", {"column": name, "options": sub})
                        break
                arr3 = M.ensure_notearray(part, **sub)
                if arr3.dtype != arr2.dtype or not np.array_equal(arr3, arr2):
                    report("ensure_notearray.differs", {"options": sub})
            except Exception as ex:
                report("part_note_array.raises", {"exc": repr(ex)}, exc=type(ex).__name__)
            try:
                ra = part.rest_array(include_pitch_spelling=True, include_key_signature=True, include_time_signature=True,
                                     include_metrical_position=True, include_grace_notes=True, include_staff=True)
                rows = [dict(r, step="", octave=0, alter=0) for r in out["rest_rows"][i]]
                cmp_rows(report, "rest_array", ra, [dict(r, step=str(ra["step"][0]) if len(ra) else "") for r in rows], ALL_OPTS,
                         check_voice=True)
            except Exception as ex:
                report("rest_array.raises", {"exc": repr(ex)}, exc=type(ex).__name__)
        # --- score level
        try:
            arr = sc.note_array(unique_id_per_part=bool(case["unique_ids"]), **ALL_OPTS)
            cmp_rows(report, "score_note_array", arr, out["score_rows"], ALL_OPTS, check_voice=False)
            arr_l = M.note_array_from_part_list(list(sc.parts), unique_id_per_part=bool(case["unique_ids"]), **ALL_OPTS)
            if not np.array_equal(arr_l, arr):
                report("note_array_from_part_list.differs_from_score", {})
        except Exception as ex:
            report("score_note_array.raises", {"exc": repr(ex)}, exc=type(ex).__name__)
        # --- inverse direction (single part, one divisions value, no grace notes)
        cfg0 = case["parts"][0]["cfg"]
        if len(sc.parts) == 1 and len(cfg0["qtab"]) == 1 and len(cfg0["ts"]) == 1 and not cfg0["musical"]:
            try:
                na = sc.parts[0].note_array(include_time_signature=True, include_divs_per_quarter=True)
                na = na[na["duration_div"] > 0]
                if len(na):
                    for cols in (["onset_div", "duration_div", "onset_beat", "duration_beat"], ["onset_div", "duration_div"]):
                        keep = cols + ["pitch", "voice", "id", "ts_beats", "ts_beat_type", "ts_mus_beats", "divs_pq"]
                        sub = na[keep]
                        p2 = note_array_to_score(sub, divs=int(na["divs_pq"][0]), assign_note_ids=False)
                        p2 = p2.parts[0] if hasattr(p2, "parts") else p2
                        nb = p2.note_array()
                        a = sorted(zip(sub["onset_div"].tolist(), sub["duration_div"].tolist(), sub["pitch"].tolist()))
                        b = sorted(zip((nb["onset_div"] - nb["onset_div"].min() + sub["onset_div"].min()).tolist(),
                                       nb["duration_div"].tolist(), nb["pitch"].tolist()))
                        if a != b:
                            report("note_array_to_score.round_trip", {"columns": cols, "expected": a[:6], "got": b[:6]})
                            break
                        # (beats: a piece whose notes stop before the last barline, or with a single bar, cannot be told
                        #  from one with a pickup; compared only when the notes fill the last measure)
                        fills = max(x["on"] + x["dur"] for x in case["parts"][0]["notes"] if not x["rest"]) == cfg0["T"]
                        if "onset_beat" in cols and fills and len(cfg0["measures"]) >= 2:
                            # (a piece that begins with silence - e.g. a pickup bar that holds only rests - has no trace of
                            #  that silence in the note array: onsets are then compared relative to the first note)
                            lead = int(sub["onset_div"].min()) > 0
                            oa = sub["onset_beat"] - (sub["onset_beat"].min() if lead else 0)
                            ob = nb["onset_beat"] - (nb["onset_beat"].min() if lead else 0)
                            a = sorted(zip(np.round(oa, 3).tolist(), np.round(sub["duration_beat"], 3).tolist(), sub["pitch"].tolist()))
                            b = sorted(zip(np.round(ob, 3).tolist(), np.round(nb["duration_beat"], 3).tolist(), nb["pitch"].tolist()))
                            if any(abs(x[0] - y[0]) > 2e-3 or abs(x[1] - y[1]) > 2e-3 or x[2] != y[2] for x, y in zip(a, b)):
                                report("note_array_to_score.round_trip_beats", {"expected": a[:6], "got": b[:6]})
                                break
                    # beats only ("the beat times are given in quarters", docstring): the divisions have to be found from the
                    # values themselves; onsets and durations in quarters must come back as they are
                    naq = sc.parts[0].note_array()
                    naq = naq[naq["duration_div"] > 0]
                    subq = np.array([(float(x["onset_quarter"]), float(x["duration_quarter"]), int(x["pitch"]), int(x["voice"]), str(x["id"])) for x in naq],
                                    dtype=[("onset_beat", "f4"), ("duration_beat", "f4"), ("pitch", "i4"), ("voice", "i4"), ("id", "U64")])
                    p3 = note_array_to_score(subq, assign_note_ids=False)
                    p3 = p3.parts[0] if hasattr(p3, "parts") else p3
                    nq = p3.note_array()
                    # (negative positions - a pickup - cannot be kept by a part that starts at 0: the function shifts them, documented)
                    shift = min(0.0, float(subq["onset_beat"].min())) if len(subq) else 0.0
                    a = sorted(zip(np.round(subq["onset_beat"] - shift, 3).tolist(), np.round(subq["duration_beat"], 3).tolist(), subq["pitch"].tolist()))
                    b = sorted(zip(np.round(nq["onset_quarter"], 3).tolist(), np.round(nq["duration_quarter"], 3).tolist(), nq["pitch"].tolist()))
                    if len(a) != len(b) or any(abs(x[0] - y[0]) > 2e-3 or abs(x[1] - y[1]) > 2e-3 or x[2] != y[2] for x, y in zip(a, b)):
                        report("note_array_to_score.round_trip_beats_only", {"expected": a[:6], "got": b[:6]})
            except Exception as ex:
                report("note_array_to_score.raises", {"exc": repr(ex)}, exc=type(ex).__name__)
    # --- inverse direction on arrays whose positions need a finer grid than their note values (syncopation: every
    #     duration a whole number of quarters, onsets on halves, thirds or quarters of a quarter)
    sync = 0
    for den in (2, 3, 4, 6):
        for trial in range(6 if chk.tier == "quick" else 40):
            k = rng.randint(2, 6)
            rows = []
            t = rng.choice([0, 1]) * den + rng.randint(0, den - 1)        # in 1/den quarters
            for j in range(k):
                d = rng.choice([1, 2]) * den
                rows.append((t / den, d / den, 60 + j, 1, "s%d" % j))
                t += d + rng.choice([0, 0, 1, den])
            subq = np.array(rows, dtype=[("onset_beat", "f4"), ("duration_beat", "f4"), ("pitch", "i4"), ("voice", "i4"), ("id", "U64")])
            sync += 1
            chk.count(1, validated=1)
            try:
                p3 = note_array_to_score(subq, assign_note_ids=False)
                p3 = p3.parts[0] if hasattr(p3, "parts") else p3
                nq = p3.note_array()
                a = sorted(zip(np.round(subq["onset_beat"], 3).tolist(), np.round(subq["duration_beat"], 3).tolist(), subq["pitch"].tolist()))
                b = sorted(zip(np.round(nq["onset_quarter"], 3).tolist(), np.round(nq["duration_quarter"], 3).tolist(), nq["pitch"].tolist()))
                if len(a) != len(b) or any(abs(x[0] - y[0]) > 2e-3 or abs(x[1] - y[1]) > 2e-3 or x[2] != y[2] for x, y in zip(a, b)):
                    chk.violation("s2c", "note_array_to_score.round_trip_beats_only", {"expected": a[:6], "got": b[:6], "grid": den},
                                  replay={"rows": [list(map(str, r)) for r in rows]}, op="note_array_to_score", syncopated=True)
            except Exception as ex:
                chk.violation("s2c", "note_array_to_score.raises", {"exc": repr(ex), "rows": [list(map(str, r)) for r in rows]},
                              replay={"rows": [list(map(str, r)) for r in rows]}, op="note_array_to_score", exc=type(ex).__name__, syncopated=True)
    chk.part("scores", generated=n, with_expected_tables=len(expected), syncopated_beat_arrays=sync)
    c0 = cases[0]
    chk.sample({"score": c0["cid"], "parts": [{"cfg": p["cfg"], "notes": p["notes"][:3]} for p in c0["parts"]],
                "expected_first_rows": expected.get(c0["cid"], {}).get("score_rows", [])[:2]})
    chk.assumptions += ["float32 columns are compared with the exact rational under 2^-20 relative",
                        "rows with equal (onset, pitch) form an unordered group", "voice compared at part level only (score level renumbers nothing, but missing voices are filled per part)"]


def entry():
    chk = common.Check("C05")
    try:
        main(chk)
    except tlc.TLCError as ex:
        chk.machinery(str(ex))
    except Exception:
        import traceback
        chk.machinery("exception in check machinery:\n" + traceback.format_exc())
    sys.exit(chk.finish(rule="seeded random scores (1-3 parts, different divisions, pickups, signature changes, ties, grace notes, "
                             "missing voices/staves) with TLC computing the expected tables; non-trivial = has ties, grace notes or several parts",
                        exhaustive=False))
