"""G11 — growth beyond the listed properties: sanitize_part (Sanitize.tla).

SanitizeCases.tla enumerates every combination of the condition of a slur, a tuplet, a grace note and a tie in a part of
three consecutive notes, applies the repairs in every order (NothingIncompleteLeft, CompleteThingsStay, OnlyRepairs; one
settled state per scenario) and prints the settled state; every scenario is built as a real part and given to
sanitize_part: what is left must be the settled state, the three notes are untouched, and a second call changes nothing.

Not a listed property: not registered in MANIFEST.json, prints DEVIATION lines (never VIOLATION), writes growth/G11.json."""
import json
import os
import sys
import time

from .. import common, tlc


def build(S, g):
    part = S.Part("P1")
    part.set_quarter_duration(0, 2)
    part.add(S.TimeSignature(3, 4), 0)
    part.add(S.Measure(number=1), 0, 6)
    ns = [S.Note(step=st, octave=4, voice=1, staff=1, id="n%d" % (k + 1)) for k, st in enumerate("CCC")]
    for k, n in enumerate(ns):
        part.add(n, 2 * k, 2 * k + 2)
    obj = {"notes": ns}
    if g["slur"] != "none":
        sl = S.Slur(start_note=ns[0] if g["slur"] != "nostart" else None, end_note=ns[1] if g["slur"] != "noend" else None)
        part.add(sl, 0, 4)
        obj["slur"] = sl
    if g["tuplet"] != "none":
        tp = S.Tuplet(start_note=ns[1] if g["tuplet"] != "nostart" else None, end_note=ns[2] if g["tuplet"] != "noend" else None)
        part.add(tp, 2, 6)
        obj["tuplet"] = tp
    if g["grace"] != "none":
        gn = S.GraceNote(grace_type="acciaccatura", step="D", octave=4, voice=1 if g["grace"] != "loose_other_voice" else 2, staff=1, id="g1")
        part.add(gn, 2, 2)
        if g["grace"] == "linked":
            gn.grace_next = ns[1]
            ns[1].grace_prev = gn if hasattr(ns[1], "grace_prev") else None
        obj["grace"] = gn
    if g["tie"] == "ok":
        ns[1].tie_next, ns[2].tie_prev = ns[2], ns[1]
    elif g["tie"] == "gap":
        ns[0].tie_next, ns[2].tie_prev = ns[2], ns[0]
    return part, obj


def observe(S, part, obj, g):
    slurs = list(part.iter_all(S.Slur))
    tups = list(part.iter_all(S.Tuplet))
    graces = list(part.iter_all(S.GraceNote))
    ns = obj["notes"]
    out = {}
    out["slur"] = "none" if g["slur"] == "none" else ("removed" if not slurs else
                                                       ("ok" if slurs[0].start_note is not None and slurs[0].end_note is not None else g["slur"]))
    out["tuplet"] = "none" if g["tuplet"] == "none" else ("removed" if not tups else
                                                           ("ok" if tups[0].start_note is not None and tups[0].end_note is not None else g["tuplet"]))
    if g["grace"] == "none":
        out["grace"] = "none"
    elif not graces:
        out["grace"] = "removed"
    elif graces[0].main_note is None:
        out["grace"] = g["grace"]
    else:
        out["grace"] = "linked" if g["grace"] == "linked" else "relinked"
    ties = [(a.id, a.tie_next.id) for a in ns if a.tie_next is not None]
    backs = [(a.tie_prev.id, a.id) for a in ns if a.tie_prev is not None]
    if g["tie"] == "none":
        out["tie"] = "none" if not ties and not backs else "invented"
    elif not ties and not backs:
        out["tie"] = "broken"
    elif ties == backs:
        out["tie"] = g["tie"]
    else:
        out["tie"] = "half_broken"
    return out


def main():
    common.setup_repo_path()
    import partitura.score as S
    tier = common.tier()
    t0 = time.time()
    r = tlc.run("SanitizeCases", "SanitizeCases.cfg", "g11/mc", workers=2, coverage=True, timeout=3000)
    if r.violated:
        print("MACHINERY-FAILURE growth=G11 Sanitize.tla violates its own property %s" % r.violated)
        return 2
    seen = {}
    for j in r.json_lines():
        seen.setdefault(json.dumps(j["given"], sort_keys=True), set()).add(json.dumps({k: j[k] for k in ("slur", "tuplet", "grace", "tie")}, sort_keys=True))
    if any(len(v) != 1 for v in seen.values()):
        print("MACHINERY-FAILURE growth=G11 a scenario with more than one settled state")
        return 2
    deviations, first = {}, {}

    def dev(clause, case, got, want):
        deviations[clause] = deviations.get(clause, 0) + 1
        first.setdefault(clause, {"case": case, "got": got, "want": want})

    n = 0
    for key, outs in sorted(seen.items()):
        n += 1
        g = json.loads(key)
        want = json.loads(next(iter(outs)))
        try:
            part, obj = build(S, g)
            before = [(x.id, x.start.t, x.end.t, x.voice) for x in obj["notes"]]
            S.sanitize_part(part)
            got = observe(S, part, obj, g)
            after = [(x.id, x.start.t, x.end.t, x.voice) for x in obj["notes"]]
        except Exception as ex:
            dev("raises", g, "%s: %s" % (type(ex).__name__, str(ex)[:200]), want)
            continue
        for k in ("slur", "tuplet", "grace", "tie"):
            if got[k] != want[k]:
                dev("%s.%s_becomes_%s" % (k, g[k], got[k]), g, got, want)
        if before != after or len(list(part.iter_all(S.Note, include_subclasses=False))) != 3:
            dev("notes_changed", g, after, before)
        try:
            S.sanitize_part(part)
            again = observe(S, part, obj, g)
            if again != got:
                dev("second_call_changes_something", g, again, got)
        except Exception as ex:
            dev("raises_second_call", g, "%s: %s" % (type(ex).__name__, str(ex)[:200]), "no exception")
    out = os.path.join(common.OUT, "growth")
    os.makedirs(out, exist_ok=True)
    ev = {"growth_id": "G11", "spec": "Sanitize.tla / SanitizeCases.tla", "tier": tier,
          "tlc": [{"distinct_states": r.distinct, "states_generated": r.generated, "depth": r.depth, "wall_s": round(r.wall_s, 1),
                   "actions": {k: list(v) for k, v in r.coverage.items()}}],
          "scenarios_replayed": n, "deviations": deviations, "first_of_each": first, "wall_s": round(time.time() - t0, 1)}
    with open(os.path.join(out, "G11.json"), "w") as f:
        json.dump(ev, f, indent=1, default=str)
    for k, v in sorted(deviations.items()):
        print("DEVIATION growth=G11 clause=%s count=%d first=%s" % (k, v, json.dumps(first[k], default=str)[:500]))
    print("SUMMARY growth=G11 tier=%s states=%d scenarios=%d deviations=%d wall=%.1fs" % (tier, r.distinct, n, sum(deviations.values()), time.time() - t0))
    return 1 if deviations else 0


def entry():
    try:
        rc = main()
    except tlc.TLCError as ex:
        print("MACHINERY-FAILURE growth=G11 %s" % str(ex)[:1500])
        rc = 2
    except Exception:
        import traceback
        print("MACHINERY-FAILURE growth=G11\n" + traceback.format_exc())
        rc = 2
    sys.exit(rc)
