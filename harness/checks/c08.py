"""C08 — saving an alignment as a match file and loading it returns the same data.

MatchFile.tla specifies the duplicate-id resolution of the loader as a function on line sequences
(invariants KeepsMatches, NothingElseLost, OrderKept, idempotence) and the alignment of a file; TLC
enumerates short line sequences with the expected result, which the harness writes as files and
loads.  For recorded save_match inputs (single-part scores, performed parts, partial alignments mixing
matches, deletions and insertions, ppq/mpq, pedal streams) TLC computes what loading must return
(score rows in beats via NoteArray/TimeMaps, ticks by round-half-even) and the harness compares
alignment, performance and reconstructed score; the fixture match files are loaded as well."""
import concurrent.futures
import glob
import json
import os
import random
import sys
from fractions import Fraction

import numpy as np

from .. import common, gen_score, tlc
from .c05 import extract
from .c12 import uniq


def make_triple(score, rng):
    while True:
        divs = rng.choice([1, 2, 4, 6, 12])
        part = gen_score.make_part(score, rng, pid="P1", divs=divs, n_measures=rng.randint(2, 5), pickup=rng.random() < 0.4,
                                   ts_change=rng.choice([False, False, True, "multi"]), slurs=False, staves=rng.choice([1, 2]), voices=rng.choice([1, 2]),
                                   max_notes=40, grace=rng.random() < 0.5)
        na = part.note_array()
        # the format stores notes only: a bar in which no note starts cannot be written
        if not all(any(m.start.t <= n.start.t < m.end.t for n in part.notes_tied) for m in part.iter_all(score.Measure)):
            continue
        # ... and a pickup bar is known by its first note (positions are counted from the first note of the file)
        if na["onset_beat"].min() < 0 and na["onset_div"].min() != part.first_point.t:
            continue
        break
    for n in part.notes_tied:
        if rng.random() < 0.2 and not isinstance(n, score.GraceNote):
            n.articulations = rng.choice([["staccato"], ["accent"], ["staccato", "accent"]])
    ms = sorted(m.start.t for m in part.iter_all(score.Measure))
    if len(ms) > 2 and rng.random() < 0.3:
        # (a repeated identical key signature is read as one: the change is to another key)
        old_fifths = [k.fifths for k in part.iter_all(score.KeySignature)]
        at = rng.choice(ms[1:])
        first = next(iter(part.iter_all(score.KeySignature)), None)
        part.add(score.KeySignature(rng.choice([f for f in range(-6, 7) if f not in old_fifths]), rng.choice(["major", "minor"])), at)
        later = [m for m in ms if m > at]
        if first is not None and later and rng.random() < 0.6:
            # ... and back to the first key at a later bar (A B A: the third signature restates a key that is not the previous one)
            part.add(score.KeySignature(first.fifths, first.mode), rng.choice(later))
    ppq, mpq = rng.choice([(480, 500000), (96, 250000), (220, 600000), (960, 1000000)])
    notes, al, times = [], [], []
    with_ornaments = rng.random() < 0.4
    k = 0
    for r in na:
        roll = rng.random()
        if roll < 0.15:
            al.append(dict(label="deletion", score_id=str(r["id"])))
            continue
        if roll < 0.22 and with_ornaments:
            for _ in range(rng.randint(1, 2)):
                on = Fraction(int(round((float(r["onset_beat"]) - float(na["onset_beat"].min())) * 8)) + rng.randint(0, 3), 16) + 1
                off = on + Fraction(rng.randint(1, 4), 16)
                notes.append(dict(id="n%d" % k, midi_pitch=int(r["pitch"]) + 1, note_on=float(on), note_off=float(off), velocity=rng.randint(1, 127),
                                  track=0, channel=0, _on=on, _off=off))
                al.append(dict(label="ornament", score_id=str(r["id"]), performance_id="n%d" % k, type="trill"))
                k += 1
        on = Fraction(int(round((float(r["onset_beat"]) - float(na["onset_beat"].min())) * 8)) + rng.randint(0, 3), 16) + 1
        off = on + Fraction(rng.randint(1, 24), 16)
        notes.append(dict(id="n%d" % k, midi_pitch=int(r["pitch"]), note_on=float(on), note_off=float(off), velocity=rng.randint(1, 127),
                          track=0, channel=0, _on=on, _off=off))
        al.append(dict(label="match", score_id=str(r["id"]), performance_id="n%d" % k))
        k += 1
    for _ in range(rng.randint(0, 3)):
        on = Fraction(rng.randint(0, 200), 16)
        off = on + Fraction(rng.randint(1, 16), 16)
        notes.append(dict(id="n%d" % k, midi_pitch=rng.randint(30, 90), note_on=float(on), note_off=float(off), velocity=rng.randint(1, 127),
                          track=0, channel=0, _on=on, _off=off))
        al.append(dict(label="insertion", performance_id="n%d" % k))
        k += 1
    controls = []
    for _ in range(rng.randint(0, 4)):
        t = Fraction(rng.randint(0, 200), 16)
        controls.append(dict(number=rng.choice([64, 67]), time=float(t), value=rng.randint(0, 127), track=0, channel=0, _t=t))
    return part, na, notes, al, with_ornaments, ppq, mpq, controls


def run_gen(args):
    source, tag, env = args
    return tlc.run("MatchFileCases", "MatchFileCases.%s.cfg" % source, tag, workers=1, env=env, expect_violation=True,
                   timeout=3000, heap="3g")


def main(chk):
    common.setup_repo_path()
    import partitura
    import partitura.score as score
    import partitura.performance as P
    import partitura.io.matchlines_v1 as V1
    from partitura.io.matchfile_utils import FractionalSymbolicDuration as FSD, Version
    from partitura.io.matchfile_base import BaseSnoteNoteLine, BaseDeletionLine, BaseInsertionLine, BaseOrnamentLine
    from partitura.io.exportmatch import save_match
    from partitura.io.importmatch import load_match, load_matchfile
    rng = random.Random(chk.seed)
    wd = tlc.workdir("c08/files")
    v1 = Version(1, 0, 0)

    # ---------------- (A) duplicate-id resolution
    res = run_gen(("ids", "c08/ids", {"SMALL": "1"} if chk.tier == "quick" else {}))
    chk.add_mc("MatchFileCases.ids", res)
    if res.violated:
        chk.machinery("MatchFile violates its own property %s\n%s" % (res.violated, res.error_trace[:1200]))
        return
    idcases = uniq(res.json_lines())
    header = ["info(matchFileVersion,1.0.0).", "info(piece,x).", "info(scoreFileName,x).", "info(midiFileName,x).", "info(composer,x).",
              "info(performer,x).", "info(midiClockUnits,480).", "info(midiClockRate,500000).",
              "scoreprop(keySignature,C,1:1,0,0.0000).", "scoreprop(timeSignature,4/4,1:1,0,0.0000)."]

    def line_text(k, l):
        k = l["tid"] - 1        # an exact duplicate repeats the text of the first line with that text
        sn = V1.MatchSnote(version=v1, anchor=l["sid"] or "n9", note_name="C", modifier=0, octave=4, measure=1, beat=1,
                           offset=FSD(k, 4), duration=FSD(1, 4), onset_in_beats=float(k), offset_in_beats=float(k + 1),
                           score_attributes_list=["v1", "leftOutTied"] if l["tied"] else ["v1"])
        nt = V1.MatchNote(version=v1, id=l["pid"] or "n99", midi_pitch=60, onset=100 * (k + 1), offset=100 * (k + 1) + 50, velocity=64,
                          channel=0, track=0)
        if l["kind"] == "match":
            return V1.MatchSnoteNote(version=v1, snote=sn, note=nt).matchline
        if l["kind"] == "deletion":
            return V1.MatchSnoteDeletion(version=v1, snote=sn).matchline
        if l["kind"] == "insertion":
            return V1.MatchInsertionNote(version=v1, note=nt).matchline
        return V1.MatchOrnamentNote(version=v1, anchor=l["sid"], ornament_type=["trill"], note=nt).matchline

    def kind_of(line):
        if isinstance(line, BaseSnoteNoteLine):
            return ("match", line.snote.Anchor, line.note.Id)
        if isinstance(line, BaseDeletionLine):
            return ("deletion", line.snote.Anchor, "")
        if isinstance(line, BaseInsertionLine):
            return ("insertion", "", line.note.Id)
        if isinstance(line, BaseOrnamentLine):
            return ("ornament", line.Anchor, line.note.Id)
        return None

    for n, case in enumerate(idcases):
        lines, out = case["in"], case["out"]
        chk.count(1, validated=1)
        both = any(l["kind"] == "deletion" for l in lines) and any(l["kind"] == "insertion" for l in lines)
        if len(out["kept"]) < len(lines):
            chk.nontrivial(n)
        fn = os.path.join(wd, "ids_%d.match" % (n % 50))
        with open(fn, "w") as f:
            f.write("\n".join(header + [line_text(k, l) for k, l in enumerate(lines)]) + "\n")

        def report(clause, detail, **attrs):
            chk.violation("s2c", clause, dict(lines=lines, expected_kept=out["kept"], **detail), replay={"lines": lines, "file": open(fn).read()},
                          op="load", deletions_and_insertions=both, **attrs)
        try:
            mf = load_matchfile(fn)
            got = [kind_of(l) for l in mf.lines if kind_of(l) is not None]
            exp = [(lines[i - 1]["kind"], lines[i - 1]["sid"], lines[i - 1]["pid"]) for i in out["kept"]]
            if got != exp:
                report("duplicate_ids.kept_lines", {"expected": exp, "got": got})
                continue
            _, al = load_match(fn)[:2]
            gal = [(a["label"], a.get("score_id", ""), a.get("performance_id", "")) for a in al]
            eal = [(a["label"], a["score_id"], a["performance_id"]) for a in out["alignment"]]
            pids = sorted(str(x["id"]) for x in load_match(fn)[0].performedparts[0].notes)
            epids = sorted(lines[i - 1]["pid"] for i in out["kept"] if lines[i - 1]["pid"])
            if pids != epids:
                report("performed_notes_of_file", {"expected": epids, "got": pids})
                continue
            if gal != eal:
                report("alignment_of_file", {"expected": eal, "got": gal})
        except Exception as ex:
            report("load.raises", {"exc": repr(ex)}, exc=type(ex).__name__)
    chk.part("duplicate_ids", sequences=len(idcases))

    # ---------------- (B) save -> load
    ncase = 60 if chk.tier == "quick" else 1200
    cases, ctx = [], {}
    for cid in range(1, ncase + 1):
        part, na, notes, al, with_ornaments, ppq, mpq, controls = make_triple(score, rng)
        if not notes:
            continue
        pp = P.PerformedPart([{a: b for a, b in n.items() if not a.startswith("_")} for n in notes], id="pp", part_name="pp",
                             controls=[{a: b for a, b in c.items() if not a.startswith("_")} for c in controls], ppq=ppq, mpq=mpq)
        times = [n["_on"] for n in notes] + [n["_off"] for n in notes] + [c["_t"] for c in controls]
        fn = os.path.join(wd, "rt_%d.match" % (cid % 40))
        al_before = json.dumps(al, sort_keys=True)
        try:
            save_match(al, pp, part, out=fn, mpq=mpq, ppq=ppq, assume_unfolded=True)
        except Exception as ex:
            # (how many matches have a score note with a duration: the time map of the exporter is built from those alone)
            durs = {str(r["id"]): int(r["duration_div"]) for r in part.note_array()}
            with_dur = sum(1 for a in al if a["label"] == "match" and durs.get(str(a["score_id"]), 0) > 0)
            chk.violation("c2s", "save_match.raises", {"cid": cid, "exc": repr(ex), "alignment": al,
                                                        "score_notes": [[n.id, type(n).__name__, n.start.t, n.end.t] for n in part.notes]},
                          replay={"alignment": al, "performed_notes": [{k: v for k, v in n.items() if not k.startswith("_")} for n in notes],
                                  "score_notes": [[n.id, type(n).__name__, n.start.t, n.end.t] for n in part.notes], "ppq": ppq, "mpq": mpq},
                          op="save", exc=type(ex).__name__, matches_with_duration=with_dur)
            continue
        if json.dumps(al, sort_keys=True) != al_before:
            chk.violation("c2s", "save_match.modifies_alignment", {"cid": cid}, op="save")
        e = extract(score, part)
        cases.append({"cid": cid, "kind": "file", "part": e, "ppq": ppq, "mpqk": mpq // 1000,
                      "times": [[t.numerator, t.denominator] for t in times]})
        ctx[cid] = (part, notes, controls, al, fn, ppq, mpq, open(fn).read(), with_ornaments)
    shards = 8
    jobs = []
    for k in range(shards):
        path = os.path.join(tlc.workdir("c08/file%d" % k), "cases.json")
        with open(path, "w") as f:
            json.dump(cases[k::shards], f)
        if cases[k::shards]:
            jobs.append(("file", "c08/file%d" % k, {"CASE_FILE": path}))
    with concurrent.futures.ThreadPoolExecutor(shards) as ex:
        results = list(ex.map(run_gen, jobs))
    outs = {}
    for r in results:
        chk.add_mc("MatchFileCases.file", r)
        for j in uniq(r.json_lines()):
            outs[j["cid"]] = j["out"]
    for cid, out in sorted(outs.items()):
        part, notes, controls, al, fn, ppq, mpq, text, with_ornaments = ctx[cid]
        with open(fn, "w") as f:
            f.write(text)
        chk.count(1, validated=1)
        chk.nontrivial(cid)

        def report(clause, detail, **attrs):
            chk.violation("c2s", clause, dict(cid=cid, ppq=ppq, mpq=mpq, **detail), replay={"match_file": text}, op=clause.split(".")[0], ornaments=with_ornaments, **attrs)
        try:
            perf, al2, sc = load_match(fn, create_score=True)
        except Exception as ex:
            report("load_match.raises", {"exc": repr(ex)}, exc=type(ex).__name__)
            continue
        # alignment
        def key(a):
            ty = a.get("type", "") if a["label"] == "ornament" else ""
            return (a["label"], a.get("score_id", ""), a.get("performance_id", ""), tuple(ty) if isinstance(ty, (list, tuple)) else (ty,))
        if sorted(map(key, al2)) != sorted(map(key, al)):
            miss = sorted(set(map(key, al)) - set(map(key, al2)))[:3]
            extra = sorted(set(map(key, al2)) - set(map(key, al)))[:3]
            report("alignment", {"missing": miss, "unexpected": extra, "n_expected": len(al), "n_got": len(al2)})
        # performance
        ticks = out["ticks"]
        n = len(notes)
        pp2 = perf.performedparts[0]
        exp_notes = sorted((x["id"], x["midi_pitch"], x["velocity"], ticks[i], ticks[n + i]) for i, x in enumerate(notes))
        got_notes = sorted((str(x["id"]), int(x["midi_pitch"]), int(x["velocity"]),
                            int(round(x["note_on"] * 1e6 * ppq / mpq)), int(round(x["note_off"] * 1e6 * ppq / mpq))) for x in pp2.notes)
        if exp_notes != got_notes:
            d = [(a, b) for a, b in zip(exp_notes, got_notes) if a != b][:2]
            report("performance.notes", {"first_differences": d, "n_expected": len(exp_notes), "n_got": len(got_notes)})
        for x in pp2.notes:
            tk = int(round(x["note_on"] * 1e6 * ppq / mpq))
            if abs(x["note_on"] - tk * mpq / (1e6 * ppq)) > 1e-9:
                report("performance.seconds", {"note": str(x["id"]), "note_on": x["note_on"]})
                break
        exp_c = sorted((ticks[2 * n + i], c["number"], c["value"]) for i, c in enumerate(controls))
        got_c = sorted((int(round(c["time"] * 1e6 * ppq / mpq)), int(c["number"]), int(c["value"])) for c in pp2.controls)
        if exp_c != got_c:
            report("performance.pedals", {"expected": exp_c[:5], "got": got_c[:5]})
        if (getattr(pp2, "ppq", None), getattr(pp2, "mpq", None)) != (ppq, mpq):
            report("performance.clock", {"expected": [ppq, mpq], "got": [getattr(pp2, "ppq", None), getattr(pp2, "mpq", None)]})
        # score
        p2 = sc.parts[0]
        na2 = p2.note_array(include_pitch_spelling=True, include_staff=True)
        rows = sorted(out["rows"], key=lambda r: (r["id"]))
        got = {str(r["id"]): r for r in na2}
        if sorted(got) != [r["id"] for r in rows]:
            report("score.note_ids", {"expected": [r["id"] for r in rows][:8], "got": sorted(got)[:8]})
            continue
        for r in rows:
            g = got[r["id"]]
            eb, ed = r["onset_beat"][0] / r["onset_beat"][1], r["duration_beat"][0] / r["duration_beat"][1]
            if abs(float(g["onset_beat"]) - eb) > 1e-3 or abs(float(g["duration_beat"]) - ed) > 1e-3:
                report("score.beats", {"id": r["id"], "expected": [eb, ed], "got": [float(g["onset_beat"]), float(g["duration_beat"])]})
                break
            if (str(g["step"]), int(g["alter"]), int(g["octave"])) != (r["step"], r["alter"], r["octave"]):
                report("score.spelling", {"id": r["id"], "expected": [r["step"], r["alter"], r["octave"]], "got": [str(g["step"]), int(g["alter"]), int(g["octave"])]})
                break
            if r["voice"] and int(g["voice"]) != r["voice"]:
                report("score.voice", {"id": r["id"], "expected": r["voice"], "got": int(g["voice"])})
                break
            if r["staff"] and int(g["staff"]) != r["staff"]:
                report("score.staff", {"id": r["id"], "expected": r["staff"], "got": int(g["staff"])})
                break
        art1 = {str(n.id): sorted(n.articulations or []) for n in part.notes_tied if n.tie_prev is None}
        art2 = {str(n.id): sorted(a for a in (n.articulations or []) if a in ("staccato", "accent")) for n in p2.notes_tied if n.tie_prev is None}
        bad = [(k, v, art2.get(k)) for k, v in sorted(art1.items()) if art2.get(k) != v]
        if bad:
            report("score.articulations", {"first": bad[:3]})
        gr1 = sorted(str(n.id) for n in part.notes_tied if isinstance(n, score.GraceNote))
        gr2 = sorted(str(n.id) for n in p2.notes_tied if isinstance(n, score.GraceNote))
        if gr1 != gr2:
            report("score.grace_notes", {"expected": gr1, "got": gr2})
        # measures at the same positions (in beats), signatures at the start of their bar
        bm1, bm2 = part.beat_map, p2.beat_map
        m1 = [round(float(bm1(m.start.t)), 3) for m in part.iter_all(score.Measure)]
        m2 = [round(float(bm2(m.start.t)), 3) for m in p2.iter_all(score.Measure)]
        if m1 != m2[:len(m1)] or len(m2) > len(m1) + 1:
            report("score.measures", {"expected_starts_in_beats": m1, "got": m2})
        ts1 = [(round(float(bm1(t.start.t)), 3), t.beats, t.beat_type) for t in part.iter_all(score.TimeSignature)]
        ts2 = [(round(float(bm2(t.start.t)), 3), int(t.beats), int(t.beat_type)) for t in p2.iter_all(score.TimeSignature)]
        if ts1 != ts2:
            report("score.time_signatures", {"expected": ts1, "got": ts2})
        ks1 = [(round(float(bm1(t.start.t)), 3), t.fifths) for t in part.iter_all(score.KeySignature)]
        ks2 = [(round(float(bm2(t.start.t)), 3), int(t.fifths)) for t in p2.iter_all(score.KeySignature)]
        if ks1 != ks2:
            report("score.key_signatures", {"expected": ks1, "got": ks2})
        # second generation: what was loaded is itself a (score part, performed part, alignment) triple
        fn2 = fn + ".2"
        try:
            save_match(al2, pp2, p2, out=fn2, mpq=mpq, ppq=ppq, assume_unfolded=True)
            perf3, al3, sc3 = load_match(fn2, create_score=True)
        except Exception as ex:
            report("second_generation.raises", {"exc": repr(ex)}, exc=type(ex).__name__)
            continue
        if sorted(map(key, al3)) != sorted(map(key, al2)):
            report("second_generation.alignment", {"first": sorted(map(key, al2))[:3], "second": sorted(map(key, al3))[:3]})
        n3 = sorted((str(x["id"]), int(x["midi_pitch"]), int(x["velocity"]), round(x["note_on"], 9), round(x["note_off"], 9)) for x in perf3.performedparts[0].notes)
        n2 = sorted((str(x["id"]), int(x["midi_pitch"]), int(x["velocity"]), round(x["note_on"], 9), round(x["note_off"], 9)) for x in pp2.notes)
        if n2 != n3:
            report("second_generation.performance", {"first_differences": [(a, b) for a, b in zip(n2, n3) if a != b][:2]})
        p3 = sc3.parts[0]
        na3 = p3.note_array(include_pitch_spelling=True, include_staff=True)
        a2 = sorted((str(r["id"]), round(float(r["onset_beat"]), 3), round(float(r["duration_beat"]), 3), str(r["step"]), int(r["alter"]), int(r["octave"]),
                     int(r["voice"]), int(r["staff"])) for r in na2)
        a3 = sorted((str(r["id"]), round(float(r["onset_beat"]), 3), round(float(r["duration_beat"]), 3), str(r["step"]), int(r["alter"]), int(r["octave"]),
                     int(r["voice"]), int(r["staff"])) for r in na3)
        if a2 != a3:
            report("second_generation.score", {"first_differences": [(a, b) for a, b in zip(a2, a3) if a != b][:2], "n": [len(a2), len(a3)]})
    chk.part("save_load", triples=len(outs))
    # ---------------- fixture files load
    files = sorted(glob.glob(os.path.join(common.REPO, "tests", "data", "**", "*.match"), recursive=True))
    import re
    pid_of = lambda x: x if x.startswith("n") else "n" + x
    fcases, fctx = [], {}
    for k, fn in enumerate(files):
        raw = [l for l in open(fn).read().splitlines() if l != ""]
        first, lines = {}, []
        for l in raw:
            m = re.match(r"^snote\(([^,]*),.*\)-note\(([^,]*),", l)
            rec = None
            if m:
                rec = dict(kind="match", sid=m.group(1), pid=pid_of(m.group(2)), tied=False)
            else:
                m = re.match(r"^snote\(([^,]*),.*\)-deletion\.", l)
                if m:
                    rec = dict(kind="deletion", sid=m.group(1), pid="", tied="leftOutTied" in l)
                else:
                    m = re.match(r"^insertion-note\(([^,]*),", l)
                    if m:
                        rec = dict(kind="insertion", sid="", pid=pid_of(m.group(1)), tied=False)
                    else:
                        m = re.match(r"^(?:ornament|trill)\(([^,\)]*).*\)-note\(([^,]*),", l)
                        if m:
                            rec = dict(kind="ornament", sid=m.group(1), pid=pid_of(m.group(2)), tied=False)
            if rec is None:
                continue
            rec["idx"] = 0
            lines.append((l, rec))
        for i, (l, rec) in enumerate(lines):
            rec["tid"] = first.setdefault(l, i + 1)
        if len(lines) > (2500 if chk.tier == "quick" else 100000):
            continue
        fcases.append({"cid": 100000 + k, "kind": "lines", "lines": [rec for _, rec in lines]})
        fctx[100000 + k] = (fn, [rec for _, rec in lines])
    if fcases:
        path = os.path.join(tlc.workdir("c08/fixt"), "cases.json")
        with open(path, "w") as f:
            json.dump(fcases, f)
        r = run_gen(("file", "c08/fixt", {"CASE_FILE": path}))
        chk.add_mc("MatchFileCases.lines (fixture files)", r)
        if r.violated:
            chk.machinery("MatchFile violates its own property %s on a fixture file" % r.violated)
        for j in uniq(r.json_lines()):
            fn, lines = fctx[j["cid"]]
            chk.count(1, validated=1)
            if len(j["out"]["kept"]) < len(lines):
                chk.nontrivial(os.path.basename(fn))
            try:
                perf, al = load_match(fn)[:2]
                gal = [(a["label"], a.get("score_id", ""), a.get("performance_id", "")) for a in al]
                eal = [(a["label"], a["score_id"], a["performance_id"]) for a in j["out"]["alignment"]]
                if gal != eal:
                    d = [(a, b) for a, b in zip(eal, gal) if a != b][:2]
                    chk.violation("s2c", "fixture.alignment_of_file", {"file": os.path.basename(fn), "first_differences": d, "n": [len(eal), len(gal)]},
                                  op="fixture", file=os.path.basename(fn))
                pids = sorted(str(x["id"]) for x in perf.performedparts[0].notes)
                epids = sorted(lines[i - 1]["pid"] for i in j["out"]["kept"] if lines[i - 1]["pid"])
                if pids != epids:
                    chk.violation("s2c", "fixture.performed_notes_of_file", {"file": os.path.basename(fn), "n": [len(epids), len(pids)]},
                                  op="fixture", file=os.path.basename(fn))
            except Exception as ex:
                chk.violation("c2s", "fixture.load_raises", {"file": os.path.basename(fn), "exc": repr(ex)}, op="fixture", file=os.path.basename(fn))
    chk.part("fixtures_through_spec", files=len(fcases))
    if chk.tier == "quick":
        files = files[:10]
    nf = 0
    for fn in files:
        chk.count(1, validated=1)
        nf += 1
        try:
            perf, al = load_match(fn)[:2]
            pids = [str(n["id"]) for pp in perf.performedparts for n in pp.notes]
            if len(pids) != len(set(pids)):
                chk.violation("c2s", "fixture.duplicate_performed_notes", {"file": os.path.basename(fn)}, op="fixture")
            ap = [a["performance_id"] for a in al if a["label"] in ("match", "insertion")]
            if sorted(set(ap)) != sorted(set(p for p in pids if p in set(ap))):
                chk.violation("c2s", "fixture.alignment_refers_to_missing_note", {"file": os.path.basename(fn)}, op="fixture")
        except Exception as ex:
            chk.violation("c2s", "fixture.load_raises", {"file": os.path.basename(fn), "exc": repr(ex)}, op="fixture", file=os.path.basename(fn))
    chk.part("fixtures", files=nf)
    if idcases:
        chk.sample(idcases[len(idcases) // 2])
    chk.assumptions += ["score side: one part, one divisions value, complete final measure; alignment with assume_unfolded=True",
                        "performance ids are of the form n<k> (what partitura's loaders produce); performance times on a 1/16 s grid",
                        "beats compared with tolerance 1e-3 (the file stores four decimals)"]


def entry():
    chk = common.Check("C08")
    try:
        main(chk)
    except tlc.TLCError as ex:
        chk.machinery(str(ex))
    except Exception:
        import traceback
        chk.machinery("exception in check machinery:\n" + traceback.format_exc())
    sys.exit(chk.finish(rule="line sequences (<= 3 lines over 2 score ids x 2 performance ids x 4 kinds) enumerated by TLC, written and loaded; "
                             "seeded random (score part, performed part, partial alignment, ppq/mpq, pedals) triples saved and loaded; "
                             "fixture files; non-trivial = a line is dropped / every triple", exhaustive=False))
