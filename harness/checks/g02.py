"""G02 — growth beyond the listed properties: removing the silence before the first note (Shift.tla).

ShiftCases.tla enumerates parts with up to two notes, up to three pedal controls and a program change, checks
ControlsPreserved, ControlsOrderedFromZero, AtMostOneControlAdded, FirstNoteAtZero, DurationsKept, ProgramsFromZero
and Idempotent on the three-phase machine and prints what the part must look like afterwards; every scenario is
replayed into remove_silence_from_performed_part.  Controls are compared by what is in force at every grid time
(the list itself may differ in redundant entries), notes and programs exactly; in addition the sounding ends under
the sustain pedal must move with the notes (the pedal machine of C14 is time-invariant), and a second call must
change nothing.  PartsStayTogether: two-track MIDI files built from the scenarios are loaded with
load_performance(first_note_at_zero=True); both parts must be shifted by the first note of the performance and the pedal
threshold set in both.

Not a listed property: not registered in MANIFEST.json, prints DEVIATION lines (never VIOLATION), writes growth/G02.json."""
import copy
import json
import os
import sys
import time

from .. import common, tlc

UNIT = 0.25


def in_force(ctrls, u):
    v = -1
    for c in ctrls:
        if c["time"] <= u + 1e-9:
            v = int(c["value"])
    return v


def main():
    common.setup_repo_path()
    import partitura.performance as P
    from partitura.utils.music import remove_silence_from_performed_part
    tier = common.tier()
    t0 = time.time()
    r = tlc.run("ShiftCases", "ShiftCases.%s.cfg" % tier, "g02/mc", workers=4 if tier == "quick" else 8, coverage=True, timeout=7000, heap="6g")
    if r.violated:
        print("MACHINERY-FAILURE growth=G02 Shift.tla violates its own property %s" % r.violated)
        return 2
    cases = r.json_lines()
    r.stdout = ""
    deviations, first = {}, {}

    def dev(clause, case, got, want):
        deviations[clause] = deviations.get(clause, 0) + 1
        first.setdefault(clause, {"case": case, "got": got, "want": want})

    n = 0
    for c in cases:
        n += 1
        start = c["start"]
        notes = [dict(id="n%d" % x["id"], midi_pitch=60 + x["id"], note_on=x["on"] * UNIT, note_off=x["off"] * UNIT, velocity=64, track=0, channel=0)
                 for x in c["notes"]]
        ctrls = [dict(time=x["t"] * UNIT, number=64, value=x["v"], track=0, channel=0) for x in c["ctrls"]]
        progs = [dict(time=t * UNIT, program=5, track=0, channel=0) for t in c["progs"]]
        try:
            pp = P.PerformedPart(notes=notes, controls=ctrls, programs=progs, sustain_pedal_threshold=64)
            sound_before = [x["sound_off"] for x in pp.notes]
            remove_silence_from_performed_part(pp)
        except Exception as ex:
            dev("raises", c, "%s: %s" % (type(ex).__name__, ex), "no exception")
            continue
        got_notes = [[x["id"], round(x["note_on"] / UNIT, 6), round(x["note_off"] / UNIT, 6)] for x in pp.notes]
        want_notes = [["n%d" % x["id"], float(x["on"]), float(x["off"])] for x in c["new_notes"]]
        if got_notes != want_notes:
            dev("notes", c, got_notes, want_notes)
        got_progs = [round(x["time"] / UNIT, 6) for x in pp.programs]
        if got_progs != [float(t) for t in c["new_progs"]]:
            dev("programs", c, got_progs, c["new_progs"])
        got_force = [in_force(pp.controls, u * UNIT) for u in range(len(c["force"]))]
        if got_force != c["force"]:
            silent_before = all(x["t"] > start for x in c["ctrls"]) and len(c["ctrls"]) > 0
            dev("controls_in_force.first_control_after_first_note" if silent_before else "controls_in_force", c,
                {"force": got_force, "controls": [[round(x["time"] / UNIT, 6), int(x["value"])] for x in pp.controls]}, c["force"])
        got_ctrls = [[round(x["time"] / UNIT, 6), int(x["value"])] for x in pp.controls]
        if got_ctrls != [[float(x["t"]), x["v"]] for x in c["new_ctrls"]]:
            dev("controls_exact", c, got_ctrls, c["new_ctrls"])
        times = [x["time"] for x in pp.controls]
        if any(t < 0 for t in times) or times != sorted(times):
            dev("controls_ordered_from_zero", c, times, "ascending, >= 0")
        if len(pp.controls) > len(c["ctrls"]) + 1:
            dev("at_most_one_control_added", c, len(pp.controls), len(c["ctrls"]) + 1)
        # the sounding ends move with the notes
        try:
            pp.sustain_pedal_threshold = 64
            sound_after = [x["sound_off"] for x in pp.notes]
            # a note still sustained when the controls end has no prescribed end (C14): such notes are not compared
            def open_end(x):
                return in_force(ctrls, x["off"] * UNIT) > 64 and not any(k["t"] > x["off"] and k["v"] <= 64 for k in c["ctrls"])
            # a release at the very moment of a control is not ordered by the statement of C14 either (before or after the shift)
            def simultaneous(x):
                return any(k["t"] == x["off"] for k in c["ctrls"]) or any(k["t"] == x["off"] - start for k in c["new_ctrls"])
            keep = [k for k, x in enumerate(c["notes"]) if not open_end(x) and not simultaneous(x)]
            sound_after = [sound_after[k] for k in keep]
            sound_before = [sound_before[k] for k in keep]
            if [round(float(a) / UNIT + start, 6) for a in sound_after] != [round(float(b) / UNIT, 6) for b in sound_before]:
                silent_before = all(x["t"] > start for x in c["ctrls"]) and len(c["ctrls"]) > 0
                dev("sounding_ends_move_with_the_notes" + (".first_control_after_first_note" if silent_before else ""), c,
                    [round(float(a) / UNIT + start, 6) for a in sound_after], [round(float(b) / UNIT, 6) for b in sound_before])
        except Exception as ex:
            dev("raises", c, "%s: %s" % (type(ex).__name__, ex), "no exception")
        # a second removal changes nothing
        try:
            snap = (copy.deepcopy([dict(x) for x in pp.notes]), copy.deepcopy(pp.controls), copy.deepcopy(pp.programs))
            remove_silence_from_performed_part(pp)
            again = ([dict(x) for x in pp.notes], pp.controls, pp.programs)
            same = ([[x["note_on"], x["note_off"]] for x in snap[0]] == [[x["note_on"], x["note_off"]] for x in again[0]]
                    and [in_force(snap[1], u * UNIT) for u in range(len(c["force"]))] == [in_force(again[1], u * UNIT) for u in range(len(c["force"]))]
                    and [x["time"] for x in snap[2]] == [x["time"] for x in again[2]])
            if not same:
                dev("idempotent", c, "changed by a second call", "unchanged")
        except Exception as ex:
            dev("raises", c, "%s: %s" % (type(ex).__name__, ex), "no exception")
    # ---- the parts of one performance stay together (load_performance, first_note_at_zero): a MIDI file with the later
    #      part in track 0 and the scenario's notes in track 1, every fifth scenario whose notes have a positive length
    import mido
    import partitura
    wd = tlc.workdir("g02/midi")
    together = 0
    for ci, c in enumerate(cases):
        if ci % 5 or any(x["off"] <= x["on"] for x in c["notes"]):
            continue
        # (two notes of one pitch must not overlap in a track; the second note gets its own pitch)
        later, own = c["together"]
        src = [[dict(x, on=x["on"] + 1, off=x["off"] + 1) for x in c["notes"]], c["notes"]]
        mf = mido.MidiFile(ticks_per_beat=480)
        for tr, notes in enumerate(src):
            track = mido.MidiTrack()
            mf.tracks.append(track)
            evs = []
            for x in notes:
                evs.append((x["on"] * 240, 1, mido.Message("note_on", note=60 + 12 * tr + x["id"], velocity=64, channel=tr)))
                evs.append((x["off"] * 240, 0, mido.Message("note_off", note=60 + 12 * tr + x["id"], velocity=0, channel=tr)))
            evs.sort(key=lambda e: (e[0], e[1]))
            last = 0
            for t, _, m in evs:
                track.append(m.copy(time=t - last))
                last = t
        f = os.path.join(wd, "two.mid")
        mf.save(f)
        together += 1
        try:
            perf = partitura.load_performance(f, first_note_at_zero=True, pedal_threshold=77)
            got = [sorted([int(x["midi_pitch"]) % 12, round(x["note_on"] / UNIT, 4), round(x["note_off"] / UNIT, 4)] for x in pp.notes) for pp in perf]
            want = [sorted([x["id"], float(x["on"]), float(x["off"])] for x in part) for part in (later, own)]
            if got != want:
                dev("parts_stay_together", c, got, want)
            if any(pp.sustain_pedal_threshold != 77 for pp in perf):
                dev("threshold_set_in_every_part", c, [pp.sustain_pedal_threshold for pp in perf], 77)
        except Exception as ex:
            dev("load_performance_raises", c, "%s: %s" % (type(ex).__name__, str(ex)[:200]), "no exception")
    import shutil
    shutil.rmtree(wd, ignore_errors=True)
    out = os.path.join(common.OUT, "growth")
    os.makedirs(out, exist_ok=True)
    ev = {"growth_id": "G02", "spec": "Shift.tla / ShiftCases.tla", "tier": tier,
          "tlc": [{"distinct_states": r.distinct, "states_generated": r.generated, "depth": r.depth, "wall_s": round(r.wall_s, 1),
                   "actions": {k: list(v) for k, v in r.coverage.items()}}],
          "scenarios_replayed": n, "two_part_midi_files_loaded": together, "deviations": deviations, "first_of_each": first, "wall_s": round(time.time() - t0, 1)}
    with open(os.path.join(out, "G02.json"), "w") as f:
        json.dump(ev, f, indent=1, default=str)
    for k, v in sorted(deviations.items()):
        print("DEVIATION growth=G02 clause=%s count=%d first=%s" % (k, v, json.dumps(first[k], default=str)[:600]))
    print("SUMMARY growth=G02 tier=%s states=%d scenarios=%d deviations=%d wall=%.1fs" % (tier, r.distinct, n, sum(deviations.values()), time.time() - t0))
    return 1 if deviations else 0


def entry():
    try:
        rc = main()
    except tlc.TLCError as ex:
        print("MACHINERY-FAILURE growth=G02 %s" % str(ex)[:1500])
        rc = 2
    except Exception:
        import traceback
        print("MACHINERY-FAILURE growth=G02\n" + traceback.format_exc())
        rc = 2
    sys.exit(rc)
