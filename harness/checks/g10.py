"""G10 — growth beyond the listed properties: the plain alignment files (AlignmentFiles.tla).

AlignmentFilesCases.tla enumerates alignments over a few ids (one not starting with "n", one longer than twenty
characters), checks OneRowPerEntry, RowsNumbered, ReadBackIsPrefix and RoundTrip on the write / read machine and prints
the rows of both formats; every alignment is written with save_parangonada_alignment and save_alignment_for_ASAP, the
files are tokenised independently and compared with the specified rows, and read back with load_parangonada_alignment
and load_alignment_from_ASAP, which must return the alignment; every seventh alignment also goes through the whole
parangonada directory (save_parangonada_csv / load_parangonada_csv: both alignments, the performed notes, the score ids).  The rows of a Nakamura corresp file (a read-only
format here) are serialised mechanically from the specification and read with load_nakamuracorresp.

Not a listed property: not registered in MANIFEST.json, prints DEVIATION lines (never VIOLATION), writes growth/G10.json."""
import json
import os
import sys
import time

from .. import common, tlc


def norm(al):
    out = []
    for e in al:
        d = {"label": str(e["label"])}
        if "score_id" in e:
            d["sid"] = str(e["score_id"])
        if "performance_id" in e:
            d["pid"] = str(e["performance_id"])
        out.append(d)
    return out


def main():
    common.setup_repo_path()
    import partitura.performance as P
    from partitura.io.exportparangonada import save_parangonada_alignment, save_alignment_for_ASAP, save_parangonada_csv
    from partitura.io.importparangonada import load_parangonada_alignment, load_alignment_from_ASAP, load_parangonada_csv
    import partitura.score as S
    from partitura.io.importnakamura import load_nakamuracorresp, load_nakamuramatch
    tier = common.tier()
    t0 = time.time()
    r = tlc.run("AlignmentFilesCases", "AlignmentFilesCases.%s.cfg" % tier, "g10/mc", workers=8, coverage=True, timeout=7000, heap="4g")
    if r.violated:
        print("MACHINERY-FAILURE growth=G10 AlignmentFiles.tla violates its own property %s" % r.violated)
        return 2
    cases = {json.dumps(j["al"]): j for j in r.json_lines()}
    r.stdout = ""
    pp = P.PerformedPart(notes=[dict(id="p1", midi_pitch=60, note_on=0.5, note_off=1.0, velocity=64, track=0, channel=0),
                                dict(id="p2", midi_pitch=62, note_on=1.5, note_off=2.0, velocity=64, track=1, channel=2)])
    wd = tlc.workdir("g10/files")
    # a small score for the parangonada directory (ids as in the alignments)
    spart = S.Part("P1")
    spart.set_quarter_duration(0, 2)
    spart.add(S.TimeSignature(4, 4), 0)
    for k, sid in enumerate(["n1", "n12", "d1e45", "P01_n123456789-1-tied-2"]):
        spart.add(S.Note(step="CDEF"[k], octave=4, voice=1, staff=1, id=sid), 2 * k, 2 * k + 2)
    prev_al = None
    deviations, first = {}, {}

    def dev(clause, case, got, want):
        deviations[clause] = deviations.get(clause, 0) + 1
        first.setdefault(clause, {"case": case, "got": got, "want": want})

    n = 0
    for c in cases.values():
        n += 1
        al = [dict(label=e["label"], **({"score_id": e["sid"]} if "sid" in e else {}), **({"performance_id": e["pid"]} if "pid" in e else {}))
              for e in c["al"]]
        long_id = any(len(e.get("sid", "")) > 20 for e in c["al"])
        other_id = any(not e.get("sid", "n").startswith("n") for e in c["al"])
        # ---- parangonada
        f = os.path.join(wd, "align.csv")
        try:
            save_parangonada_alignment([dict(e) for e in al], f)
            lines = open(f).read().splitlines()
            rows = [[int(x[0]), int(x[1]), x[2], x[3]] for x in (ln.split(",") for ln in lines[1:])]
            if lines[0] != "idx,matchtype,partid,ppartid" or rows != c["prows"]:
                dev("parangonada.rows" + (".id_longer_than_20" if long_id else ""), c["al"], rows, c["prows"])
            back = norm(load_parangonada_alignment(f))
            if back != c["al"]:
                dev("parangonada.read_back" + (".id_longer_than_20" if long_id else ""), c["al"], back, c["al"])
        except Exception as ex:
            dev("parangonada.raises", c["al"], "%s: %s" % (type(ex).__name__, str(ex)[:200]), "no exception")
        # ---- the parangonada directory (every seventh alignment): align.csv, zalign.csv, ppart.csv, part.csv, feature.csv
        if n % 7 == 0:
            d = os.path.join(wd, "dir")
            os.makedirs(d, exist_ok=True)
            z = prev_al if (n % 14 == 0 and prev_al) else None
            try:
                save_parangonada_csv([dict(e) for e in al], pp, spart, outdir=d, zalign=[dict(e) for e in z] if z else None)
                perf, al_back, zal_back, feat, sna = load_parangonada_csv(d, create_score=True)
                if norm(al_back) != c["al"]:
                    dev("directory.align", c["al"], norm(al_back), c["al"])
                if norm(zal_back) != (norm(z) if z else c["al"]):
                    dev("directory.zalign", c["al"], norm(zal_back), norm(z) if z else c["al"])
                got_notes = [[str(x["id"]), int(x["midi_pitch"]), round(float(x["note_on"]), 4), round(float(x["note_off"]), 4), int(x["track"]), int(x["channel"]), int(x["velocity"])]
                             for x in perf[0].notes]
                want_notes = [[str(x["id"]), int(x["midi_pitch"]), round(float(x["note_on"]), 4), round(float(x["note_off"]), 4), int(x["track"]), int(x["channel"]), int(x["velocity"])]
                              for x in pp.notes]
                if got_notes != want_notes:
                    dev("directory.performed_notes", c["al"], got_notes, want_notes)
                if [str(x) for x in sna["id"]] != [str(x) for x in spart.note_array()["id"]] or [str(x) for x in feat["id"]] != [str(x) for x in spart.note_array()["id"]]:
                    dev("directory.score_ids", c["al"], [list(map(str, sna["id"])), list(map(str, feat["id"]))], list(map(str, spart.note_array()["id"])))
            except Exception as ex:
                dev("directory.raises", c["al"], "%s: %s" % (type(ex).__name__, str(ex)[:200]), "no exception")
        prev_al = al
        # ---- ASAP
        f = os.path.join(wd, "align.tsv")
        try:
            save_alignment_for_ASAP([dict(e) for e in al], pp, f)
            lines = open(f).read().splitlines()
            rows = [ln.split("\t")[:2] for ln in lines[1:]]
            if lines[0].split("\t")[:2] != ["xml_id", "midi_id"] or rows != c["arows"]:
                dev("asap.rows", c["al"], rows, c["arows"])
            # the performed note's track, channel, pitch and onset follow the two ids of matches and insertions
            notes = {str(x["id"]): x for x in pp.notes}
            for ln, e in zip(lines[1:], c["al"]):
                if "pid" in e:
                    x = notes[e["pid"]]
                    if ln.split("\t")[2:] != [str(x["track"]), str(x["channel"]), str(x["midi_pitch"]), str(x["note_on"])]:
                        dev("asap.note_columns", c["al"], ln, [x["track"], x["channel"], x["midi_pitch"], x["note_on"]])
            back = norm(load_alignment_from_ASAP(f))
            if back != c["al"]:
                dev("asap.read_back" + (".score_id_not_starting_with_n" if other_id else ""), c["al"], back, c["al"])
        except Exception as ex:
            dev("asap.raises", c["al"], "%s: %s" % (type(ex).__name__, str(ex)[:200]), "no exception")
        # ---- Nakamura corresp (read only): the rows of the specification are serialised mechanically
        f = os.path.join(wd, "corresp.txt")
        try:
            with open(f, "w") as fh:
                fh.write("// alignID alignOntime alignSitch alignPitch alignOnvel refID refOntime refSitch refPitch refOnvel\n")
                for j, (a, b) in enumerate(c["crows"]):
                    left = "%s\t%.3f\tC4\t60\t64" % (a, 0.5 * j) if a != "*" else "*\t-1\t*\t-1\t-1"
                    right = "%s\t%.3f\tC4\t60\t64" % (b, 1.0 * j) if b != "*" else "*\t-1\t*\t-1\t-1"
                    fh.write(left + "\t" + right + "\n")
            perf, ref, back = load_nakamuracorresp(f)
            if norm(back) != c["al"]:
                dev("corresp.read_back", c["al"], norm(back), c["al"])
            if sorted(str(x) for x in perf["id"]) != sorted(e["pid"] for e in c["al"] if "pid" in e) or \
               sorted(str(x) for x in ref["id"]) != sorted(e["sid"] for e in c["al"] if "sid" in e):
                dev("corresp.note_arrays", c["al"], [list(map(str, perf["id"])), list(map(str, ref["id"]))], "performed ids / score ids of the alignment")
        except Exception as ex:
            dev("corresp.raises" + (".single_row" if len(c["al"]) == 1 else ""), c["al"], "%s: %s" % (type(ex).__name__, str(ex)[:200]), "no exception")
        # ---- Nakamura match (read only): rows for matches and insertions, "//Missing" lines for deletions
        f = os.path.join(wd, "match.txt")
        try:
            with open(f, "w") as fh:
                fh.write("//Version: PianoRoll_v170503\n// Score: x\n")
                t = 0
                for e in c["al"]:
                    if e["label"] == "deletion":
                        continue
                    sid = e["sid"] if e["label"] == "match" else "*"
                    fh.write("%s\t%.3f\t%.3f\tC4\t64\t64\t0\t0\t%d\t%s\t0\t-\n" % (e["pid"], 0.5 * t, 0.5 * t + 0.4, 240 * t, sid))
                    t += 1
                for e in c["al"]:
                    if e["label"] == "deletion":
                        fh.write("//Missing %d\t%s\n" % (240 * t, e["sid"]))
                        t += 1
            if any(e["label"] != "deletion" for e in c["al"]):
                perf, ref, back = load_nakamuramatch(f)
                if norm(back) != c["nback"]:
                    dev("nakamura_match.read_back", c["al"], norm(back), c["nback"])
                if sorted(str(x) for x in perf["id"]) != sorted(e["pid"] for e in c["al"] if "pid" in e) or \
                   sorted(str(x) for x in ref["id"]) != sorted(e["sid"] for e in c["al"] if "sid" in e):
                    dev("nakamura_match.note_arrays", c["al"], [list(map(str, perf["id"])), list(map(str, ref["id"]))], "performed ids / score ids of the alignment")
        except Exception as ex:
            dev("nakamura_match.raises", c["al"], "%s: %s" % (type(ex).__name__, str(ex)[:200]), "no exception")
    import shutil
    shutil.rmtree(wd, ignore_errors=True)
    out = os.path.join(common.OUT, "growth")
    os.makedirs(out, exist_ok=True)
    ev = {"growth_id": "G10", "spec": "AlignmentFiles.tla / AlignmentFilesCases.tla", "tier": tier,
          "tlc": [{"distinct_states": r.distinct, "states_generated": r.generated, "depth": r.depth, "wall_s": round(r.wall_s, 1),
                   "actions": {k: list(v) for k, v in r.coverage.items()}}],
          "alignments_replayed": n, "deviations": deviations, "first_of_each": first, "wall_s": round(time.time() - t0, 1)}
    with open(os.path.join(out, "G10.json"), "w") as f:
        json.dump(ev, f, indent=1, default=str)
    for k, v in sorted(deviations.items()):
        print("DEVIATION growth=G10 clause=%s count=%d first=%s" % (k, v, json.dumps(first[k], default=str)[:700]))
    print("SUMMARY growth=G10 tier=%s states=%d alignments=%d deviations=%d wall=%.1fs" % (tier, r.distinct, n, sum(deviations.values()), time.time() - t0))
    return 1 if deviations else 0


def entry():
    try:
        rc = main()
    except tlc.TLCError as ex:
        print("MACHINERY-FAILURE growth=G10 %s" % str(ex)[:1500])
        rc = 2
    except Exception:
        import traceback
        print("MACHINERY-FAILURE growth=G10\n" + traceback.format_exc())
        rc = 2
    sys.exit(rc)
