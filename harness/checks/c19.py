"""C19 — MEI and Humdrum kern files load to the notes their notation denotes.

KernStream.tla and MeiLayer.tla are interpreters of the two representations written from their own
rules (one action per line / element kind); the harness generates documents of the supported subset
from abstract lines, serialises them to text, and TLC interprets the same abstract lines: sounding
notes with ties joined (exact rationals in quarters), rests, barlines, interpretations, the least
divisions, and the representation's rules.  load_kern / load_mei / load_score results are compared
with TLC's denotation; parts are exported with save_kern / save_mei and loaded again."""
import concurrent.futures
import json
import os
import random
import re
import sys
from fractions import Fraction

from .. import common, gen_kern, gen_mei, gen_score, tlc
from .c12 import uniq
from .c03 import ties_expressible

SIGN_NAME = {0: "G", 1: "F", 2: "C"}


def fr(p):
    return Fraction(p[0], p[1])


def run_trace(args):
    module, tag, path = args
    return tlc.run(module, module + ".cfg", tag, workers=1, env={"CASE_FILE": path}, timeout=3000, heap="3g", expect_violation=True)


def exact(div_value, divs, q):
    """a position/duration in divisions equals the rational number of quarters q exactly"""
    return Fraction(int(div_value), int(divs)) == q


def main(chk):
    common.setup_repo_path()
    import partitura
    import partitura.score as score
    rng = random.Random(chk.seed)
    wd = tlc.workdir("c19/files")
    # ================= the two machines themselves, model checked
    for module, what in (("KernStreamMC", "every kern document of the bounded alphabet"), ("MeiLayerMC", "every MEI document of the bounded alphabet")):
        r = tlc.run(module, "%s.%s.cfg" % (module, chk.tier), "c19/mc", workers=16, timeout=3000, expect_violation=True, heap="6g")
        chk.add_mc("%s (%s)" % (module, what), r)
        if r.violated:
            chk.machinery("%s violates its own invariant %s\n%s" % (module, r.violated, r.error_trace[:1500]))
            return
    # ================= kern
    ndoc = 120 if chk.tier == "quick" else 2500
    docs, ctx = [], {}
    for cid in range(1, ndoc + 1):
        level = rng.choice([0, 1, 2])
        d, text, meta = gen_kern.make_doc(rng, chords=level >= 1, ties="notes" if level < 2 else "chords", grace=level >= 1,
                                          meter_change=level >= 1, pickup=level >= 1, same_part=level >= 1 and rng.random() < 0.25,
                                          splits=level >= 1 and rng.random() < 0.4)
        d["cid"] = cid
        docs.append(d)
        ctx[cid] = (text, meta, level)
    nshards = 8
    jobs = []
    for k in range(nshards):
        if not docs[k::nshards]:
            continue
        path = os.path.join(tlc.workdir("c19/kern%d" % k), "cases.json")
        with open(path, "w") as f:
            json.dump(docs[k::nshards], f, default=str)
        jobs.append(("KernTrace", "c19/kern%d" % k, path))
    with concurrent.futures.ThreadPoolExecutor(nshards) as ex:
        results = list(ex.map(run_trace, jobs))
    den = {}
    for r in results:
        chk.add_mc("KernTrace (generated documents)", r)
        if r.violated:
            chk.machinery("KernStream: invariant %s violated on a generated document\n%s" % (r.violated, r.error_trace[:1500]))
            return
        for j in uniq(r.json_lines()):
            den[j["cid"]] = j
    feats = {"spine_split": 0, "same_part": 0, "pickup": 0, "meter_change": 0, "grace": 0, "ties": 0, "chords": 0, "triplets": 0}
    for cid in range(1, ndoc + 1):
        text, meta, level = ctx[cid]
        out = den.get(cid)
        chk.count(1, validated=1)
        if out is None:
            chk.machinery("no denotation for kern document %d" % cid)
            continue
        if out["bad"] or not out["aligned"]:
            chk.machinery("generated kern document %d breaks a rule of the representation: %s" % (cid, out["bad"]))
            continue
        chk.nontrivial(("kern", cid))
        feats["pickup"] += meta["pickup"]
        feats["same_part"] += meta["same_part"]
        feats["spine_split"] += meta["split"]
        feats["meter_change"] += meta["meter_change"]
        feats["grace"] += any(s["grace"] for s in out["sounding"])
        feats["chords"] += " " in text.replace("\t", "|").split("=")[0] or any(" " in ln for ln in text.split("\n"))
        feats["ties"] += any(n["tie"] for ln in docs[cid - 1]["lines"] if ln["kind"] == "data" for t in ln["toks"] for n in t["notes"])
        feats["triplets"] += bool(re.search(r"\b(12|6|24)[A-Ga-gr]", text))
        fn = os.path.join(wd, "doc_%d.krn" % (cid % 40))
        with open(fn, "w") as f:
            f.write(text)
        chord_tie = any(("[" in tok or "]" in tok or "_" in tok) and " " in tok for ln in text.split("\n") for tok in ln.split("\t"))

        def report(clause, detail, **attrs):
            chk.violation("s2c", "kern." + clause, dict(cid=cid, **detail), replay={"kern": text}, op="kern", tie_on_a_chord=chord_tie, spine_split=meta["split"], **attrs)
        try:
            sc = partitura.load_score(fn) if cid % 2 else partitura.load_kern(fn)
        except Exception as ex:
            report("load_raises", {"exc": repr(ex)}, exc=type(ex).__name__)
            continue
        nsp = meta["nspines"]
        parts = {p.id: p for p in sc.parts}
        if meta["same_part"]:
            # spines declared as one part (*part1): one part whose staves are the spines
            if sorted(parts) != ["P0"]:
                report("parts", {"expected": ["P0"], "got": sorted(parts), "same_part": True})
                continue
            p = parts["P0"]
            divs = int(p.quarter_durations()[0][1])
            exp = sorted((fr(s["on"]), fr(s["dur"]), s["step"], s["alter"], s["octave"], s["grace"], meta["staffs"][s["spine"] - 1]) for s in out["sounding"])
            got = sorted((Fraction(n.start.t, divs), Fraction(n.duration_tied, divs), n.step, n.alter or 0, n.octave, 1 if isinstance(n, score.GraceNote) else 0, n.staff)
                         for n in p.notes_tied if n.tie_prev is None)
            if exp != got:
                report("notes", {"same_part": True, "missing": [tuple(map(str, x)) for x in exp if x not in got][:3],
                                 "unexpected": [tuple(map(str, x)) for x in got if x not in exp][:3], "n": [len(exp), len(got)], "divs": divs})
            elif any(divs % d for d in out["dens"]):
                report("divisions.not_exact", {"divs": divs, "denominators": out["dens"]})
            bars = [fr(b["at"]) for b in out["bars"]]
            exp_m = sorted(set(bars) | ({Fraction(0)} if bars and bars[0] > 0 else set()))
            got_m = sorted(Fraction(m.start.t, divs) for m in p.iter_all(score.Measure))
            if exp_m != got_m:
                report("measure_starts", {"same_part": True, "expected": list(map(str, exp_m)), "got": list(map(str, got_m))})
            continue
        if sorted(parts) != ["P%d" % j for j in range(nsp)]:
            report("parts", {"expected": ["P%d" % j for j in range(nsp)], "got": sorted(parts)})
            continue
        for j in range(nsp):
            p = parts["P%d" % j]
            qd = p.quarter_durations()
            if len(qd) != 1:
                report("divisions.changing", {"qtab": qd.tolist()})
                continue
            divs = int(qd[0][1])
            exp = sorted((fr(s["on"]), fr(s["dur"]), s["step"], s["alter"], s["octave"], s["grace"]) for s in out["sounding"] if s["spine"] == j + 1)
            got_notes = [n for n in p.notes_tied if n.tie_prev is None]
            got = sorted((Fraction(n.start.t, divs), Fraction(n.duration_tied, divs), n.step, n.alter or 0, n.octave, 1 if isinstance(n, score.GraceNote) else 0)
                         for n in got_notes)
            if exp != got:
                miss = [x for x in exp if x not in got][:3]
                extra = [x for x in got if x not in exp][:3]
                report("notes", {"spine": j + 1, "missing": [tuple(map(str, x)) for x in miss], "unexpected": [tuple(map(str, x)) for x in extra],
                                 "n": [len(exp), len(got)], "divs": divs})
                continue
            need = max([1] + [x for x in out["dens"]])
            if any(divs % d for d in out["dens"]):
                report("divisions.not_exact", {"divs": divs, "denominators": out["dens"]})
            exp_r = sorted((fr(s["on"]), fr(s["dur"])) for s in out["rests"] if s["spine"] == j + 1)
            got_r = sorted((Fraction(r.start.t, divs), Fraction(r.duration, divs)) for r in p.iter_all(score.Rest))
            if exp_r != got_r:
                report("rests", {"spine": j + 1, "expected": [tuple(map(str, x)) for x in exp_r[:4]], "got": [tuple(map(str, x)) for x in got_r[:4]]})
            if any(n.staff != meta["staffs"][j] for n in p.notes_tied):
                report("staff", {"spine": j + 1, "expected": meta["staffs"][j], "got": sorted(set(n.staff for n in p.notes_tied))})
            # measures start at the encoded barlines (and a pickup measure before the first one)
            bars = [fr(b["at"]) for b in out["bars"]]
            exp_m = sorted(set(bars) | ({Fraction(0)} if bars and bars[0] > 0 else set()))
            got_m = sorted(Fraction(m.start.t, divs) for m in p.iter_all(score.Measure))
            if exp_m != got_m:
                report("measure_starts", {"spine": j + 1, "expected": list(map(str, exp_m)), "got": list(map(str, got_m))})
            for kind, cls, f in (("meter", score.TimeSignature, lambda o: (o.beats, o.beat_type)), ("key", score.KeySignature, lambda o: (o.fifths,)),
                                 ("clef", score.Clef, lambda o: (o.sign, o.line))):
                exp_a = sorted((fr(a["at"]),) + ((a["a"], a["b"]) if kind == "meter" else (a["a"],) if kind == "key" else (SIGN_NAME[a["a"]], a["b"]))
                               for a in out["attrs"] if a["kind"] == kind and a["spine"] == j + 1)
                got_a = sorted((Fraction(o.start.t, divs),) + f(o) for o in p.iter_all(cls))
                if exp_a != got_a:
                    report(kind, {"spine": j + 1, "expected": [tuple(map(str, x)) for x in exp_a], "got": [tuple(map(str, x)) for x in got_a]})
    chk.part("kern_documents", n=ndoc, **feats)
    if docs and 1 in den:
        chk.sample({"kern_document": ctx[1][0].split("\n")[:12], "denoted_notes": den[1]["sounding"][:3], "barlines": den[1]["bars"][:3]})
    # ================= MEI
    mdocs, mctx = [], {}
    for cid in range(1, ndoc + 1):
        level = rng.choice([0, 1, 2])
        d, text, meta = gen_mei.make_doc(rng, chords=level >= 1, ties=rng.choice(["attr", "elements"]) if level >= 1 else "", grace=level >= 2,
                                         tuplets=level >= 1, meter_change=level >= 1, mrest=level >= 1, repeats=level >= 1)
        d["cid"] = cid
        mdocs.append(d)
        mctx[cid] = (text, meta, level)
    jobs = []
    for k in range(nshards):
        if not mdocs[k::nshards]:
            continue
        path = os.path.join(tlc.workdir("c19/mei%d" % k), "cases.json")
        with open(path, "w") as f:
            json.dump(mdocs[k::nshards], f)
        jobs.append(("MeiTrace", "c19/mei%d" % k, path))
    with concurrent.futures.ThreadPoolExecutor(nshards) as ex:
        results = list(ex.map(run_trace, jobs))
    den = {}
    for r in results:
        chk.add_mc("MeiTrace (generated documents)", r)
        if r.violated:
            chk.machinery("MeiLayer: invariant %s violated on a generated document\n%s" % (r.violated, r.error_trace[:1500]))
            return
        for j in uniq(r.json_lines()):
            den[j["cid"]] = j
    mfeats = {"repeat": 0, "ending": 0, "meter_change": 0, "grace": 0, "ties": 0, "chords": 0, "tuplets": 0, "mrest": 0, "attributes_as_children": 0, "double_dots": 0}
    for cid in range(1, ndoc + 1):
        text, meta, level = mctx[cid]
        out = den.get(cid)
        chk.count(1, validated=1)
        if out is None:
            chk.machinery("no denotation for MEI document %d" % cid)
            continue
        if out["bad"] or not out["ties_ok"]:
            chk.machinery("generated MEI document %d breaks a rule of the encoding: %s" % (cid, out["bad"]))
            continue
        chk.nontrivial(("mei", cid))
        mfeats["meter_change"] += meta["meter_change"]
        mfeats["repeat"] += meta["repeat"]
        mfeats["ending"] += meta["ending"]
        mfeats["attributes_as_children"] += meta["as_children"]
        mfeats["grace"] += "grace=" in text
        mfeats["ties"] += "tie" in text
        mfeats["chords"] += "<chord" in text
        mfeats["tuplets"] += "<tuplet" in text
        mfeats["mrest"] += "<mRest" in text
        mfeats["double_dots"] += 'dots="2"' in text
        fn = os.path.join(wd, "doc_%d.mei" % (cid % 40))
        with open(fn, "w") as f:
            f.write(text)

        def report(clause, detail, **attrs):
            chk.violation("s2c", "mei." + clause, dict(cid=cid, **detail), replay={"mei": text}, op="mei", **attrs)
        try:
            sc = partitura.load_score(fn) if cid % 2 else partitura.load_mei(fn)
        except Exception as ex:
            report("load_raises", {"exc": repr(ex)}, exc=type(ex).__name__)
            continue
        if len(sc.parts) != meta["nstaves"]:
            report("parts", {"expected": meta["nstaves"], "got": len(sc.parts)})
            continue
        got_notes, got_rests, divs_all = {}, [], []
        ok = True
        for p in sc.parts:
            qd = p.quarter_durations()
            if len(qd) != 1 or float(qd[0][1]) != int(qd[0][1]):
                report("divisions.not_integral", {"qtab": qd.tolist()})
                ok = False
                break
            divs = int(qd[0][1])
            divs_all.append(divs)
            for n in p.notes_tied:
                if n.tie_prev is None:
                    got_notes[n.id] = (n.staff, n.voice, Fraction(n.start.t, divs), Fraction(n.duration_tied, divs), n.step, n.alter or 0, n.octave,
                                       1 if isinstance(n, score.GraceNote) else 0)
            got_rests += [(r.staff, Fraction(r.start.t, divs), Fraction(r.duration, divs)) for r in p.iter_all(score.Rest)]
        if not ok:
            continue
        exp_notes = {s["id"]: (s["staff"], s["layer"], fr(s["on"]), fr(s["dur"]), s["step"], s["alter"], s["octave"], s["grace"]) for s in out["sounding"]}
        if exp_notes != got_notes:
            bad = [(k, tuple(map(str, exp_notes.get(k, ()))), tuple(map(str, got_notes.get(k, ())))) for k in sorted(set(exp_notes) | set(got_notes))
                   if exp_notes.get(k) != got_notes.get(k)][:3]
            report("notes", {"first_differences": bad, "n": [len(exp_notes), len(got_notes)], "divs": divs_all})
            continue
        if any(dv % d for dv in divs_all for d in out["dens"]):
            report("divisions.not_exact", {"divs": divs_all, "denominators": out["dens"]})
        exp_r = sorted((s["staff"], fr(s["on"]), fr(s["dur"])) for s in out["rests"])
        if exp_r != sorted(got_rests):
            report("rests", {"expected": [tuple(map(str, x)) for x in exp_r[:4]], "got": [tuple(map(str, x)) for x in sorted(got_rests)[:4]]})
        exp_m = sorted((fr(m["start"]), fr(m["end"])) for m in out["measures"])
        for p, divs in zip(sc.parts, divs_all):
            got_m = sorted((Fraction(m.start.t, divs), Fraction(m.end.t, divs)) for m in p.iter_all(score.Measure))
            if got_m != exp_m:
                report("measures", {"part": p.id, "expected": [tuple(map(str, x)) for x in exp_m], "got": [tuple(map(str, x)) for x in got_m]})
                break
            exp_rep = sorted((fr(r["from"]), fr(r["to"])) for r in out["repeats"])
            got_rep = sorted((Fraction(r.start.t, divs), Fraction(r.end.t, divs)) for r in p.iter_all(score.Repeat))
            if exp_rep != got_rep:
                report("repeats", {"part": p.id, "expected": [tuple(map(str, x)) for x in exp_rep], "got": [tuple(map(str, x)) for x in got_rep]})
            exp_end = sorted((str(e["n"]), fr(e["from"]), fr(e["to"])) for e in out["endings"])
            got_end = sorted((str(e.number), Fraction(e.start.t, divs), Fraction(e.end.t, divs)) for e in p.iter_all(score.Ending))
            if exp_end != got_end:
                report("endings", {"part": p.id, "expected": [tuple(map(str, x)) for x in exp_end], "got": [tuple(map(str, x)) for x in got_end]})
            staff_n = sorted(set(n.staff for n in p.notes_tied) | set(r.staff for r in p.iter_all(score.Rest)))
            if len(staff_n) != 1:
                continue
            sd = [d for d in out["defs"] if d["kind"] == "staffdef" and d["n"] == staff_n[0]]
            exp_ts = sorted([(fr(d["at"]), d["count"], d["unit"]) for d in sd] + [(fr(d["at"]), d["count"], d["unit"]) for d in out["defs"] if d["kind"] == "meter"])
            got_ts = sorted((Fraction(t.start.t, divs), t.beats, t.beat_type) for t in p.iter_all(score.TimeSignature))
            if exp_ts != got_ts:
                report("meter", {"part": p.id, "expected": [tuple(map(str, x)) for x in exp_ts], "got": [tuple(map(str, x)) for x in got_ts]})
            exp_ks = sorted((fr(d["at"]), d["sig"]) for d in sd)
            got_ks = sorted((Fraction(t.start.t, divs), t.fifths) for t in p.iter_all(score.KeySignature))
            if exp_ks != got_ks:
                report("key", {"part": p.id, "expected": [tuple(map(str, x)) for x in exp_ks], "got": [tuple(map(str, x)) for x in got_ks]})
            exp_cl = sorted((fr(d["at"]), d["shape"], d["line"]) for d in sd)
            got_cl = sorted((Fraction(t.start.t, divs), t.sign, t.line) for t in p.iter_all(score.Clef))
            if exp_cl != got_cl:
                report("clef", {"part": p.id, "expected": [tuple(map(str, x)) for x in exp_cl], "got": [tuple(map(str, x)) for x in got_cl]})
    chk.part("mei_documents", n=ndoc, **mfeats)
    if mdocs and 1 in den:
        chk.sample({"mei_events": mdocs[0]["events"][:6], "denoted_notes": den[1]["sounding"][:3], "measures": den[1]["measures"][:3]})
    # ================= export then import
    from partitura.io.exportkern import save_kern
    from partitura.io.exportmei import save_mei
    from partitura.utils.music import estimate_symbolic_duration

    def table(p):
        return sorted((round(float(r["onset_quarter"]), 5), round(float(r["duration_quarter"]), 5), str(r["step"]), int(r["alter"]), int(r["octave"]), int(r["staff"]))
                      for r in p.note_array(include_pitch_spelling=True, include_staff=True))
    nexp = 60 if chk.tier == "quick" else 1200
    stats = {"kern": 0, "mei": 0}
    wdocs, wctx = [], {}
    mwdocs, mwctx = [], {}
    for k in range(nexp):
        fmt = "kern" if k % 2 == 0 else "mei"
        while True:
            part = gen_score.make_part(score, rng, pid="P1", divs=rng.choice([1, 2, 4, 6, 12]), n_measures=rng.randint(1, 3),
                                       voices=rng.choice([1, 2]), staves=rng.choice([1, 2]), pickup=False, ts_change=False, slurs=False, grace=False,
                                       ties=rng.random() < 0.5, chords=rng.random() < 0.5, max_notes=10 ** 6, rests=rng.random() < 0.5)
            # every written duration is a single note value (the writers have no other way to write it), and ties are
            # expressible by pitch (@tie in MEI and the tie marks of kern pair by pitch, like MusicXML: see C03)
            if all((estimate_symbolic_duration(n.duration, int(part.quarter_duration_map(n.start.t))) or {}).get("type")
                   for n in list(part.notes_tied) + list(part.rests)) and ties_expressible(score, part):
                break
        # a voice need not be filled with rests: in one case out of six the rests inside the second voice are taken out
        gaps = False
        if k % 6 in (2, 3):
            rs = sorted((r for r in part.iter_all(score.Rest) if (r.voice or 1) == 2), key=lambda r: r.start.t)
            inner = [r for r in rs if any(n.voice == 2 and n.start.t < r.start.t for n in part.notes_tied) and any(n.voice == 2 and n.start.t >= r.end.t for n in part.notes_tied)]
            for r in inner:
                part.remove(r)
            gaps = bool(inner)
        t0 = table(part)
        chk.count(1, validated=1)
        stats[fmt] += 1
        fn = os.path.join(wd, "exp_%d.%s" % (k % 20, "krn" if fmt == "kern" else "mei"))
        chord_tie = any((n.tie_next is not None or n.tie_prev is not None) and
                        sum(1 for m in part.notes_tied if m.start.t == n.start.t and m.voice == n.voice and m.staff == n.staff) > 1 for n in part.notes_tied)

        def report(clause, detail, **attrs):
            written = open(fn).read() if os.path.exists(fn) else ""
            in_file = fmt == "kern" and any(" " in tok and re.search(r"[\[\]_]", tok) for ln in written.split("\n") if not ln.startswith(("*", "!", "=")) for tok in ln.split("\t"))
            chk.violation("c2s", "export_%s.%s" % (fmt, clause), dict(case=k, **detail), replay={"file": written},
                          op="export_" + fmt, tie_on_a_chord=bool(chord_tie or in_file), voice_with_inner_gaps=gaps, **attrs)
        try:
            (save_kern if fmt == "kern" else save_mei)(part, fn)
            if fmt == "kern":
                # the written file, read with an independent tokeniser, as a trace of the kern machine
                d = gen_kern.parse_text(open(fn).read())
                d["cid"] = k
                unparsed = [n["unparsed"] for ln in d["lines"] if ln["kind"] == "data" for t in ln["toks"] for n in t["notes"] if "unparsed" in n]
                if unparsed:
                    report("written_file.token_not_readable", {"tokens": unparsed[:4]})
                else:
                    wdocs.append(d)
                    wctx[k] = (t0, open(fn).read(), chord_tie, gaps)
            else:
                d = gen_mei.parse_text(open(fn, "rb").read())
                d["cid"] = k
                mwdocs.append(d)
                mwctx[k] = (t0, open(fn).read(), gaps)
            sc2 = partitura.load_score(fn)
            t1 = sorted(x for p in sc2.parts for x in table(p))
        except Exception as ex:
            report("raises", {"exc": repr(ex)}, exc=type(ex).__name__)
            continue
        if t0 != t1:
            report("notes", {"missing": [x for x in t0 if x not in t1][:3], "unexpected": [x for x in t1 if x not in t0][:3], "n": [len(t0), len(t1)]})
    if wdocs:
        path = os.path.join(tlc.workdir("c19/written"), "cases.json")
        with open(path, "w") as f:
            json.dump(wdocs, f)
        r = run_trace(("KernTrace", "c19/written", path))
        chk.add_mc("KernTrace (files written by save_kern)", r)
        if r.violated:
            chk.violation("c2s", "export_kern.written_file.invariant:" + str(r.violated), {"trace": r.error_trace[:1200]}, op="export_kern")
        got = {j["cid"]: j for j in uniq(r.json_lines())}
        for k2, (t0, written, chord_tie, gaps2) in sorted(wctx.items()):
            chk.count(1, validated=1)
            j = got.get(k2)
            if j is None:
                chk.violation("c2s", "export_kern.written_file.not_a_kern_document", {"case": k2}, replay={"file": written}, op="export_kern")
                continue
            staff_of = {a["spine"]: a["a"] for a in j["attrs"] if a["kind"] == "staff"}
            den_t = sorted((round(float(fr(s["on"])), 5), round(float(fr(s["dur"])), 5), s["step"], s["alter"], s["octave"], staff_of.get(s["spine"], 1)) for s in j["sounding"])
            if j["bad"] or not j["aligned"]:
                chk.violation("c2s", "export_kern.written_file.rules", {"case": k2, "rules_broken": j["bad"], "aligned_at_the_end": j["aligned"]},
                              replay={"file": written}, op="export_kern", rules=sorted(j["bad"]), tie_on_a_chord=bool(chord_tie), voice_with_inner_gaps=gaps2)
            elif den_t != t0:
                chk.violation("c2s", "export_kern.written_file.denotes_the_part", {"case": k2, "missing": [x for x in t0 if x not in den_t][:3],
                                                                                 "unexpected": [x for x in den_t if x not in t0][:3]},
                              replay={"file": written}, op="export_kern", tie_on_a_chord=bool(chord_tie), voice_with_inner_gaps=gaps2)
    if mwdocs:
        path = os.path.join(tlc.workdir("c19/mwritten"), "cases.json")
        with open(path, "w") as f:
            json.dump(mwdocs, f)
        r = run_trace(("MeiTrace", "c19/mwritten", path))
        chk.add_mc("MeiTrace (files written by save_mei)", r)
        if r.violated:
            chk.violation("c2s", "export_mei.written_file.invariant:" + str(r.violated), {"trace": r.error_trace[:1200]}, op="export_mei")
        got = {j["cid"]: j for j in uniq(r.json_lines())}
        for k2, (t0, written, gaps2) in sorted(mwctx.items()):
            chk.count(1, validated=1)
            j = got.get(k2)
            if j is None:
                if not r.violated:
                    chk.violation("c2s", "export_mei.written_file.not_an_mei_document", {"case": k2}, replay={"file": written[:20000]}, op="export_mei")
                continue
            den_t = sorted((round(float(fr(s["on"])), 5), round(float(fr(s["dur"])), 5), s["step"], s["alter"], s["octave"], s["staff"]) for s in j["sounding"])
            if j["bad"] or not j["ties_ok"]:
                chk.violation("c2s", "export_mei.written_file.rules", {"case": k2, "rules_broken": j["bad"], "ties_join_equal_pitches": j["ties_ok"]},
                              replay={"file": written[:20000]}, op="export_mei", rules=sorted(j["bad"]), voice_with_inner_gaps=gaps2)
            elif den_t != t0:
                chk.violation("c2s", "export_mei.written_file.denotes_the_part", {"case": k2, "missing": [x for x in t0 if x not in den_t][:3],
                                                                                "unexpected": [x for x in den_t if x not in t0][:3]},
                              replay={"file": written[:20000]}, op="export_mei", voice_with_inner_gaps=gaps2)
    chk.part("export_import", **stats)
    chk.assumptions += ["MEI: one part per staffDef, meter / key / clef on the staffDef as attributes or children, meter changes by scoreDef, layers filled completely",
                        "export/import: parts with one or two staves and voices whose written durations are single note values (plain, dotted, triplet), ties expressible by pitch"]
    chk.assumptions += ["kern: one part per spine, *staff / *clef / *k / *M given at the top, barlines in every spine, final ==; rhythm values 1-24 with up to two dots",
                        "positions and durations are compared exactly (rationals), the divisions must be a multiple of every denominator that occurs"]


def entry():
    chk = common.Check("C19")
    try:
        main(chk)
    except tlc.TLCError as ex:
        chk.machinery(str(ex))
    except Exception:
        import traceback
        chk.machinery("exception in check machinery:\n" + traceback.format_exc())
    sys.exit(chk.finish(rule="seeded random documents of the supported subsets generated from abstract lines (kern: 1-3 spines, 1-3 bars, pickups, "
                             "meter changes, chords, dotted and triplet values, ties, grace notes; MEI: 1-3 staves, 1-2 layers, chords, rests, measure rests, spaces, beams, tuplets, "
                             "ties as elements or attributes, grace notes, meter changes) and seeded random parts exported with save_kern / save_mei; every document counted as non-trivial", exhaustive=False))
