"""G14 — growth beyond the listed properties: replacing a part by index during iterations (ContainerEdit.tla).

ContainerEdit.tla models Score / Performance item assignment next to independent iterators.  With KeepStructure = FALSE
(the class as it is: __setitem__ replaces the entry of the flat list only, the code carries a TODO about it) TLC refutes
StructureAgrees in two steps; with TRUE it holds together with LengthNeverChanges, OnePerPosition and YieldsAreParts.
Both runs are repeated here.  Every behaviour of length five of the as-is model is replayed into a real Score and a
real Performance: what the iterators yield, the flat list and (for the Score) part_structure must be the model's - so
the classes are exactly the as-is model, including a part_structure that no longer matches the parts after an
assignment (a finding that is recorded, not repaired: the maintainers' TODO).

Not a listed property: not registered in MANIFEST.json, prints DEVIATION lines (never VIOLATION), writes growth/G14.json."""
import json
import os
import sys
import time

from .. import common, tlc


def main():
    common.setup_repo_path()
    import partitura.score as S
    import partitura.performance as P
    tier = common.tier()
    t0 = time.time()
    asis = tlc.run("ContainerEdit", "ContainerEdit.asis.cfg", "g14/asis", workers=1, timeout=600, expect_violation=True)
    if asis.violated != "StructureAgrees":
        print("MACHINERY-FAILURE growth=G14 the as-is model is expected to violate StructureAgrees, TLC reports %s" % asis.violated)
        return 2
    kept = tlc.run("ContainerEdit", "ContainerEdit.kept.cfg", "g14/kept", workers=4, timeout=600)
    if kept.violated:
        print("MACHINERY-FAILURE growth=G14 the model with KeepStructure = TRUE violates %s" % kept.violated)
        return 2
    r = tlc.run("ContainerEditCases", "ContainerEditCases.cfg", "g14/cases", workers=4, timeout=3000, coverage=True)
    if r.violated:
        print("MACHINERY-FAILURE growth=G14 ContainerEditCases violates %s" % r.violated)
        return 2
    cases = r.json_lines()
    r.stdout = ""
    deviations, first = {}, {}

    def dev(clause, case, got, want):
        deviations[clause] = deviations.get(clause, 0) + 1
        first.setdefault(clause, {"case": case, "got": got, "want": want})

    def mk_part(name):
        p = S.Part("P%d" % name)
        p.set_quarter_duration(0, 1)
        p.add(S.Note(step="C", octave=4, voice=1, id="n"), 0, 1)
        return p

    def mk_ppart(name):
        return P.PerformedPart(id="P%d" % name, notes=[dict(id="n", midi_pitch=60, note_on=0.0, note_off=1.0, velocity=64, track=0, channel=0)])

    n = 0
    stale = 0
    for c in cases:
        n += 1
        for kind in ("score", "performance"):
            try:
                if kind == "score":
                    cont = S.Score([mk_part(1), mk_part(2)])
                else:
                    cont = P.Performance(performedparts=[mk_ppart(1), mk_ppart(2)])
                its, seen = {}, {"a": [], "b": []}
                for op in c["hist"]:
                    if op["op"] == "iter":
                        its[op["it"]] = iter(cont)
                        seen[op["it"]] = []
                    elif op["op"] == "next":
                        seen[op["it"]].append(int(next(its[op["it"]]).id[1:]))
                    else:
                        cont[op["k"] - 1] = mk_part(op["p"]) if kind == "score" else mk_ppart(op["p"])
                flat = [int(x.id[1:]) for x in (cont.parts if kind == "score" else cont.performedparts)]
                if seen != {k: list(v) for k, v in c["seen"].items()}:
                    dev(kind + ".yields", c, seen, c["seen"])
                if flat != c["parts"] or len(cont) != len(c["parts"]) or [int(cont[k].id[1:]) for k in range(len(cont))] != c["parts"]:
                    dev(kind + ".flat_list", c, flat, c["parts"])
                if kind == "score":
                    st = [int(x.id[1:]) for x in cont.part_structure]
                    if st != c["structure"]:
                        dev("score.part_structure", c, st, c["structure"])
                    if st != flat:
                        stale += 1
            except Exception as ex:
                dev(kind + ".raises", c, "%s: %s" % (type(ex).__name__, str(ex)[:200]), "no exception")
    out = os.path.join(common.OUT, "growth")
    os.makedirs(out, exist_ok=True)
    ev = {"growth_id": "G14", "spec": "ContainerEdit.tla / ContainerEditCases.tla", "tier": tier,
          "tlc": [{"run": "as is (KeepStructure = FALSE)", "violated": asis.violated, "distinct_states": asis.distinct},
                  {"run": "KeepStructure = TRUE", "violated": None, "distinct_states": kept.distinct},
                  {"run": "behaviours of length 5, as is", "distinct_states": r.distinct, "actions": {k: list(v) for k, v in r.coverage.items()}}],
          "behaviours_replayed": n, "behaviours_ending_with_a_stale_part_structure": stale,
          "finding": "Score.__setitem__ leaves part_structure as it was (recorded, not repaired: a TODO of the maintainers)",
          "deviations": deviations, "first_of_each": first, "wall_s": round(time.time() - t0, 1)}
    with open(os.path.join(out, "G14.json"), "w") as f:
        json.dump(ev, f, indent=1, default=str)
    for k, v in sorted(deviations.items()):
        print("DEVIATION growth=G14 clause=%s count=%d first=%s" % (k, v, json.dumps(first[k], default=str)[:500]))
    print("FINDING growth=G14 Score item assignment leaves part_structure as it was (%d of %d replayed behaviours end so, as the model says)" % (stale, n))
    print("SUMMARY growth=G14 tier=%s states=%d behaviours=%d deviations=%d wall=%.1fs" % (tier, r.distinct, n, sum(deviations.values()), time.time() - t0))
    return 1 if deviations else 0


def entry():
    try:
        rc = main()
    except tlc.TLCError as ex:
        print("MACHINERY-FAILURE growth=G14 %s" % str(ex)[:1500])
        rc = 2
    except Exception:
        import traceback
        print("MACHINERY-FAILURE growth=G14\n" + traceback.format_exc())
        rc = 2
    sys.exit(rc)
