"""G15 — growth beyond the listed properties: monotonize_times (Monotonize.tla).

Monotonize.tla models partitura.utils.generic.monotonize_times as the running-maximum scan it is (a record is a position
where the running maximum rises) followed by linear interpolation through the records.  TLC checks the scan invariants
(RunMaxIsMax, RecordsRise, RecordsAreTheRises) and, on the result, Monotone, RecordsKept, InvertibleBetweenRecords,
AtLeastRunningMax and IncreasingUnchanged.  The constant Clamp selects the function as it is (FALSE: behind the last
record it extrapolates with the slope of the last segment) or the documented intent (TRUE: the maximum is held): with
FALSE TLC refutes WithinRange (s = 0, 1, 0 gives 0, 1, 2: a performed time later than any that was played); this run is
repeated here and must keep failing, with TRUE WithinRange holds.  Every finished scan of the as-is model is replayed
into the real function with the positions given, with the default positions where they are the indices, and with an
integer array: the result must be the model's exact rational values (within 1e-9), the positions returned unchanged,
the argument unchanged.

Not a listed property: not registered in MANIFEST.json, prints DEVIATION lines (never VIOLATION), writes growth/G15.json."""
import json
import os
import sys
import time
from fractions import Fraction

from .. import common, tlc


def main():
    common.setup_repo_path()
    import numpy as np
    from partitura.utils.generic import monotonize_times
    tier = common.tier()
    t0 = time.time()
    asis = tlc.run("MonotonizeCases", "MonotonizeCases.asis.cfg", "g15/asis", workers=1, timeout=600, expect_violation=True)
    if asis.violated != "WithinRange":
        print("MACHINERY-FAILURE growth=G15 the as-is model is expected to violate WithinRange, TLC reports %s" % asis.violated)
        return 2
    clamp = tlc.run("MonotonizeCases", "MonotonizeCases.clamp.cfg", "g15/clamp", workers=8, timeout=1200)
    if clamp.violated:
        print("MACHINERY-FAILURE growth=G15 the clamped model violates %s" % clamp.violated)
        return 2
    r = tlc.run("MonotonizeCases", "MonotonizeCases.%s.cfg" % tier, "g15/cases", workers=8, timeout=3000, coverage=True)
    if r.violated:
        print("MACHINERY-FAILURE growth=G15 MonotonizeCases violates %s" % r.violated)
        return 2
    cases = r.json_lines()
    r.stdout = ""
    deviations, first = {}, {}

    def dev(clause, case, got, want):
        deviations[clause] = deviations.get(clause, 0) + 1
        first.setdefault(clause, {"case": case, "got": got, "want": want})

    n = calls = above = 0
    for c in cases:
        n += 1
        s, x = c["s"], c["x"]
        want = [Fraction(a, b) for a, b in c["out"]]
        if max(want) > max(s):
            above += 1
        variants = [("positions_given", np.array(s, dtype=float), np.array(x, dtype=float))]
        if x == list(range(len(s))):
            variants.append(("default_positions", np.array(s, dtype=float), None))
            variants.append(("integer_array", np.array(s, dtype=int), None))
        for name, sa, xa in variants:
            calls += 1
            s_before = sa.copy()
            x_before = None if xa is None else xa.copy()
            try:
                got, gx = monotonize_times(sa, x=xa) if xa is not None else monotonize_times(sa)
            except Exception as ex:
                dev(name + ":raises", c, "%s: %s" % (type(ex).__name__, ex), [str(w) for w in want])
                continue
            got = [float(v) for v in np.asarray(got).ravel()]
            if len(got) != len(want) or any(abs(g - float(w)) > 1e-9 for g, w in zip(got, want)):
                dev(name + ":values", c, got, [str(w) for w in want])
            if [float(v) for v in np.asarray(gx).ravel()] != [float(v) for v in x]:
                dev(name + ":positions", c, [float(v) for v in np.asarray(gx).ravel()], x)
            if not np.array_equal(sa, s_before) or (xa is not None and not np.array_equal(xa, x_before)):
                dev(name + ":argument_modified", c, sa.tolist(), s_before.tolist())
    out = os.path.join(common.OUT, "growth")
    os.makedirs(out, exist_ok=True)
    ev = {"growth_id": "G15", "spec": "Monotonize.tla / MonotonizeCases.tla", "tier": tier,
          "tlc": [{"run": "as is (Clamp = FALSE), WithinRange", "violated": asis.violated, "distinct_states": asis.distinct},
                  {"run": "Clamp = TRUE, all invariants and WithinRange", "violated": None, "distinct_states": clamp.distinct},
                  {"run": "scenarios, as is", "distinct_states": r.distinct, "actions": {k: list(v) for k, v in r.coverage.items()}}],
          "scenarios_replayed": n, "calls": calls, "scenarios_with_a_value_above_the_maximum_in_model_and_function": above,
          "finding": "behind the last rise of the running maximum the function extrapolates above the largest given value (recorded, not repaired)",
          "deviations": deviations, "first_of_each": first, "wall_s": round(time.time() - t0, 1)}
    with open(os.path.join(out, "G15.json"), "w") as f:
        json.dump(ev, f, indent=1, default=str)
    for k, v in sorted(deviations.items()):
        print("DEVIATION growth=G15 clause=%s count=%d first=%s" % (k, v, json.dumps(first[k], default=str)[:500]))
    print("FINDING growth=G15 monotonize_times extrapolates above the largest given value behind the last record (%d of %d replayed scenarios, as the model says)" % (above, n))
    print("SUMMARY growth=G15 tier=%s states=%d scenarios=%d calls=%d deviations=%d wall=%.1fs" % (tier, r.distinct, n, calls, sum(deviations.values()), time.time() - t0))
    return 1 if deviations else 0


def entry():
    try:
        rc = main()
    except tlc.TLCError as ex:
        print("MACHINERY-FAILURE growth=G15 %s" % str(ex)[:1500])
        rc = 2
    except Exception:
        import traceback
        print("MACHINERY-FAILURE growth=G15\n" + traceback.format_exc())
        rc = 2
    sys.exit(rc)
