"""G08 — growth beyond the listed properties: choosing the unfolding a performance speaks of (UnfoldChoice.tla).

The layouts and paths come from Unfold.tla / UnfoldCases.tla (the machine of C09).  For every layout whose
implementation paths are all behaviours of the machine, and for each of its paths, alignments are built that name
every occurrence the path plays (full) or a seeded random part of them (with deletions and insertions), and
unfold_part_alignment is called on a fresh part; the recorded calls are validated by TLC against UnfoldChoice.tla:
the returned part is one of the candidate paths, covers the most named occurrences, is a shortest such path, and a
full alignment gives back its own path (paths_are_told_apart is the same statement about the paths alone).

Not a listed property: not registered in MANIFEST.json, prints DEVIATION lines (never VIOLATION), writes growth/G08.json."""
import concurrent.futures
import json
import os
import random
import re
import sys
import time

from .. import common, tlc
from .c09 import build, path_bars, run_gen, kind_of, NOB
from .c12 import uniq


def occurrences(path):
    seen = {}
    out = []
    for b in path:
        seen[b] = seen.get(b, 0) + 1
        out.append((b, seen[b]))
    return out


def main():
    common.setup_repo_path()
    import partitura.score as score
    tier = common.tier()
    rng = random.Random(common.seed())
    t0 = time.time()
    env = {"SMALL": "1"} if tier == "quick" else {}
    jobs = [("g08/enum%d" % k, dict(env, SHARD=str(k))) for k in range(16)]
    with concurrent.futures.ThreadPoolExecutor(16) as ex:
        results = list(ex.map(run_gen, jobs))
    allpaths = {}
    states = 0
    for r in results:
        states += r.distinct
        if r.violated:
            print("MACHINERY-FAILURE growth=G08 Unfold machine violates its own invariant %s" % r.violated)
            return 2
        for j in uniq(r.json_lines()):
            if j["policy"] == "all":
                allpaths.setdefault(json.dumps(j["lay"], sort_keys=True), set()).add(tuple(j["path"]))
        r.stdout = ""
    keys = sorted(allpaths)
    if tier == "quick":
        keys = [k for k in keys if rng.random() < 0.6]
    recs = []
    skipped = 0
    rid = 0
    for key in keys:
        lay = json.loads(key)
        try:
            impl = [path_bars(p) for p in score.get_paths(build(score, lay), no_repeats=False, all_repeats=False, ignore_leap_info=True)]
        except Exception:
            skipped += 1
            continue
        if not impl or any(tuple(p) not in allpaths[key] for p in impl):
            skipped += 1        # the layouts of the known findings of C09 (paths that are not behaviours of the machine)
            continue
        srcs = list(range(len(impl)))
        rng.shuffle(srcs)
        for src in srcs[: (3 if tier == "quick" else 8)]:
            occ = occurrences(impl[src])
            for full in (1, 0):
                if full:
                    named = list(occ)
                else:
                    named = [o for o in occ if rng.random() < 0.6] or [occ[0]]
                al = []
                for b, k in named:
                    for stem in ("n", "m"):
                        if full or rng.random() < 0.8:
                            label = "match" if rng.random() < 0.85 else "deletion"
                            e = {"label": label, "score_id": "%s%d-%d" % (stem, b, k)}
                            if label == "match":
                                e["performance_id"] = "p%d" % len(al)
                            al.append(e)
                if not al:          # an alignment that names no score note at all says nothing about the unfolding: not generated
                    al.append({"label": "match", "score_id": "n%d-%d" % named[0], "performance_id": "p0"})
                al.append({"label": "insertion", "performance_id": "x1"})
                rng.shuffle(al)
                named_ids = sorted(set((int(re.match(r"[nm](\d+)-(\d+)", e["score_id"]).group(1)),
                                        int(re.match(r"[nm](\d+)-(\d+)", e["score_id"]).group(2))) for e in al if "score_id" in e))
                rid += 1
                rec = {"rid": rid, "paths": impl, "occ": [list(x) for x in named_ids], "got": [], "full": full, "src": src + 1, "err": "",
                       "kind": kind_of(lay)}
                try:
                    res = score.unfold_part_alignment(build(score, lay), [dict(e) for e in al])
                    rec["got"] = [int(n.id[1:].split("-")[0]) for n in sorted((x for x in res.notes if x.id.startswith("n")), key=lambda x: x.start.t)]
                except Exception as ex:
                    rec["err"] = "%s: %s" % (type(ex).__name__, str(ex)[:120])
                recs.append(rec)
    shards = 8
    jobs = []
    for k in range(shards):
        path = os.path.join(tlc.workdir("g08/trace%d" % k), "batch.json")
        with open(path, "w") as f:
            json.dump([{kk: vv for kk, vv in r.items() if kk != "kind"} for r in recs[k::shards]], f)
        jobs.append(("g08/trace%d" % k, path))
    with concurrent.futures.ThreadPoolExecutor(shards) as ex:
        res = list(ex.map(lambda a: tlc.run("UnfoldChoice", "UnfoldChoice.cfg", a[0], workers=1, env={"TRACE_FILE": a[1]}, timeout=3000, heap="3g"), jobs))
    verdicts = {}
    for r in res:
        for m in re.finditer(r'<<\s*"VERDICT",\s*(\d+),\s*\{(.*?)\}\s*>>', r.stdout, re.S):
            verdicts[int(m.group(1))] = [c.strip().strip('"') for c in m.group(2).split(",") if c.strip()]
    deviations, first = {}, {}
    for rec in recs:
        v = verdicts.get(rec["rid"])
        if v is None:
            print("MACHINERY-FAILURE growth=G08 no verdict for record %d" % rec["rid"])
            return 2
        for cl in v:
            name = cl + ("" if cl != "raises" else "." + rec["err"].split(":")[0])
            deviations[name] = deviations.get(name, 0) + 1
            first.setdefault(name, rec)
    out = os.path.join(common.OUT, "growth")
    os.makedirs(out, exist_ok=True)
    ev = {"growth_id": "G08", "spec": "UnfoldChoice.tla (on the paths of Unfold.tla / UnfoldCases.tla)", "tier": tier, "seed": common.seed(),
          "unfold_machine_states": states, "layouts": len(keys), "layouts_not_judged": skipped,
          "calls_validated": len(recs), "full_alignments": sum(r["full"] for r in recs),
          "kinds": sorted(set(r["kind"] for r in recs)), "deviations": deviations, "first_of_each": first, "wall_s": round(time.time() - t0, 1)}
    with open(os.path.join(out, "G08.json"), "w") as f:
        json.dump(ev, f, indent=1, default=str)
    for k, v in sorted(deviations.items()):
        print("DEVIATION growth=G08 clause=%s count=%d first=%s" % (k, v, json.dumps(first[k], default=str)[:700]))
    print("SUMMARY growth=G08 tier=%s layouts=%d not_judged=%d calls=%d deviations=%d wall=%.1fs" % (tier, len(keys), skipped, len(recs), sum(deviations.values()), time.time() - t0))
    return 1 if deviations else 0


def entry():
    try:
        rc = main()
    except tlc.TLCError as ex:
        print("MACHINERY-FAILURE growth=G08 %s" % str(ex)[:1500])
        rc = 2
    except Exception:
        import traceback
        print("MACHINERY-FAILURE growth=G08\n" + traceback.format_exc())
        rc = 2
    sys.exit(rc)
