"""C02 — quarter and beat maps are exact, monotone and mutually inverse.

TimeMaps.tla defines the maps as exact rational sums over the divisions of the timeline; TLC checks
on every configuration Monotone, ZeroPlacement, SegmentLaw, and emits all map values.  Configurations:
exhaustive bounded family enumerated by TLC + seeded random larger ones for which TLC serves as the
oracle.  The harness builds each part and compares every map (scalar and array, forward and inverse)."""
import json
import os
import random
import sys
import concurrent.futures

import numpy as np

from .. import common, tlc, tm_impl
from .c12 import uniq

TSALL = [(2, 4), (3, 4), (4, 4), (6, 8), (5, 8), (2, 2), (9, 8), (12, 8), (3, 8), (5, 4), (7, 8)]
DEF_MB = {6: 2, 9: 3, 12: 4}


def random_configs(rng, n):
    out = []
    for cid in range(1, n + 1):
        T = rng.choice([6, 10, 16, 24])
        qtab = {0: rng.choice([1, 2, 3, 4, 6, 12])}
        for _ in range(rng.choice([0, 1, 2, 3])):
            qtab[rng.randint(1, T - 1)] = rng.choice([1, 2, 3, 4, 5, 6, 8, 12])
        musical = rng.randint(0, 1)
        user = {}
        ts = {}
        if rng.random() < 0.9:
            times = [0] + [rng.randint(1, T - 1) for _ in range(rng.choice([0, 1, 2, 3]))]
            for t in times:
                b, bt = rng.choice(TSALL)
                if (b, bt) not in user:   # one number of musical beats per signature (the API is keyed by "b/bt")
                    user[(b, bt)] = rng.choice([1, 2, 3, b]) if musical and rng.random() < 0.3 else DEF_MB.get(b, b)
                ts[t] = (b, bt, user[(b, bt)])
        measures = []
        if rng.random() < 0.85:
            measures = [[0, rng.randint(1, T), 1]]
        out.append({"cid": cid, "T": T, "qtab": [[t, q] for t, q in sorted(qtab.items())],
                    "ts": [[t] + list(v) for t, v in sorted(ts.items())], "ks": [], "clefs": [],
                    "measures": measures, "musical": musical, "nstaves": 1})
    return out


def check_config(chk, score, cfg, out):
    T = cfg["T"]
    try:
        part = tm_impl.build(score, cfg)
    except Exception as ex:
        chk.violation("s2c", "build.raises", {"cfg": cfg, "exc": repr(ex)}, op="build")
        return
    ts = np.arange(0, T + 1)
    n_changes = len(cfg["qtab"]) + len(cfg["ts"])
    struct = "pickup" if out["pickup_beats"] != [0, 1] else ("changes" if n_changes > 2 else "plain")

    def report(clause, detail):
        chk.violation("s2c", clause, dict(cfg=cfg, **detail), replay={"cfg": cfg, "expected": out}, op=clause.split(".")[0],
                      structure=struct)

    for name, key, inv in (("quarter_map", "qmap", "inv_quarter_map"), ("beat_map", "bmap", "inv_beat_map")):
        exp = [tm_impl.fr(v) for v in out[key]]
        try:
            f = getattr(part, name)
            arr = f(ts)
            sc = [f(int(t)) for t in ts]
        except Exception as ex:
            report(name + ".raises", {"exc": repr(ex)})
            continue
        badarr = [int(t) for t in ts if not tm_impl.close(arr[t], exp[t])]
        badsc = [int(t) for t in ts if not tm_impl.close(sc[t], exp[t])]
        if badarr:
            t = badarr[0]
            report(name + ".array", {"t": t, "expected": str(exp[t]), "got": float(arr[t]), "n_bad": len(badarr)})
        elif badsc:
            t = badsc[0]
            report(name + ".scalar", {"t": t, "expected": str(exp[t]), "got": float(sc[t])})
        try:
            g = getattr(part, inv)
            # the inverse undoes the forward map: compose with the implementation's own forward values
            back = g(np.asarray(arr, dtype=float))
            backs = [g(float(v)) for v in sc]
        except Exception as ex:
            report(inv + ".raises", {"exc": repr(ex)})
            continue
        bad = [int(t) for t in ts if not tm_impl.close(back[t], t) or not tm_impl.close(backs[t], t)]
        if bad:
            t = bad[0]
            report(inv, {"t": t, "value": str(exp[t]), "got": [float(back[t]), float(backs[t])]})
    try:
        qd = part.quarter_duration_map(ts)
        qs = [part.quarter_duration_map(int(t)) for t in ts]
        bad = [int(t) for t in ts if int(qd[t]) != out["qdur"][t] or int(qs[t]) != out["qdur"][t]]
        if bad:
            report("quarter_duration_map", {"t": bad[0], "expected": out["qdur"][bad[0]], "got": float(qd[bad[0]])})
    except Exception as ex:
        report("quarter_duration_map.raises", {"exc": repr(ex)})
    chk.count(1, validated=1)
    if n_changes > 1 or struct == "pickup":
        chk.nontrivial(json.dumps(cfg, sort_keys=True))


def run_gen(args):
    source, tag, env = args
    return tlc.run("TimeMapsCases", "TimeMapsCases.%s.cfg" % source, tag, workers=1, env=env, expect_violation=True,
                   timeout=3000, heap="3g")


def generate(chk, source, tier, tagbase, file_cases=None):
    """Run the TLC generator (sharded over processes) and return the emitted cases."""
    jobs = []
    if source == "file":
        shards = 8 if len(file_cases) > 400 else 1
        for k in range(shards):
            wd = tlc.workdir("%s/file%d" % (tagbase, k))
            path = os.path.join(wd, "cases.json")
            with open(path, "w") as f:
                json.dump(file_cases[k::shards], f)
            jobs.append(("file", "%s/file%d" % (tagbase, k), {"CASE_FILE": path}))
    elif tier == "quick" and source == "c02":
        jobs = [("c02", "%s/enum%d" % (tagbase, k), {"SMALL": "1", "SHARD": str(k)}) for k in range(16)]
    else:
        jobs = [(source, "%s/enum%d" % (tagbase, k), {"SHARD": str(k)}) for k in range(16)]
    with concurrent.futures.ThreadPoolExecutor(16) as ex:
        results = list(ex.map(run_gen, jobs))
    cases = []
    for r in results:
        chk.add_mc("TimeMapsCases.%s" % source, r)
        if r.violated:
            chk.machinery("TimeMaps specification violates its own property %s\n%s" % (r.violated, r.error_trace[:1500]))
        cases += uniq(r.json_lines())
    return cases


def single_point_cases(chk, score):
    """A part with a single time point: both maps are the constant 0 (scalar and array arguments)."""
    part = score.Part("P1", quarter_duration=2)
    part.add(score.TimeSignature(4, 4), 0)
    for name in ("quarter_map", "beat_map"):
        for arg, label in ((0, "scalar"), (np.array([0]), "array")):
            chk.count(1, validated=1)
            try:
                v = getattr(part, name)(arg)
                if not np.allclose(v, 0):
                    chk.violation("s2c", name + ".single_point", {"arg": label, "got": repr(v)}, op=name)
            except Exception as ex:
                chk.violation("s2c", name + ".single_point.raises", {"arg": label, "exc": repr(ex)}, op=name, arg=label)


def main(chk):
    common.setup_repo_path()
    import partitura.score as score
    rng = random.Random(chk.seed)
    cases = generate(chk, "c02", chk.tier, "c02")
    nfile = 600 if chk.tier == "quick" else 12000
    fcases = generate(chk, "file", chk.tier, "c02", random_configs(rng, nfile))
    if not cases or not fcases:
        chk.machinery("no cases generated")
        return
    for c in cases + fcases:
        check_config(chk, score, c["cfg"], c["out"])
    single_point_cases(chk, score)
    chk.part("enumerated", configs=len(cases))
    chk.part("random_with_tlc_oracle", configs=len(fcases))
    chk.sample({"cfg": cases[len(cases) // 2]["cfg"], "expected_qmap": cases[len(cases) // 2]["out"]["qmap"],
                "expected_bmap": cases[len(cases) // 2]["out"]["bmap"]})
    chk.sample({"cfg": fcases[0]["cfg"], "expected_bmap": fcases[0]["out"]["bmap"]})
    chk.assumptions += ["timeline starts at 0 (what every importer produces); the first time signature, if any measure exists, starts there",
                        "float64 map values are compared with the exact rational under 1e-9 relative",
                        "positions: all integer positions 0..T (every change point is an integer position)"]


def entry():
    chk = common.Check("C02")
    try:
        main(chk)
    except tlc.TLCError as ex:
        chk.machinery(str(ex))
    except Exception:
        import traceback
        chk.machinery("exception in check machinery:\n" + traceback.format_exc())
    sys.exit(chk.finish(rule="configurations = (quarter-duration table, time signatures, first measure, beat mode); enumerated "
                             "family by TLC + seeded random with TLC as oracle; non-trivial = at least one change or a pickup",
                        exhaustive=False))
