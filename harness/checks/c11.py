"""C11 — adding measures and tying notes normalise notation without changing what sounds.

Normalise.tla states the post-conditions: (estimate) a reported symbolic duration evaluates to the
numeric duration under the divisions; (measures) existing measures stay, new ones tile exactly the
uncovered stretches with full bars of the signature in force, cut only by a signature change, an
existing measure or the end, numbered consecutively; (ties) the sounding notes are unchanged, every
pitched note lies within one measure, tie chains are contiguous with one pitch/voice/staff, symbolic
durations evaluate to the numeric ones.  Recorded calls are validated by TLC."""
import json
import multiprocessing
import os
import random
import re
import sys

from .. import common, tlc

TSS = [(2, 4), (3, 4), (4, 4), (6, 8), (3, 8), (2, 2), (5, 4), (9, 8)]
STEPS = ["C", "D", "E", "F", "G", "A", "B"]


def sym_rec(sym):
    if not sym or not isinstance(sym, dict) or "type" not in sym:
        return None
    return {"type": sym["type"], "dots": int(sym.get("dots", 0) or 0), "actual": int(sym.get("actual_notes", 1) or 1),
            "normal": int(sym.get("normal_notes", 1) or 1)}


DUMMY_SYM = {"type": "quarter", "dots": 0, "actual": 1, "normal": 1}


def estimate_records(M, divs_list, rid0):
    recs = []
    rid = rid0
    for div in divs_list:
        for dur in range(1, 16 * div + 1):
            rid += 1
            try:
                s = M.estimate_symbolic_duration(dur, div)
                sr = sym_rec(s)
                recs.append({"rid": rid, "kind": "estimate", "dur": dur, "div": div, "none": 0 if sr else 1,
                             "sym": sr or DUMMY_SYM, "err": ""})
            except Exception as ex:
                recs.append({"rid": rid, "kind": "estimate", "dur": dur, "div": div, "none": 1, "sym": DUMMY_SYM,
                             "err": "%s: %s" % (type(ex).__name__, str(ex)[:100])})
    return recs


def gen_measure_case(score, rng):
    q = rng.choice([1, 2, 4, 6, 12])
    ok = [(b, bt) for b, bt in TSS if (b * q * 4) % bt == 0]
    nts = rng.choice([1, 1, 2, 3])
    ts = []
    t = 0
    part = score.Part("P1", quarter_duration=q)
    first = rng.choice([0, 0, 0, q])
    for k in range(nts):
        b, bt = rng.choice(ok)
        bar = b * q * 4 // bt
        start = first if k == 0 else t
        ts.append([start, b, bt])
        part.add(score.TimeSignature(b, bt), start)
        t = start + bar * rng.randint(1, 3) + (rng.choice([0, 0, rng.randint(1, bar)]) if k < nts - 1 else 0)
    T = t + rng.choice([0, 0, rng.randint(1, 5)])
    part.add(score.Rest(id="r0", voice=1), first, T)
    before = []
    pos = first
    for _ in range(rng.choice([0, 0, 1, 2, 3])):
        s = rng.randint(pos, max(pos, T - 1))
        e = rng.randint(s + 1, min(T, s + 3 * q * 4))
        if e > T or s >= T:
            break
        part.add(score.Measure(number=99), s, e)
        before.append([s, e, 99])
        pos = e
        if pos >= T:
            break
    return part, {"T": T, "first": first, "q": q, "ts": ts, "before": before}


def gen_tie_case(score, rng):
    q = rng.choice([1, 2, 4, 6, 12, 24])
    ok = [(b, bt) for b, bt in TSS if (b * q * 4) % bt == 0]
    b, bt = rng.choice(ok)
    bar = b * q * 4 // bt
    nbars = rng.randint(2, 5)
    part = score.Part("P1", quarter_duration=q)
    part.add(score.TimeSignature(b, bt), 0)
    change_at = None
    if rng.random() < 0.3:
        b2, bt2 = rng.choice(ok)
        change_at = bar * rng.randint(1, nbars - 1)
        part.add(score.TimeSignature(b2, bt2), change_at)
    T = bar * nbars
    nid = 0
    for v in (1, 2):
        pos = rng.randint(0, bar)
        while pos < T:
            dur = rng.choice([1, 2, 3, 5, 7, q, 2 * q, 3 * q, bar, bar + q, 2 * bar + 1, rng.randint(1, 3 * bar)])
            dur = min(dur, T - pos)
            if dur <= 0:
                break
            if rng.random() < 0.2:
                dur = min(dur, bar - pos % bar)          # rests are written bar by bar
                part.add(score.Rest(id="r%d" % nid, voice=v, staff=v), pos, pos + dur)
            else:
                n = score.Note(step=rng.choice(STEPS), octave=rng.randint(2, 6), alter=rng.choice([None, None, 1, -1]),
                               id="n%d" % nid, voice=v, staff=v)
                part.add(n, pos, pos + dur)
                if rng.random() < 0.1:
                    g = score.GraceNote("grace", step="C", octave=5, id="g%d" % nid, voice=v, staff=v)
                    part.add(g, pos, pos)
            nid += 1
            pos += dur + rng.choice([0, 0, 0, rng.randint(1, q)])
    part.add(score.Words("end"), T)        # the timeline reaches the last barline
    return part


def rows_of(part):
    na = part.note_array()
    return sorted([int(a), int(b), int(c)] for a, b, c in zip(na["onset_div"], na["duration_div"], na["pitch"]))


def note_recs(score, part):
    notes = [n for n in part.iter_all(score.Note, include_subclasses=True)]
    index = {id(n): k + 1 for k, n in enumerate(notes)}
    out = []
    for n in notes:
        sr = sym_rec(n.symbolic_duration) if not isinstance(n, score.GraceNote) else None
        out.append({"on": n.start.t, "dur": n.end.t - n.start.t, "pitch": int(n.midi_pitch), "voice": n.voice or 0,
                    "staff": n.staff or 0, "next": index.get(id(n.tie_next), 0) if n.tie_next is not None else 0,
                    "prev": index.get(id(n.tie_prev), 0) if n.tie_prev is not None else 0,
                    "hassym": 1 if sr else 0, "sym": sr or DUMMY_SYM, "q": int(n.start.quarter), "id": n.id})
    return out


def make_case(args):
    rid, seed, what = args
    import partitura.score as score
    rng = random.Random(seed)
    if what == "measures":
        part, rec = gen_measure_case(score, rng)
        rec.update(rid=rid, kind="measures", err="", after=[])
        try:
            score.add_measures(part)
            rec["after"] = [[m.start.t, m.end.t, m.number if m.number is not None else -1] for m in part.iter_all(score.Measure)]
        except Exception as ex:
            rec["err"] = "%s: %s" % (type(ex).__name__, str(ex)[:120])
        return rec
    part = gen_tie_case(score, rng)
    ops = ["tie_notes"]
    rec = {"rid": rid, "kind": "ties", "err": "", "q": int(part.quarter_durations()[0, 1]), "rows_before": [], "rows_after": [],
           "notes": [], "measures": [], "ops": ops}
    try:
        score.add_measures(part)
        for k, m in enumerate(list(part.iter_all(score.Measure))):     # something starts in every measure
            part.add(score.Rest(id="rz%d" % k, voice=3, staff=1), m.start.t, m.end.t)
        rec["rows_before"] = rows_of(part)
        score.tie_notes(part)
        for name, fn in (("find_tuplets", score.find_tuplets), ("fill_rests", score.fill_rests), ("sanitize_part", score.sanitize_part)):
            if rng.random() < 0.5:
                ops.append(name)
                fn(part)
        rec["rows_after"] = rows_of(part)
        rec["notes"] = note_recs(score, part)
        rec["measures"] = [[m.start.t, m.end.t, m.number if m.number is not None else -1] for m in part.iter_all(score.Measure)]
    except Exception as ex:
        rec["err"] = "%s: %s" % (type(ex).__name__, str(ex)[:120])
    return rec


def run_tlc(args):
    tag, path = args
    return tlc.run("Normalise", "Normalise.cfg", tag, workers=1, env={"TRACE_FILE": path}, timeout=3400, heap="4g")


def main(chk):
    common.setup_repo_path()
    import partitura.score as score
    import partitura.utils.music as M
    rng = random.Random(chk.seed)
    if chk.tier == "quick":
        divs = [1, 2, 3, 4, 6, 8, 12, 16, 24, 48, 96, 480, 960]
    else:
        divs = list(range(1, 961))
    recs = estimate_records(M, divs, 0)
    n_est = len(recs)
    nm, nt = (250, 250) if chk.tier == "quick" else (4000, 4000)
    ctx = multiprocessing.get_context("fork")
    jobs = [(n_est + k + 1, chk.seed * 7919 + k, "measures") for k in range(nm)] + \
           [(n_est + nm + k + 1, chk.seed * 7919 + 100000 + k, "ties") for k in range(nt)]
    with ctx.Pool(min(16, os.cpu_count() or 4)) as pool:
        recs += pool.map(make_case, jobs, chunksize=8)
    # TLC validation, sharded
    shards = 16
    import concurrent.futures
    tjobs = []
    for k in range(shards):
        wd = tlc.workdir("c11/trace%d" % k)
        path = os.path.join(wd, "batch.json")
        with open(path, "w") as f:
            json.dump(recs[k::shards], f)
        tjobs.append(("c11/trace%d" % k, path))
    with concurrent.futures.ThreadPoolExecutor(shards) as ex:
        results = list(ex.map(run_tlc, tjobs))
    verdicts = {}
    for r in results:
        chk.add_mc("Normalise (recorded calls)", r)
        for ln in r.printed:
            m = re.match(r'<<"VERDICT", (\d+), \{(.*)\}>>', ln)
            if m:
                verdicts[int(m.group(1))] = [c.strip().strip('"') for c in m.group(2).split(",") if c.strip()]
    kinds = {"estimate": 0, "measures": 0, "ties": 0}
    for rec in recs:
        kinds[rec["kind"]] += 1
        v = verdicts.get(rec["rid"])
        chk.count(1, validated=1 if v == [] else 0)
        if v is None:
            chk.machinery("no verdict for record %d (%s)" % (rec["rid"], rec["kind"]))
            break
        if rec["kind"] != "estimate" or rec["none"] == 0:
            chk.nontrivial(rec["rid"])
        for cl in v:
            if rec["kind"] == "estimate":
                chk.violation("c2s", "estimate." + cl, {"dur": rec["dur"], "div": rec["div"], "reported": rec["sym"], "err": rec["err"]},
                              replay=rec, op="estimate_symbolic_duration", large_div=rec["div"] > 100)
            elif rec["kind"] == "measures":
                straddle = any(b[0] < t[0] < b[1] for b in rec["before"] for t in rec["ts"])
                chk.violation("c2s", "add_measures." + cl, {k: rec[k] for k in ("T", "first", "q", "ts", "before", "after", "err")},
                              replay=rec, op="add_measures", existing_measure_straddles_signature_change=straddle,
                              exc=rec["err"].split(":")[0])
            else:
                chk.violation("c2s", "tie_notes." + cl, {"ops": rec["ops"], "q": rec["q"], "err": rec["err"], "measures": rec["measures"],
                                                        "rows_before": rec["rows_before"][:8], "rows_after": rec["rows_after"][:8],
                                                        "notes": [{k: n[k] for k in ("id", "on", "dur", "next", "sym", "hassym")} for n in rec["notes"]][:10]},
                              replay=rec, op="tie_notes", exc=rec["err"].split(":")[0])
    chk.part("records", **kinds)
    chk.sample({k: v for k, v in recs[5].items()})
    chk.sample({k: (v if k not in ("notes",) else v[:3]) for k, v in recs[-1].items()})
    chk.assumptions += ["bar lengths (beats * 4 / beat_type quarters) are integral in the divisions in force",
                        "quick tier: divisions {1,2,3,4,6,8,12,16,24,48,96,480,960} x all durations up to 16 quarters; thorough: every division 1..960",
                        "a symbolic duration is judged only where the library reports one ({} = 'no single notated value')"]


def entry():
    chk = common.Check("C11")
    try:
        main(chk)
    except tlc.TLCError as ex:
        chk.machinery(str(ex))
    except Exception:
        import traceback
        chk.machinery("exception in check machinery:\n" + traceback.format_exc())
    sys.exit(chk.finish(rule="recorded calls: estimate_symbolic_duration on every (duration, divisions) pair of the tier, add_measures on "
                             "seeded random parts with existing measures and gaps, tie_notes (+ find_tuplets / fill_rests / sanitize_part) on "
                             "seeded random parts; non-trivial = a symbolic value was reported / every structural record", exhaustive=False))
