"""C16 — transposition moves every note by the interval and leaves the input alone.

TLC enumerates steps x alterations -2..2 x octaves 0..8 x 39 interval classes x 2 directions with the
result of the diatonic arithmetic of Pitch.tla (whose theorems MidiMovesBySemitones, StepsMoveByNumber,
UpThenDownIsIdentity, ChordRootArithmeticAgrees are checked by TLC); the harness transposes real parts
holding all those notes through the public `transpose` and compares.  Frame conditions (only
step/alter/octave of pitched notes change, argument untouched, new object graph) are recorded calls
validated by TLC against TransposeCheck.tla."""
import json
import os
import random
import sys

from .. import common, gen_score, proj, tlc
from .c12 import uniq

STEPS = ["C", "D", "E", "F", "G", "A", "B"]


def note_recs(score, part):
    """Per timed object: pitched flag, spelling, digest of everything else."""
    p = proj.project_part(part)
    notes, others = [], []
    for o in p["objects"]:
        if o["cls"] in ("Note", "GraceNote"):
            rest = {k: v for k, v in o.items() if k not in ("step", "alter", "octave")}
            notes.append({"pitched": 1, "step": o["step"], "alter": o["alter"] or 0, "octave": o["octave"],
                          "rest": proj.digest(rest)})
        else:
            others.append(proj.digest(o))
    return notes, others, proj.digest(p)


def object_ids(score, obj):
    parts = obj.parts if isinstance(obj, score.Score) else [obj]
    ids = set()
    for p in parts:
        ids.add(id(p))
        order, _ = proj.part_objects(p)
        ids.update(id(o) for o in order)
        tp = p.first_point
        while tp is not None:
            ids.add(id(tp))
            tp = tp.next
    return ids


def main(chk):
    common.setup_repo_path()
    import partitura.score as score
    import partitura.utils.music as M

    res = tlc.run("PitchCases", "PitchCases.c16.cfg", "c16/gen", workers=1, timeout=1200)
    cases = uniq(res.json_lines())
    chk.add_mc("PitchCases.c16 (transposition table + ASSUMEd theorems)", res)
    table = {}
    for c in cases:
        i = c["in"]
        table[(i["step"], i["alter"], i["octave"], i["iv"][0], i["iv"][1], i["dir"])] = c["out"]
    if len(table) != 7 * 5 * 9 * 39 * 2:
        chk.machinery("transposition table incomplete: %d" % len(table))
        return
    rng = random.Random(chk.seed)

    # ---- (a) exhaustive table through the public transpose() on a part holding all 315 notes
    spellings = [(s, a, o) for s in STEPS for a in range(-2, 3) for o in range(0, 9)]

    def all_notes_part():
        part = score.Part("PX", quarter_duration=1)
        part.add(score.TimeSignature(4, 4), 0)
        for k, (s, a, o) in enumerate(spellings):
            part.add(score.Note(step=s, octave=o, alter=a if a else None, id="n%d" % k, voice=1), k, k + 1)
        part.add(score.Measure(number=1), 0, len(spellings))
        return part

    ivs = sorted(set((k[3], k[4]) for k in table))
    outside = 0
    for (n, q) in ivs:
        for d in ("up", "down"):
            part = all_notes_part()
            use_score = rng.random() < 0.5 if chk.tier == "quick" else None
            variants = [use_score] if use_score is not None else [True, False]
            for as_score in variants:
                arg = score.Score(partlist=[part]) if as_score else part
                try:
                    out = M.transpose(arg, score.Interval(n, q, d))
                except Exception as ex:
                    chk.violation("s2c", "raises", {"interval": [n, q, d], "exc": repr(ex)}, op="transpose",
                                  arg="score" if as_score else "part")
                    continue
                outp = out.parts[0] if as_score else out
                got = {nn.id: nn for nn in outp.notes}
                for k, (s, a, o) in enumerate(spellings):
                    exp = table[(s, a, o, n, q, d)]["res"]
                    chk.count(1, validated=1)
                    if abs(exp[1]) > 2:
                        outside += 1
                        continue
                    chk.nontrivial((s, a, o, n, q, d))
                    g = got.get("n%d" % k)
                    gv = None if g is None else [g.step, g.alter or 0, g.octave]
                    if gv != exp:
                        chk.violation("s2c", "note_spelling", {"note": [s, a, o], "interval": [n, q, d], "expected": exp,
                                                              "got": gv, "argument": "score" if as_score else "part"},
                                      op="transpose", arg="score" if as_score else "part", dir=d)
    chk.part("table", cases=len(table), outside_domain_alter_gt_2=outside)

    # ---- (b) octave-free variant used for chord roots
    nb = 0
    for (s, a, o, n, q, d), exp in table.items():
        if o != 4 or d != "up":
            continue
        nb += 1
        chk.count(1, validated=1)
        try:
            got = list(M.transpose_note(s, a, score.Interval(n, q)))
        except AssertionError:
            got = "REJECT"
        except Exception as ex:
            got = repr(ex)
        want = exp["pc"]
        if abs(want[1]) > 2:
            if got != "REJECT" and got != want:
                chk.violation("s2c", "transpose_note_out_of_range", {"in": [s, a, n, q], "expected": want, "got": got}, op="transpose_note")
        elif got != want:
            chk.violation("s2c", "transpose_note", {"in": [s, a, n, q], "expected": want, "got": got}, op="transpose_note")
    chk.part("transpose_note", cases=nb)

    # ---- (c) frame conditions on generated scores, validated by TLC
    recs = []
    nscores = 40 if chk.tier == "quick" else 400
    for k in range(nscores):
        sc = gen_score.make_score(score, rng, n_parts=rng.randint(1, 2), alters=(-2, -1, 0, 0, 1, 2))
        as_part = rng.random() < 0.5
        arg = sc.parts[0] if as_part else sc
        (n, q) = rng.choice(ivs)
        d = rng.choice(["up", "down"])
        parts_before = [arg] if as_part else list(arg.parts)
        before = [note_recs(score, p) for p in parts_before]
        ids_before = object_ids(score, arg)
        err = ""
        out = None
        try:
            out = M.transpose(arg, score.Interval(n, q, d))
        except Exception as ex:
            err = repr(ex)[:200]
        after = [note_recs(score, p) for p in parts_before]
        if out is not None:
            parts_out = [out] if as_part else list(out.parts)
            result = [note_recs(score, p) for p in parts_out]
            shared = len(ids_before & object_ids(score, out))
        else:
            result = [([], [], "")] * len(before)
            shared = 0
        if len(result) != len(before):
            chk.violation("c2s", "number_of_parts", {"before": len(before), "result": len(result)}, op="transpose")
            continue
        for pi in range(len(before)):
            recs.append({"iv": [n, q], "dir": d, "before": before[pi][0], "arg_after": after[pi][0],
                         "result": result[pi][0], "others_before": before[pi][1], "others_result": result[pi][1],
                         "arg_digest_before": before[pi][2], "arg_digest_after": after[pi][2],
                         "shared_objects": shared, "err": err, "argument": "part" if as_part else "score"})
    # keep only records whose results stay within a double accidental (domain)
    wd = tlc.workdir("c16/frame")
    path = os.path.join(wd, "batch.json")
    with open(path, "w") as f:
        json.dump(recs, f)
    fr = tlc.run("TransposeCheck", "TransposeCheck.cfg", "c16/frame", workers=1, env={"TRACE_FILE": path}, timeout=1200)
    chk.add_mc("TransposeCheck (recorded transpose() calls)", fr)
    import re
    verdicts = {}
    for ln in fr.printed:
        m = re.match(r'<<"VERDICT", (\d+), \{(.*)\}>>', ln)
        if m:
            verdicts[int(m.group(1))] = [c.strip().strip('"') for c in m.group(2).split(",") if c.strip()]
    for i, rec in enumerate(recs, 1):
        chk.count(1, validated=1 if i in verdicts and not verdicts[i] else 0)
        if i not in verdicts:
            chk.machinery("no verdict for record %d" % i)
            break
        for cl in verdicts[i]:
            chk.violation("c2s", cl, {"interval": rec["iv"] + [rec["dir"]], "argument": rec["argument"], "err": rec["err"],
                                      "n_notes": len(rec["before"]),
                                      "first_notes_before": rec["before"][:3], "first_notes_result": rec["result"][:3]},
                          op="transpose", arg=rec["argument"])
        chk.nontrivial(("frame", i)) if len(rec["before"]) > 3 else None
    chk.part("frame", records=len(recs), scores=nscores)
    chk.sample({"kind": "table case", "in": cases[1234]["in"], "expected": cases[1234]["out"]})
    chk.sample({"kind": "frame record (abridged)", "iv": recs[0]["iv"], "dir": recs[0]["dir"], "before": recs[0]["before"][:2],
                "result": recs[0]["result"][:2]})
    chk.assumptions += ["table cases whose result needs more than a double accidental are generated but not judged",
                        "frame conditions: every public attribute of every timed object other than step/alter/octave of pitched notes is compared by digest"]


def entry():
    chk = common.Check("C16")
    try:
        main(chk)
    except tlc.TLCError as ex:
        chk.machinery(str(ex))
    except Exception:
        import traceback
        chk.machinery("exception in check machinery:\n" + traceback.format_exc())
    sys.exit(chk.finish(rule="exhaustive table 7 steps x 5 alterations x 9 octaves x 39 intervals x 2 directions (distinct inputs; "
                             "non-trivial = result within a double accidental) + recorded transpose() calls on generated scores",
                        exhaustive=True))
