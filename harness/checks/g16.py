"""G16 — growth beyond the listed properties: the beat reference of a part (BeatReference.tla).

BeatReference.tla models Part.use_musical_beat / use_notated_beat / set_musical_beat_per_ts next to the addition of time
signatures: the flag, the musical beats of every time signature and (only in the variant Remember = TRUE) the user's
table.  TLC checks Exact, BeatsPositive, ResetGivesDefaults and NotatedIgnoresTables on every behaviour.  With
Remember = FALSE (the class as it is: a table is applied to the time signatures present at the call and forgotten) TLC
refutes SameSignatureSameBeats in three steps - add 6/8, use_musical_beat({"6/8": 3}), add 6/8: two equal time signatures
that count 3 and 2 beats; this run is repeated here and must keep failing.  With Remember = TRUE it holds.  Every
behaviour of the as-is model up to the depth of the tier is replayed into a real Part: the flag, the musical beats of
every time signature, the three values of time_signature_map at every time signature and the beat position of beat_map
at the end of every time signature's stretch must be the model's, and inv_beat_map must lead back.

Not a listed property: not registered in MANIFEST.json, prints DEVIATION lines (never VIOLATION), writes growth/G16.json."""
import json
import os
import sys
import time
import warnings

from .. import common, tlc

Q, SPAN = 12, 72
TABLES = {1: {}, 2: {"6/8": 3}, 3: {"6/8": 6, "3/4": 1}}
KINDS = {1: (6, 8), 2: (3, 4), 3: (9, 8)}


def replay(c, score):
    part = score.Part("P0", quarter_duration=Q)
    tss = []
    for op in c["hist"]:
        with warnings.catch_warnings(record=True) as w:
            warnings.simplefilter("always")
            if op["op"] == "add":
                b, t = KINDS[op["arg"]]
                ts = score.TimeSignature(b, t)
                part.add(ts, len(tss) * SPAN)
                tss.append(ts)
            elif op["op"] == "musical":
                part.use_musical_beat(dict(TABLES[op["arg"]]))
            elif op["op"] == "notated":
                part.use_notated_beat()
            elif op["op"] == "set":
                part.set_musical_beat_per_ts(dict(TABLES[op["arg"]]))
            warned = any("already being used" in str(x.message) for x in w)
        if op["op"] in ("musical", "notated") and warned == bool(op["eff"]):
            return part, tss, "refusal: warned=%s, model effective=%s at %s" % (warned, op["eff"], op)
    return part, tss, None


def main():
    common.setup_repo_path()
    import numpy as np
    from partitura import score
    tier = common.tier()
    t0 = time.time()
    asis = tlc.run("BeatReferenceCases", "BeatReferenceCases.asis.cfg", "g16/asis", workers=1, timeout=600, expect_violation=True)
    if asis.violated != "SameSignatureSameBeats":
        print("MACHINERY-FAILURE growth=G16 the as-is model is expected to violate SameSignatureSameBeats, TLC reports %s" % asis.violated)
        return 2
    rem = tlc.run("BeatReferenceCases", "BeatReferenceCases.remember.cfg", "g16/remember", workers=8, timeout=1200)
    if rem.violated:
        print("MACHINERY-FAILURE growth=G16 the remembering model violates %s" % rem.violated)
        return 2
    r = tlc.run("BeatReferenceCases", "BeatReferenceCases.%s.cfg" % tier, "g16/cases", workers=8, timeout=3000, coverage=True)
    if r.violated:
        print("MACHINERY-FAILURE growth=G16 BeatReferenceCases violates %s" % r.violated)
        return 2
    cases = r.json_lines()
    r.stdout = ""
    deviations, first = {}, {}

    def dev(clause, case, got, want):
        deviations[clause] = deviations.get(clause, 0) + 1
        first.setdefault(clause, {"case": case, "got": got, "want": want})

    n = unequal = 0
    for c in cases:
        n += 1
        try:
            part, tss, err = replay(c, score)
        except Exception as ex:
            dev("raises", c, "%s: %s" % (type(ex).__name__, ex), "no exception")
            continue
        if err:
            dev("refusal", c, err, None)
            continue
        if bool(part._use_musical_beat) != bool(c["flag"]):
            dev("flag", c, part._use_musical_beat, c["flag"])
        got_mb = [int(ts.musical_beats) for ts in tss]
        if got_mb != list(c["mb"]):
            dev("musical_beats", c, got_mb, c["mb"])
        seen = {}
        for k, mb in zip(c["kinds"], c["mb"]):
            if seen.setdefault(tuple(k), mb) != mb:
                unequal += 1
                break
        if not tss:
            continue
        # an end for the last stretch: a note ending there
        part.add(score.Note("C", 4, id="n0", voice=1), len(tss) * SPAN - Q, len(tss) * SPAN)
        try:
            tsm = part.time_signature_map
            for k, ts in enumerate(tss):
                got = [float(v) for v in np.asarray(tsm(k * SPAN)).ravel()]
                want = [float(c["kinds"][k][0]), float(c["kinds"][k][1]), float(c["mb"][k])]
                if got != want:
                    dev("time_signature_map", c, got, want)
                    break
            bm, ibm = part.beat_map, part.inv_beat_map
            for k in range(len(tss)):
                got = float(bm((k + 1) * SPAN))
                if abs(got - c["beat"][k]) > 1e-9:
                    dev("beat_map", c, got, c["beat"][k])
                    break
                back = float(ibm(c["beat"][k]))
                if abs(back - (k + 1) * SPAN) > 1e-9:
                    dev("inv_beat_map", c, back, (k + 1) * SPAN)
                    break
        except Exception as ex:
            dev("maps_raise", c, "%s: %s" % (type(ex).__name__, ex), "no exception")
    out = os.path.join(common.OUT, "growth")
    os.makedirs(out, exist_ok=True)
    ev = {"growth_id": "G16", "spec": "BeatReference.tla / BeatReferenceCases.tla", "tier": tier,
          "tlc": [{"run": "as is (Remember = FALSE), SameSignatureSameBeats", "violated": asis.violated, "distinct_states": asis.distinct},
                  {"run": "Remember = TRUE", "violated": None, "distinct_states": rem.distinct},
                  {"run": "behaviours, as is", "distinct_states": r.distinct, "actions": {k: list(v) for k, v in r.coverage.items()}}],
          "behaviours_replayed": n, "behaviours_with_equal_signatures_counting_differently_in_model_and_class": unequal,
          "finding": "a table of musical beats is applied to the time signatures present at the call and forgotten: an equal time signature added later counts its default (recorded, not repaired)",
          "deviations": deviations, "first_of_each": first, "wall_s": round(time.time() - t0, 1)}
    with open(os.path.join(out, "G16.json"), "w") as f:
        json.dump(ev, f, indent=1, default=str)
    for k, v in sorted(deviations.items()):
        print("DEVIATION growth=G16 clause=%s count=%d first=%s" % (k, v, json.dumps(first[k], default=str)[:600]))
    print("FINDING growth=G16 equal time signatures can count different numbers of musical beats (%d of %d replayed behaviours end so, as the model says)" % (unequal, n))
    print("SUMMARY growth=G16 tier=%s states=%d behaviours=%d deviations=%d wall=%.1fs" % (tier, r.distinct, n, sum(deviations.values()), time.time() - t0))
    return 1 if deviations else 0


def entry():
    try:
        rc = main()
    except tlc.TLCError as ex:
        print("MACHINERY-FAILURE growth=G16 %s" % str(ex)[:1500])
        rc = 2
    except Exception:
        import traceback
        print("MACHINERY-FAILURE growth=G16\n" + traceback.format_exc())
        rc = 2
    sys.exit(rc)
