"""G04 — growth beyond the listed properties: performing a score under a tempo (Rubato.tla).

RubatoCases.tla enumerates small score note arrays with tempo and velocity given as constants or step functions,
checks StartsAtZero, OrderKept, TempoRecovered, LegatoKept, ConstantTempoIsLinear and VelocitiesFromRows on the
clock machine and prints the performed onsets, durations and velocities; every scenario is replayed into
performance_notearray_from_score_notearray with the tempo passed in every form the function accepts (number when
constant, two-column array, callable), which must all give the specified result.

Not a listed property: not registered in MANIFEST.json, prints DEVIATION lines (never VIOLATION), writes growth/G04.json."""
import json
import os
import sys
import time

import numpy as np

from .. import common, tlc


def step_fun(rows):
    bs = [r["b"] for r in rows]
    vs = [r["v"] for r in rows]

    def f(x):
        x = np.atleast_1d(np.asarray(x, dtype=float))
        idx = np.clip(np.searchsorted(bs, x, side="right") - 1, 0, None)
        return np.array(vs, dtype=float)[idx]
    return f


def main():
    common.setup_repo_path()
    from partitura.utils.music import performance_notearray_from_score_notearray as perform
    tier = common.tier()
    t0 = time.time()
    r = tlc.run("RubatoCases", "RubatoCases.%s.cfg" % tier, "g04/mc", workers=4 if tier == "quick" else 8, coverage=True, timeout=7000, heap="6g")
    if r.violated:
        print("MACHINERY-FAILURE growth=G04 Rubato.tla violates its own property %s" % r.violated)
        return 2
    cases = r.json_lines()
    r.stdout = ""
    deviations, first = {}, {}

    def dev(clause, case, got, want):
        deviations[clause] = deviations.get(clause, 0) + 1
        first.setdefault(clause, {"case": case, "got": got, "want": want})

    n = 0
    calls = 0
    for c in cases:
        n += 1
        na = np.array([(x["on"], x["dur"], 60 + k, "n%d" % k) for k, x in enumerate(c["notes"])],
                      dtype=[("onset_beat", "f4"), ("duration_beat", "f4"), ("pitch", "i4"), ("id", "U8")])
        bpm_rows = [dict(b=x["b"], v=60000.0 / x["v"]) for x in c["tempo"]]
        forms = {"array": np.array([[x["b"], x["v"]] for x in bpm_rows], dtype=float), "callable": step_fun(bpm_rows)}
        if len(bpm_rows) == 1:
            forms["number"] = bpm_rows[0]["v"]
        if len(c["vel"]) == 1:
            vel = c["vel"][0]["v"]
        else:
            vel = np.array([[x["b"], x["v"]] for x in c["vel"]], dtype=float)
        want = [[float(x["on"]), float(x["dur"]), x["vel"]] for x in c["out"]]
        legato = any(a["on"] + a["dur"] == b["on"] for a in c["notes"] for b in c["notes"])
        for form, bpm in sorted(forms.items()):
            calls += 1
            try:
                pa = perform(na.copy(), bpm=bpm, velocity=vel)
                got = [[round(float(x["onset_sec"]) * 1000, 2), round(float(x["duration_sec"]) * 1000, 2), int(x["velocity"])] for x in pa]
                ids_ok = [str(x["id"]) for x in pa] == [str(x["id"]) for x in na] and [int(x["pitch"]) for x in pa] == [int(x["pitch"]) for x in na]
            except Exception as ex:
                dev("raises." + form, c, "%s: %s" % (type(ex).__name__, ex), "no exception")
                continue
            if not ids_ok:
                dev("ids_or_pitches." + form, c, [str(x["id"]) for x in pa], [str(x["id"]) for x in na])
            if [g[0] for g in got] != [w[0] for w in want]:
                dev("onsets." + form, c, got, want)
            if [g[1] for g in got] != [w[1] for w in want]:
                dev("durations." + form, c, got, want)
            if [g[2] for g in got] != [w[2] for w in want]:
                dev("velocities." + form, c, got, want)
    # ---- end to end: performance_from_part on a real part (every 25th scenario whose rows are ordered and distinct in time/pitch)
    import partitura.score as S
    from partitura.utils.music import performance_from_part
    parts = 0
    for ci, c in enumerate(cases):
        if ci % 25:
            continue
        try:
            part = S.Part("P1")
            part.set_quarter_duration(0, 1)
            part.add(S.TimeSignature(4, 4), 0)
            for k, x in enumerate(c["notes"]):
                part.add(S.Note(step="CDEFGAB"[k % 7], octave=3 + k // 7, voice=1, staff=1, id="n%d" % k), x["on"], x["on"] + x["dur"])
            bpm_rows = [dict(b=x["b"], v=60000.0 / x["v"]) for x in c["tempo"]]
            first = min(x["on"] for x in c["notes"])
            # (the part's beats are quarters counted from 0: the tempo rows apply as they are)
            pp = performance_from_part(part, bpm=np.array([[x["b"], x["v"]] for x in bpm_rows], dtype=float),
                                       velocity=c["vel"][0]["v"] if len(c["vel"]) == 1 else np.array([[x["b"], x["v"]] for x in c["vel"]], dtype=float))
            got = sorted([str(x["id"]), round(float(x["note_on"]) * 1000, 2), round(float(x["note_off"] - x["note_on"]) * 1000, 2), int(x["velocity"])] for x in pp.notes)
            want = sorted(["n%d" % k, float(o["on"]), float(o["dur"]), o["vel"]] for k, o in enumerate(c["out"]))
            parts += 1
            if got != want:
                dev("performance_from_part", c, got, want)
        except Exception as ex:
            dev("performance_from_part.raises", c, "%s: %s" % (type(ex).__name__, str(ex)[:200]), "no exception")
    out = os.path.join(common.OUT, "growth")
    os.makedirs(out, exist_ok=True)
    ev = {"growth_id": "G04", "spec": "Rubato.tla / RubatoCases.tla", "tier": tier,
          "tlc": [{"distinct_states": r.distinct, "states_generated": r.generated, "depth": r.depth, "wall_s": round(r.wall_s, 1),
                   "actions": {k: list(v) for k, v in r.coverage.items()}}],
          "scenarios_replayed": n, "calls": calls, "parts_performed_end_to_end": parts, "deviations": deviations, "first_of_each": first, "wall_s": round(time.time() - t0, 1)}
    with open(os.path.join(out, "G04.json"), "w") as f:
        json.dump(ev, f, indent=1, default=str)
    for k, v in sorted(deviations.items()):
        print("DEVIATION growth=G04 clause=%s count=%d first=%s" % (k, v, json.dumps(first[k], default=str)[:600]))
    print("SUMMARY growth=G04 tier=%s states=%d scenarios=%d calls=%d deviations=%d wall=%.1fs" % (tier, r.distinct, n, calls, sum(deviations.values()), time.time() - t0))
    return 1 if deviations else 0


def entry():
    try:
        rc = main()
    except tlc.TLCError as ex:
        print("MACHINERY-FAILURE growth=G04 %s" % str(ex)[:1500])
        rc = 2
    except Exception:
        import traceback
        print("MACHINERY-FAILURE growth=G04\n" + traceback.format_exc())
        rc = 2
    sys.exit(rc)
