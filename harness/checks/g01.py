"""G01 — growth beyond the listed properties: time windows (Slices.tla).

SlicesCases.tla enumerates every list of up to three notes on a small grid with every window, checks the
window algebra (ScanIsFilter, OrderedScanIsWhole, InsideWindow, ArrayAgreesWithPart, UnclippedRowsUntouched,
WholeWindowIsIdentity, WindowsCompose, WindowsAddUp) and prints what slice_notearray_by_time and
slice_ppart_by_time must return; every printed scenario is replayed into the two functions.

Not a listed property: the check is not registered in MANIFEST.json, prints DEVIATION lines (never VIOLATION)
and writes growth/G01.json.  Exit 0: the implementation agrees on every scenario; 1: it deviates; 2: machinery."""
import json
import os
import sys
import time

import numpy as np

from .. import common, tlc

UNIT = 0.25     # one grid step in beats / seconds (exact in float32)


def make_array(notes):
    rows = [(n["on"] * UNIT, (n["off"] - n["on"]) * UNIT, 60 + n["id"], "n%d" % n["id"]) for n in notes]
    return np.array(rows, dtype=[("onset_beat", "f4"), ("duration_beat", "f4"), ("pitch", "i4"), ("id", "U8")])


def array_rows(a):
    return [[str(r["id"]), int(r["pitch"]), round(float(r["onset_beat"]) / UNIT, 6), round(float(r["onset_beat"] + r["duration_beat"]) / UNIT, 6)] for r in a]


def main():
    common.setup_repo_path()
    import partitura.performance as P
    from partitura.utils.music import slice_notearray_by_time, slice_ppart_by_time
    tier = common.tier()
    max_t = 3 if tier == "quick" else 4          # MaxT of the two configurations
    t0 = time.time()
    runs = []
    cases = []
    if tier == "quick":
        r = tlc.run("SlicesCases", "SlicesCases.quick.cfg", "g01/mc", workers=4, coverage=True, timeout=1800)
        runs.append(r)
    else:
        import concurrent.futures
        with concurrent.futures.ThreadPoolExecutor(8) as ex:
            runs = list(ex.map(lambda k: tlc.run("SlicesCases", "SlicesCases.thorough.cfg", "g01/mc%d" % k, workers=2, env={"SHARD": str(k)},
                                                 timeout=7000, heap="3g"), range(8)))
    for r in runs:
        if r.violated:
            print("MACHINERY-FAILURE growth=G01 Slices.tla violates its own property %s" % r.violated)
            return 2
        cases += r.json_lines()
        r.stdout = ""
    # the window algebra for one note and all integers: TLAPS proof of SlicesProof.tla (re-checked on every run)
    import re
    import shutil
    import subprocess
    proved = None
    tlapm = shutil.which("tlapm")
    if tlapm is None:
        print("MACHINERY-FAILURE growth=G01 tlapm is not on PATH")
        return 2
    pdir = tlc.workdir("g01/tlaps")
    for m in ("SliceNote.tla", "SlicesProof.tla"):
        shutil.copy(os.path.join(tlc.SPECS, m), pdir)
    pr = subprocess.run([tlapm, "--threads", "4", "--cleanfp", "SlicesProof.tla"], capture_output=True, text=True, timeout=1500, cwd=pdir)
    if pr.returncode != 0:      # a loaded machine can make a back end time out: once more with longer time limits
        pr = subprocess.run([tlapm, "--threads", "4", "--cleanfp", "--stretch", "8", "SlicesProof.tla"], capture_output=True, text=True, timeout=3000, cwd=pdir)
    m = re.search(r"All (\d+) obligations? proved", pr.stdout + pr.stderr)
    shutil.rmtree(pdir, ignore_errors=True)
    if pr.returncode != 0 or not m:
        print("MACHINERY-FAILURE growth=G01 tlapm did not prove SlicesProof.tla:\n%s" % (pr.stdout + pr.stderr)[-1200:])
        return 2
    proved = int(m.group(1))
    deviations = {}
    first = {}
    n = 0

    def dev(clause, case, got, want):
        deviations[clause] = deviations.get(clause, 0) + 1
        if clause not in first:
            first[clause] = {"case": case, "got": got, "want": want}

    for c in cases:
        n += 1
        s, e, clip = c["s"], c["e"], bool(c["clip"])
        # ---- note array
        na = make_array(c["notes"])
        before = na.copy()
        try:
            got = array_rows(slice_notearray_by_time(na, s * UNIT, e * UNIT, clip_onset_duration=clip))
        except Exception as ex:
            got = "%s: %s" % (type(ex).__name__, ex)
        want = [["n%d" % x["id"], 60 + x["id"], float(x["on"]), float(x["off"])] for x in c["array"]]
        if got != want:
            cut = any(x["on"] < s for x in c["notes"] if x["off"] > s)
            dev("array.clip_start" if (clip and cut) else "array", c, got, want)
        if not np.array_equal(na, before):
            dev("array.argument_changed", c, array_rows(na), array_rows(before))
        # ---- performed part (the scan: order of the list as given)
        notes = [dict(id="n%d" % x["id"], midi_pitch=60 + x["id"], note_on=x["on"] * UNIT, note_off=x["off"] * UNIT, velocity=64, track=0, channel=0)
                 for x in c["notes"]]
        controls = [dict(time=k * UNIT, number=64, value=0, track=0, channel=0) for k in range(0, max_t + 1)]
        for reindex in (False, True):
            try:
                tsigs = [dict(time=k * UNIT, beats=3 + k, beat_type=4) for k in range(0, max_t + 1)]
                pp = P.PerformedPart(notes=[dict(x) for x in notes], controls=[dict(x) for x in controls], time_signatures=[dict(x) for x in tsigs],
                                     ppq=480, mpq=500000)
                sl = slice_ppart_by_time(pp, s * UNIT, e * UNIT, clip_note_off=clip, reindex_notes=reindex)
                got = [[str(x["id"]), int(x["midi_pitch"]), round(x["note_on"] / UNIT, 6), round(x["note_off"] / UNIT, 6)] for x in sl.notes]
                gotc = [round(x["time"] / UNIT, 6) for x in sl.controls]
                ticks_ok = all(x["note_on_tick"] == int(round(x["note_on"] * 960)) and x["note_off_tick"] == int(round(x["note_off"] * 960)) for x in sl.notes)
            except Exception as ex:
                got, gotc, ticks_ok = "%s: %s" % (type(ex).__name__, ex), None, True
            src = c["reindexed"] if reindex else c["part"]
            want = [[("n%d" % x["id"]), 60 + c["part"][k]["id"], float(x["on"]), float(x["off"])] for k, x in enumerate(src)]
            if got != want:
                dev("part.reindexed" if reindex else "part", c, got, want)
            wantc = [float(t) for t in c["controls"]]
            if gotc is not None and gotc != wantc:
                dev("part.controls", c, gotc, wantc)
            if gotc is not None:
                # time signatures are events like controls: those inside the window, counted from its start
                gott = [[round(x["time"] / UNIT, 6), x["beats"]] for x in sl.time_signatures]
                wantt = [[float(t), 3 + int(t) + s] for t in c["controls"]]
                if gott != wantt:
                    dev("part.time_signatures", c, gott, wantt)
            if not ticks_ok:
                dev("part.ticks", c, [[x["note_on"], x["note_on_tick"], x["note_off"], x["note_off_tick"]] for x in sl.notes], "ticks = seconds * 960")
    out = os.path.join(common.OUT, "growth")
    os.makedirs(out, exist_ok=True)
    ev = {"growth_id": "G01", "spec": "Slices.tla / SlicesCases.tla", "tier": tier,
          "tlc": [{"distinct_states": r.distinct, "states_generated": r.generated, "depth": r.depth, "wall_s": round(r.wall_s, 1),
                   "actions": {k: list(v) for k, v in r.coverage.items()}} for r in runs],
          "tlaps_obligations_proved": proved, "scenarios_replayed": n, "deviations": deviations, "first_of_each": first, "wall_s": round(time.time() - t0, 1)}
    with open(os.path.join(out, "G01.json"), "w") as f:
        json.dump(ev, f, indent=1, default=str)
    for k, v in sorted(deviations.items()):
        print("DEVIATION growth=G01 clause=%s count=%d first=%s" % (k, v, json.dumps(first[k], default=str)[:500]))
    print("SUMMARY growth=G01 tier=%s states=%d scenarios=%d deviations=%d wall=%.1fs" % (tier, sum(r.distinct for r in runs), n, sum(deviations.values()), time.time() - t0))
    return 1 if deviations else 0


def entry():
    try:
        rc = main()
    except tlc.TLCError as ex:
        print("MACHINERY-FAILURE growth=G01 %s" % str(ex)[:1500])
        rc = 2
    except Exception:
        import traceback
        print("MACHINERY-FAILURE growth=G01\n" + traceback.format_exc())
        rc = 2
    sys.exit(rc)
