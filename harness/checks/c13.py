"""C13 — a piano roll shows exactly the given notes, in their cells, with their velocity.

PianoRoll.tla defines shape, cells (with the collision rule), per-note index rows and the octave fold
as exact functions of the notes and options; TLC checks CellsExactlyCovered, EveryNoteVisibleHasACell,
NeverLessThanOneFrame, WithinShape on every case.  Cases: a family enumerated exhaustively by TLC and
seeded random larger cases (all option combinations) for which TLC is the oracle.  The harness calls
compute_pianoroll / compute_pitch_class_pianoroll / pianoroll_to_notearray and compares cell-exactly."""
import concurrent.futures
import json
import os
import random
import sys

import numpy as np

from .. import common, tlc
from .c12 import uniq

U = 2


def note_array(notes, o, unit):
    fields = [("pitch", "i4"), ("onset_%s" % unit, "f4"), ("duration_%s" % unit, "f4")]
    if o["hasvel"]:
        fields.append(("velocity", "i4"))
    if o["hasch"]:
        fields.append(("channel", "i4"))
    fields.append(("id", "U16"))
    rows = []
    for k, n in enumerate(notes):
        r = [n["p"], n["on"] / U, n["dur"] / U]
        if o["hasvel"]:
            r.append(n["vel"])
        if o["hasch"]:
            r.append(n["ch"])
        r.append("n%d" % k)
        rows.append(tuple(r))
    return np.array(rows, dtype=fields)


def call(M, na, o, unit, **extra):
    kw = dict(time_div=o["td"], onset_only=bool(o["onset_only"]), note_separation=bool(o["sep"]), pitch_margin=o["pm"],
              time_margin=o["tm"], piano_range=bool(o["piano"]), remove_silence=bool(o["rsil"]),
              end_time=None if o["et"] == -1 else o["et"] / U, binary=bool(o["binary"]))
    kw.update(extra)
    return M.compute_pianoroll(na, **kw)


def random_cases(rng, n):
    out = []
    for cid in range(1, n + 1):
        nn = rng.randint(1, 6)
        base = rng.choice([20, 21, 40, 60, 100, 108])
        notes = []
        for _ in range(nn):
            notes.append({"p": min(127, base + rng.choice([0, 0, 1, 2, 7, 12])), "on": rng.randint(0, 12), "dur": rng.randint(0, 7),
                          "vel": rng.randint(1, 127), "ch": rng.choice([0, 0, 1, 9])})
        hasch = rng.randint(0, 1)
        piano = rng.randint(0, 1)
        pm = -1 if piano or rng.random() < 0.6 else rng.randint(0, 3)
        kept = [x for x in notes if not (hasch and x["ch"] == 9)]
        et = -1
        if rng.random() < 0.3 and kept:
            et = max(x["on"] + x["dur"] for x in kept) + rng.choice([-2, 0, 1, 2, 5])
            et = max(et, 0)
        o = {"td": rng.choice([1, 2, 3, 4, 8]), "onset_only": rng.randint(0, 1), "sep": rng.randint(0, 1), "pm": pm,
             "tm": rng.choice([0, 0, 1, 2]), "piano": piano, "rsil": rng.randint(0, 1), "et": et, "binary": rng.randint(0, 1),
             "hasvel": rng.randint(0, 1), "hasch": hasch}
        out.append({"notes": notes, "o": o, "cid": cid})
    return out


def run_gen(args):
    source, tag, env = args
    return tlc.run("PianoRollCases", "PianoRollCases.%s.cfg" % source, tag, workers=1, env=env, expect_violation=True,
                   timeout=3000, heap="3g")


def check_case(chk, M, case, rng):
    i, out = case["in"], case["out"]
    notes, o = i["notes"], i["o"]
    unit = "beat" if (i.get("cid", 0) % 2 == 0) else "sec"
    na = note_array(notes, o, unit)
    sorted_rows = all(a["on"] <= b["on"] for a, b in zip(notes, notes[1:]))

    def report(clause, detail, **attrs):
        chk.violation("s2c", clause, dict(case=i, **detail), replay={"case": i, "expected": out}, op=clause.split(".")[0],
                      rows_sorted=sorted_rows, onset_only=o["onset_only"], **attrs)

    chk.count(1, validated=1)
    chk.nontrivial(json.dumps(i, sort_keys=True))
    try:
        pr, idx = call(M, na, o, unit, return_idxs=True)
        pr2 = call(M, na, o, unit, return_idxs=False)
        raised = None
    except Exception as ex:
        raised = ex
    if out["raises"]:
        if raised is None:
            report("expected_to_raise", {"got_shape": list(pr.shape)})
        return
    if raised is not None:
        report("raises", {"exc": repr(raised)})
        return
    if list(pr.shape) != [out["rows"], out["cols"]]:
        report("shape", {"expected": [out["rows"], out["cols"]], "got": list(pr.shape)})
        return
    dense = np.asarray(pr.todense())
    if (np.asarray(pr2.todense()) != dense).any():
        report("return_idxs_changes_roll", {})
    exp = np.zeros(dense.shape, dtype=int)
    for r, c, v in out["cells"]:
        exp[r, c] = v
    if (exp != dense).any():
        rr, cc = np.argwhere(exp != dense)[0]
        clause = "cells.value" if (exp[rr, cc] != 0 and dense[rr, cc] != 0) else "cells.support"
        report(clause, {"cell": [int(rr), int(cc)], "expected": int(exp[rr, cc]), "got": int(dense[rr, cc])})
    kept = [k for k, n in enumerate(notes) if not (o["hasch"] and n["ch"] == 9)]
    if len(idx) != len(out["idx"]):
        report("index_rows.count", {"expected": len(out["idx"]), "got": len(idx)})
    else:
        for k, (g, e) in enumerate(zip(idx.tolist(), out["idx"])):
            if [int(x) for x in g] != e:
                report("index_rows", {"row": k, "expected": e, "got": [int(x) for x in g]})
                break
    # pitch-class roll = octave fold of the full roll
    if o["pm"] == -1 and not o["piano"] and (chk.tier == "thorough" or i.get("cid", 0) % 3 == 1 or rng.random() < 0.2):
        try:
            kw = dict(time_div=o["td"], onset_only=bool(o["onset_only"]), note_separation=bool(o["sep"]), time_margin=o["tm"],
                      remove_silence=bool(o["rsil"]), end_time=None if o["et"] == -1 else o["et"] / U)
            o_nb = dict(o, binary=0)
            pc = M.compute_pitch_class_pianoroll(na, normalize=False, **kw)
            pcn = M.compute_pitch_class_pianoroll(na, normalize=True, **kw)
            full = np.asarray(call(M, na, o_nb, unit).todense())
            fold = np.zeros((12, full.shape[1]))
            for p in range(full.shape[0]):
                fold[p % 12] += full[p]
            if pc.shape != fold.shape or not np.allclose(pc, fold):
                report("pitch_class_fold", {"shape": list(pc.shape)})
            s = fold.sum(0)
            s[s == 0] = 1
            if not np.allclose(pcn, fold / s):
                report("pitch_class_normalised", {})
            if not o["binary"]:
                for pcl, col, v in out["pc"]:
                    if abs(pc[pcl, col] - v) > 1e-9:
                        report("pitch_class_value", {"cell": [pcl, col], "expected": v, "got": float(pc[pcl, col])})
                        break
        except Exception as ex:
            report("pitch_class.raises", {"exc": repr(ex)})


def decode_cases(chk, M, rng, n):
    """Rolls of grid-aligned, non-touching notes decode back to the notes (pitch, onset, duration, velocity)."""
    for _ in range(n):
        td = rng.choice([1, 2, 4, 8])
        rows = 128 if rng.random() < 0.5 else 88
        notes = []
        for p in rng.sample(range(21, 109), rng.randint(1, 5)):
            t = rng.randint(0, 3)
            for _ in range(rng.randint(1, 3)):
                d = rng.randint(1, 4)
                notes.append((p, t, d, rng.randint(1, 127)))
                t += d + rng.randint(1, 3)      # a silent frame between notes of one pitch
        N = max(t + d for (p, t, d, v) in notes) + rng.randint(0, 2)
        roll = np.zeros((rows, N), dtype=int)
        for p, t, d, v in notes:
            roll[p - (21 if rows == 88 else 0), t:t + d] = v
        chk.count(1, validated=1)
        try:
            from scipy.sparse import csc_matrix
            na = M.pianoroll_to_notearray(roll if rng.random() < 0.5 else csc_matrix(roll), time_div=td, time_unit="sec")
            got = sorted((int(r["pitch"]), round(float(r["onset_sec"]) * td), round(float(r["duration_sec"]) * td), int(r["velocity"])) for r in na)
            if got != sorted(notes):
                chk.violation("s2c", "decode", {"expected": sorted(notes), "got": got, "rows": rows, "time_div": td}, op="pianoroll_to_notearray")
        except Exception as ex:
            chk.violation("s2c", "decode.raises", {"exc": repr(ex)}, op="pianoroll_to_notearray")


def main(chk):
    common.setup_repo_path()
    import partitura.utils.music as M
    rng = random.Random(chk.seed)
    env = {"SMALL": "1"} if chk.tier == "quick" else {}
    jobs = [("enum", "c13/enum%d" % k, dict(env, SHARD=str(k))) for k in range(16)]
    fcs = random_cases(rng, 900 if chk.tier == "quick" else 20000)
    shards = 8
    for k in range(shards):
        wd = tlc.workdir("c13/file%d" % k)
        path = os.path.join(wd, "cases.json")
        with open(path, "w") as f:
            json.dump(fcs[k::shards], f)
        jobs.append(("file", "c13/file%d" % k, {"CASE_FILE": path}))
    with concurrent.futures.ThreadPoolExecutor(16) as ex:
        results = list(ex.map(run_gen, jobs))
    cases = []
    for r in results:
        chk.add_mc("PianoRollCases", r)
        if r.violated:
            chk.machinery("PianoRoll specification violates its own property %s\n%s" % (r.violated, r.error_trace[:1200]))
            return
        cases += uniq(r.json_lines())
    if not cases:
        chk.machinery("no cases")
        return
    for c in cases:
        check_case(chk, M, c, rng)
    decode_cases(chk, M, rng, 200 if chk.tier == "quick" else 3000)
    chk.part("cases", total=len(cases), random_with_tlc_oracle=len(fcs))
    chk.sample(cases[0])
    chk.sample(cases[-1])
    chk.assumptions += ["onsets and durations are multiples of 1/2 time unit (so that rounding to frames matters and is exact in floating point)",
                        "piano_range together with a pitch margin is not generated (the docstring's slicing reading has no meaning there)",
                        "with onset_only the index row of a note designates its onset cell [onset, onset+1)"]


def entry():
    chk = common.Check("C13")
    try:
        main(chk)
    except tlc.TLCError as ex:
        chk.machinery(str(ex))
    except Exception:
        import traceback
        chk.machinery("exception in check machinery:\n" + traceback.format_exc())
    sys.exit(chk.finish(rule="cases = (notes, options); enumerated family by TLC (2 notes x option grid) + seeded random cases with TLC as "
                             "oracle (1..6 notes, all options) + decode round trips; every case is distinct", exhaustive=False))
