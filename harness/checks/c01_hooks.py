def run(chk):
    pass
