"""C01, part 4: timeline events recorded by the env-guarded hook while partitura itself loads and
transforms the repository's fixtures, validated by TLC against TimelineLocal (C2S)."""
import glob
import json
import os
import random

from .. import common, tlc


def workloads(tier, rng):
    import partitura as pt
    import partitura.score as score

    data = os.path.join(common.REPO, "tests", "data")
    files = []
    for pat in ("musicxml/*.xml", "musicxml/*.musicxml", "mei/*.mei", "kern/*.krn", "midi/*.mid", "match/*.match"):
        files += sorted(glob.glob(os.path.join(data, pat)))
    files = [f for f in files if os.path.getsize(f) < (60000 if tier == "quick" else 400000)]
    rng.shuffle(files)
    if tier == "quick":
        files = files[:24]

    def transformers(sc):
        for part in list(sc.parts)[:2]:
            for fn in (lambda p: score.add_measures(p), lambda p: score.tie_notes(p), lambda p: score.find_tuplets(p),
                       lambda p: score.fill_rests(p), lambda p: score.unfold_part_maximal(p),
                       lambda p: score.unfold_part_minimal(p), lambda p: score.sanitize_part(p),
                       lambda p: score.remove_grace_notes(p)):
                try:
                    fn(part)
                except Exception:
                    pass  # only the timeline events are of interest here; other properties judge the functions
        try:
            score.merge_parts(sc.parts)
        except Exception:
            pass

    for f in files:
        def job(f=f):
            if f.endswith(".match"):
                pt.load_match(f, create_score=True)
                return
            sc = pt.load_score(f)
            transformers(sc)
        yield os.path.relpath(f, data), job


def split_traces(events, label):
    """One trace per Part; a trace is cut where the part was changed outside the hooked API (the
    number of points before a call differs from the number after the previous call)."""
    by = {}
    for e in events:
        if "part" in e:
            by.setdefault(e["part"], []).append(e)
    traces = []
    stats = {"parts": 0, "cut_bypass": 0, "no_init": 0, "hook_errors": 0}
    for p, evs in by.items():
        if evs[0].get("op") != "new":
            stats["no_init"] += 1
            continue
        stats["parts"] += 1
        q0 = evs[0]["q0"]
        out = []
        np_prev = 0
        for e in evs[1:]:
            if e["op"] == "hook_error":
                stats["hook_errors"] += 1
                break
            if e["op"] == "new":
                continue
            if e["op"] != "tp" and e.get("pre_np") != np_prev:
                stats["cut_bypass"] += 1
                break
            if e["op"] != "tp":
                np_prev = e["np"]
            out.append(e)
        if out:
            traces.append({"tid": 0, "q0": q0, "events": out, "label": "%s part#%s" % (label, p)})
    return traces, stats


def run(chk):
    common.setup_repo_path()
    from partitura.utils import _verif
    if not getattr(_verif, "ENABLED", False):
        chk.machinery("hooks not enabled (PARTITURA_VERIF=1 must be set before partitura is imported)")
        return
    rng = random.Random(chk.seed + 7)
    traces = []
    totals = {"parts": 0, "cut_bypass": 0, "no_init": 0, "hook_errors": 0, "files": 0, "load_errors": 0}
    cap = 12000 if chk.tier == "quick" else 120000
    nev = 0
    for label, job in workloads(chk.tier, rng):
        _verif.start_recording()
        try:
            job()
        except Exception:
            totals["load_errors"] += 1
        events = _verif.stop_recording()
        tr, st = split_traces(events, label)
        for k, v in st.items():
            totals[k] += v
        totals["files"] += 1
        for t in tr:
            if nev + len(t["events"]) > cap:
                t["events"] = t["events"][: max(0, cap - nev)]
            if t["events"]:
                traces.append(t)
                nev += len(t["events"])
        if nev >= cap:
            break
    for i, t in enumerate(traces):
        t["tid"] = i + 1
    if not traces:
        chk.machinery("hook produced no traces")
        return
    # shard over several TLC processes (trace validation is sequential per trace)
    from .c01 import parse_verdicts, _short
    import concurrent.futures
    nshard = 1 if chk.tier == "quick" else 8
    shards = [[] for _ in range(nshard)]
    for i, t in enumerate(sorted(traces, key=lambda t: -len(t["events"]))):
        shards[i % nshard].append(t)

    def run_shard(k):
        wd = tlc.workdir("c01/hook%d" % k)
        path = os.path.join(wd, "batch.json")
        with open(path, "w") as f:
            json.dump(shards[k], f)
        return tlc.run("TimelineLocalTrace", "TimelineLocal.trace.cfg", "c01/hook%d" % k, workers=1,
                       env={"TRACE_FILE": path}, expect_violation=True, timeout=3400, heap="6g")

    with concurrent.futures.ThreadPoolExecutor(nshard) as ex:
        results = list(ex.map(run_shard, [k for k in range(nshard) if shards[k]]))
    accepted = 0
    bytid = {t["tid"]: t for t in traces}
    for res in results:
        chk.add_mc("TimelineLocalTrace(hook traces)", res, note="trace validation of hook events")
        if res.violated:
            chk.violation("hook", "invariant:" + str(res.violated), {"tlc": res.error_trace[:1500]}, op="trace")
        acc, fails, at = parse_verdicts(res)
        accepted += len(acc)
        for tid, fl in fails.items():
            l, cl = sorted(fl)[0]
            common_cl = set(cl)
            for l2, c2 in fl:
                if l2 == l:
                    common_cl &= set(c2)
            t = bytid[tid]
            ev = t["events"][l - 1]
            chk.violation("hook", sorted(common_cl or cl)[0],
                          {"trace": t["label"], "event_index": l, "event": ev, "failing_clauses": cl,
                           "previous_events": t["events"][max(0, l - 4):l - 1]}, op=ev.get("op"))
    stalled = [t for t in traces if t["tid"] not in set().union(*[parse_verdicts(r)[0] for r in results])
               and t["tid"] not in set().union(*[set(parse_verdicts(r)[1]) for r in results])]
    for t in stalled:
        chk.violation("hook", "not_a_spec_step", {"trace": t["label"], "first_events": t["events"][:3]}, op="trace")
    chk.count(nev, validated=accepted)
    chk.part("hook_traces", traces=len(traces), events=nev, accepted=accepted, **totals)
    chk.sample({"kind": "hook trace (prefix)", "label": traces[0]["label"], "events": traces[0]["events"][:3]})
    for t in traces:
        ops = set(e["op"] for e in t["events"])
        if len(t["events"]) >= 5:
            chk.nontrivial("hook:" + t["label"])
