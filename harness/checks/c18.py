"""C18 — decoding an encoded performance reproduces the performance.

Codec.tla defines, on exact rationals, the relation the performance codec works on: Matched (the
alignment's matches whose ids exist on both sides, in alignment order), Table (ordered by score onset
then pitch), Knots/Probes of the two time maps (one knot per distinct matched score onset, chords by
their mean; linear in between) and Decoded (what decode(encode(x)) must return per matched note).  TLC
checks the relation's own properties, enumerates small triples and evaluates recorded triples; the
harness replays them through get_matched_notes, to_matched_score, get_time_maps_from_alignment and
encode_performance -> decode_performance for the five normalisations and two tempo curves."""
import concurrent.futures
import json
import os
import random
import sys
from fractions import Fraction

import numpy as np

from .. import common, gen_score, tlc
from .c12 import uniq

NORMS = ["beat_period", "beat_period_log", "beat_period_ratio", "beat_period_ratio_log", "beat_period_standardized"]
METHODS = ["average", "derivative"]


def close(a, b, tol=1e-4):
    return abs(a - b) <= tol * max(1.0, abs(a), abs(b))


def run_gen(args):
    source, tag, env = args
    return tlc.run("CodecCases", "CodecCases.%s.cfg" % source, tag, workers=1, env=env, expect_violation=True, timeout=3000, heap="3g")


def score_array(rows):
    return np.array([(r["on"][0] / r["on"][1], r["dur"][0] / r["dur"][1], r["ondiv"], 0, r["pitch"], r["id"]) for r in rows],
                    dtype=[("onset_beat", "f4"), ("duration_beat", "f4"), ("onset_div", "i4"), ("duration_div", "i4"), ("pitch", "i4"), ("id", "U32")])


def perf_array(rows):
    return np.array([(r["on"] / 1000.0, r["dur"] / 1000.0, 60, r["vel"], r["id"]) for r in rows],
                    dtype=[("onset_sec", "f4"), ("duration_sec", "f4"), ("pitch", "i4"), ("velocity", "i4"), ("id", "U32")])


def to_al(al):
    out = []
    for a in al:
        d = {"label": a["label"]}
        if a["label"] in ("match", "deletion", "ornament"):
            d["score_id"] = a["sid"]
        if a["label"] in ("match", "insertion", "ornament"):
            d["performance_id"] = a["pid"]
        out.append(d)
    return out


def make_triple(score, P, rng):
    """seeded random single-part score, note-for-note performance (positive IOIs), alignment with extras"""
    part = gen_score.make_part(score, rng, pid="P1", divs=rng.choice([2, 4, 6, 12]), n_measures=rng.randint(1, 4), pickup=rng.random() < 0.3,
                               ts_change=False, slurs=False, staves=1, voices=rng.choice([1, 2]), max_notes=rng.choice([6, 15, 40]),
                               grace=rng.random() < 0.4, polyphony=rng.random() < 0.3)
    na = part.note_array()
    srows = [dict(id=str(r["id"]), on=Fraction(float(r["onset_beat"])).limit_denominator(96), dur=Fraction(float(r["duration_beat"])).limit_denominator(96),
                  ondiv=int(r["onset_div"]), pitch=int(r["pitch"])) for r in na]
    onsets = sorted(set(r["on"] for r in srows))
    t, base = rng.randint(0, 3000), {}
    prev = None
    for u in onsets:
        if prev is not None:
            t += max(40, int(round(float(u - prev) * rng.choice([300, 500, 800, 1200]) * rng.uniform(0.7, 1.4))))
        base[u] = t
        prev = u
    short = rng.random() < 0.15
    prow, al, k = [], [], 0
    kinds = {"deletions": 0, "insertions": 0, "ornaments": 0, "unknown_ids": 0}
    partial = rng.random() < 0.5
    for r in srows:
        if partial and rng.random() < 0.15:
            al.append(dict(label="deletion", sid=r["id"], pid=""))
            kinds["deletions"] += 1
            continue
        if partial and rng.random() < 0.06:
            prow.append(dict(id="n%d" % k, on=base[r["on"]] + rng.randint(0, 15), dur=rng.randint(80, 200), vel=rng.randint(1, 127)))
            al.append(dict(label="ornament", sid=r["id"], pid="n%d" % k))
            kinds["ornaments"] += 1
            k += 1
        dur = rng.randint(20, 70) if (short and rng.random() < 0.3) else rng.randint(80, 1500)
        prow.append(dict(id="n%d" % k, on=base[r["on"]] + rng.randint(0, 15), dur=dur, vel=rng.randint(1, 127)))
        al.append(dict(label="match", sid=r["id"], pid="n%d" % k))
        k += 1
    if partial:
        for _ in range(rng.randint(0, 3)):
            prow.append(dict(id="n%d" % k, on=rng.randint(0, t + 500), dur=rng.randint(80, 900), vel=rng.randint(1, 127)))
            al.append(dict(label="insertion", sid="", pid="n%d" % k))
            kinds["insertions"] += 1
            k += 1
        if rng.random() < 0.3:
            al.insert(rng.randint(0, len(al)), dict(label="match", sid="zz%d" % k, pid=prow[-1]["id"] if al[-1]["label"] == "insertion" else "qq"))
            kinds["unknown_ids"] += 1
        if rng.random() < 0.2 and kinds["deletions"]:
            d = next(a for a in al if a["label"] == "deletion")
            al.insert(rng.randint(0, len(al)), dict(label="match", sid=d["sid"], pid="qq%d" % k))
            kinds["unknown_ids"] += 1
        if rng.random() < 0.5:
            rng.shuffle(al)
    ppart = P.PerformedPart([dict(id=p["id"], midi_pitch=60, note_on=p["on"] / 1000.0, note_off=(p["on"] + p["dur"]) / 1000.0, velocity=p["vel"])
                             for p in prow], id="pp")
    # pitch of the performed note = pitch of the score note where matched
    return part, ppart, srows, prow, al, kinds, short


def main(chk):
    common.setup_repo_path()
    import partitura.score as score
    import partitura.performance as P
    from partitura.musicanalysis.performance_codec import (get_matched_notes, to_matched_score, get_time_maps_from_alignment,
                                                           encode_performance, decode_performance, TEMPO_NORMALIZATION)
    rng = random.Random(chk.seed)

    def check_relation(cid, sarr_or_part, parr_or_ppart, srows, prows, al, out, report):
        """pairs, table and time maps against TLC's result (all sources)"""
        sna = sarr_or_part if isinstance(sarr_or_part, np.ndarray) else sarr_or_part.note_array()
        pna = parr_or_ppart if isinstance(parr_or_ppart, np.ndarray) else parr_or_ppart.note_array()
        sidx = {str(r["id"]): i for i, r in enumerate(sna)}
        pidx = {str(r["id"]): i for i, r in enumerate(pna)}
        exp_pairs = [(sidx[srows[a - 1]["id"]], pidx[prows[b - 1]["id"]]) for a, b in out["pairs"]]
        try:
            got = get_matched_notes(sna, pna, to_al(al))
            got = [tuple(int(x) for x in row) for row in got] if len(got) else []
            if got != exp_pairs:
                report("matched_notes", {"expected": exp_pairs[:8], "got": got[:8]})
        except Exception as ex:
            report("matched_notes.raises", {"exc": repr(ex)}, exc=type(ex).__name__)
        exp_ids = [srows[a - 1]["id"] for a, _ in out["table"]]
        try:
            m, ids = to_matched_score(sarr_or_part, parr_or_ppart, to_al(al))
            if [str(i) for i in ids] != exp_ids:
                report("matched_table.ids", {"expected": exp_ids[:8], "got": [str(i) for i in ids][:8]})
            else:
                for r, (a, b) in zip(m, out["table"]):
                    if not (close(float(r["p_onset"]), prows[b - 1]["on"] / 1000.0) and int(r["velocity"]) == prows[b - 1]["vel"]
                            and int(r["pitch"]) == srows[a - 1]["pitch"] and close(float(r["onset"]), float(Fraction(*srows[a - 1]["on"])))):
                        report("matched_table.row", {"score_id": srows[a - 1]["id"], "row": [float(x) for x in r]})
                        break
        except Exception as ex:
            unknown = any(a["label"] == "match" and a["pid"] not in pidx for a in al)
            report("matched_table.raises", {"exc": repr(ex)}, exc=type(ex).__name__, match_with_unknown_performance_id=unknown)
        for remove, kn, pr, mono in ((True, out["knots"], out["probes"], out["monotone"]), (False, out["knots_all"], out["probes_all"], out["monotone_all"])):
            if len(kn) < 2:
                continue        # a map needs two points
            try:
                p2s, s2p = get_time_maps_from_alignment(pna, sna, to_al(al), remove_ornaments=remove)
                for which, pts in (("knot", kn), ("between_knots", pr)):
                    for s, p in pts:
                        sv, pv = s[0] / s[1], p[0] / p[1] / 1000.0
                        g = float(s2p(sv))
                        if not close(g, pv):
                            report("time_map.score_to_performance", {"at": which, "score_time": sv, "expected": pv, "got": g, "remove_ornaments": remove})
                            raise StopIteration
                        if mono:
                            g = float(p2s(pv))
                            if not close(g, sv):
                                report("time_map.performance_to_score", {"at": which, "performance_time": pv, "expected": sv, "got": g, "remove_ornaments": remove})
                                raise StopIteration
            except StopIteration:
                pass
            except Exception as ex:
                report("time_map.raises", {"exc": repr(ex), "remove_ornaments": remove}, exc=type(ex).__name__)

    # ---------------- (A) enumerated triples
    nsh = 64
    shards = sorted(rng.sample(range(nsh), 4)) if chk.tier == "quick" else list(range(nsh))
    with concurrent.futures.ThreadPoolExecutor(16) as ex:
        results = list(ex.map(run_gen, [("enum", "c18/enum%d" % s, {"SHARD": str(s), "NSHARDS": str(nsh)}) for s in shards]))
    n_enum = 0
    for r in results:
        chk.add_mc("CodecCases.enum", r)
        if r.violated:
            chk.machinery("Codec violates its own property %s\n%s" % (r.violated, r.error_trace[:1200]))
            return
        for j in uniq(r.json_lines()):
            c, out = j["in"], j["out"]
            n_enum += 1
            chk.count(1, validated=1)
            if len(out["pairs"]) >= 2:
                chk.nontrivial(json.dumps(c, sort_keys=True))

            def report(clause, detail, **attrs):
                chk.violation("s2c", clause, dict(case=c, **detail), replay=c, op=clause.split(".")[0], source="enum", **attrs)
            check_relation(0, score_array(c["score"]), perf_array(c["perf"]), c["score"], c["perf"], c["al"], out, report)
    chk.part("enumerated", triples=n_enum, shards="%d of %d" % (len(shards), nsh))

    # ---------------- (B) seeded random triples
    ncase = 80 if chk.tier == "quick" else 1500
    cases, ctx = [], {}
    tot = {"deletions": 0, "insertions": 0, "ornaments": 0, "unknown_ids": 0}
    for cid in range(1, ncase + 1):
        part, ppart, srows, prows, al, kinds, short = make_triple(score, P, rng)
        for k in kinds:
            tot[k] += kinds[k]
        enc = lambda f: [f.numerator, f.denominator]
        cases.append({"cid": cid, "score": [dict(r, on=enc(r["on"]), dur=enc(r["dur"])) for r in srows], "perf": prows, "al": al})
        ctx[cid] = (part, ppart, [dict(r, on=enc(r["on"]), dur=enc(r["dur"])) for r in srows], prows, al, short)
    nshards = 8
    jobs = []
    for k in range(nshards):
        path = os.path.join(tlc.workdir("c18/file%d" % k), "cases.json")
        with open(path, "w") as f:
            json.dump(cases[k::nshards], f)
        if cases[k::nshards]:
            jobs.append(("file", "c18/file%d" % k, {"CASE_FILE": path}))
    with concurrent.futures.ThreadPoolExecutor(nshards) as ex:
        results = list(ex.map(run_gen, jobs))
    outs = {}
    for r in results:
        chk.add_mc("CodecCases.file", r)
        if r.violated:
            chk.machinery("Codec violates its own property %s on a recorded triple\n%s" % (r.violated, r.error_trace[:1200]))
            return
        for j in uniq(r.json_lines()):
            outs[j["cid"]] = j["out"]
    nconf = 0
    for cid, out in sorted(outs.items()):
        part, ppart, srows, prows, al, short = ctx[cid]
        chk.count(1, validated=1)
        chk.nontrivial(cid)
        replay = {"score": srows, "perf": prows, "al": al}

        def report(clause, detail, **attrs):
            chk.violation("c2s", clause, dict(cid=cid, **detail), replay=replay, op=clause.split(".")[0], source="random", **attrs)
        check_relation(cid, part, ppart, srows, prows, al, out, report)
        if len(out["decoded"]) == 0:
            continue
        exp = {d["id"]: d for d in out["decoded"]}
        # the codec pairs notes through to_matched_score; matches with unknown performance ids are judged there
        al_codec = [a for a in al if not (a["label"] == "match" and a["pid"].startswith("qq"))]
        for norm in NORMS:
            for method in METHODS:
                nconf += 1

                def rep(clause, detail, **attrs):
                    report(clause, dict(normalization=norm, tempo=method, **detail), normalization=norm, tempo=method, **attrs)
                try:
                    params, ids = encode_performance(part, ppart, to_al(al_codec), beat_normalization=norm, tempo_smooth=method)
                except Exception as ex:
                    rep("encode.raises", {"exc": repr(ex)}, exc=type(ex).__name__)
                    continue
                want = ["beat_period", "velocity", "timing", "articulation_log"] + ([] if norm == "beat_period" else list(TEMPO_NORMALIZATION[norm]["param_names"]))
                if list(params.dtype.names) != want:
                    rep("encode.columns", {"expected": want, "got": list(params.dtype.names)})
                constant_tempo = len(set(round(float(x), 5) for x in params["beat_period"])) == 1
                bad = [n for n in params.dtype.names if not np.all(np.isfinite(params[n]))]
                if bad and not (constant_tempo and norm == "beat_period_standardized"):
                    rep("encode.not_finite", {"columns": bad})
                    continue
                if bad:
                    continue      # a constant tempo has no standardised form (division by a zero deviation): not judged
                if [str(i) for i in ids] != [d["id"] for d in out["decoded"]]:
                    rep("encode.snote_ids", {"expected": [d["id"] for d in out["decoded"]][:8], "got": [str(i) for i in ids][:8]})
                    continue
                try:
                    dec = decode_performance(part, params, snote_ids=ids, beat_normalization=norm)
                except Exception as ex:
                    rep("decode.raises", {"exc": repr(ex)}, exc=type(ex).__name__)
                    continue
                got = {str(n["id"]): n for n in dec.notes}
                if sorted(got) != sorted(exp):
                    rep("decode.note_ids", {"expected": sorted(exp)[:8], "got": sorted(got)[:8]})
                    continue
                diffs = sorted(got[i]["note_on"] - exp[i]["on"] / 1000.0 for i in exp)
                shift = diffs[len(diffs) // 2]
                for i, e in exp.items():
                    g = got[i]
                    attrs = dict(grace=e["grace"], short_duration=e["dur"] < 75)
                    if not close(g["note_on"] - shift, e["on"] / 1000.0):
                        rep("decode.onset", {"id": i, "expected": e["on"] / 1000.0, "got": g["note_on"] - shift, "shift": shift}, **attrs)
                        break
                    if not close(g["note_off"] - g["note_on"], e["dur"] / 1000.0):
                        rep("decode.duration", {"id": i, "expected": e["dur"] / 1000.0, "got": g["note_off"] - g["note_on"]}, **attrs)
                    if int(g["velocity"]) != e["vel"]:
                        rep("decode.velocity", {"id": i, "expected": e["vel"], "got": int(g["velocity"])}, **attrs)
                        break
                # the rows of the parameter array belong to the ids they are passed with, whatever their order;
                # the returned alignment pairs every decoded note with its score note
                if norm == NORMS[cid % len(NORMS)]:
                    perm = list(range(len(ids)))
                    rng.shuffle(perm)
                    try:
                        dec2, al2 = decode_performance(part, params[perm], snote_ids=[ids[k] for k in perm], beat_normalization=norm, return_alignment=True)
                        got2 = {str(n["id"]): n for n in dec2.notes}
                        bad = [i for i in got if i not in got2 or not close(got2[i]["note_on"], got[i]["note_on"])
                               or not close(got2[i]["note_off"], got[i]["note_off"]) or got2[i]["velocity"] != got[i]["velocity"]]
                        if bad:
                            rep("decode.depends_on_row_order", {"ids": bad[:5]})
                        if sorted((str(a["score_id"]), str(a["performance_id"])) for a in al2) != sorted((i, i) for i in exp) or any(a["label"] != "match" for a in al2):
                            rep("decode.returned_alignment", {"got": al2[:4]})
                    except Exception as ex:
                        rep("decode.raises", {"exc": repr(ex), "permuted": True}, exc=type(ex).__name__)
    chk.part("random", triples=len(outs), encode_decode_runs=nconf, **tot)
    if cases:
        chk.sample({"cid": cases[0]["cid"], "n_score": len(cases[0]["score"]), "n_perf": len(cases[0]["perf"]), "al_head": cases[0]["al"][:4]})
    chk.assumptions += ["performed times lie on a millisecond grid; one part, ids unique on each side",
                        "comparison rule |a-b| <= 1e-4*max(1,|a|,|b|) (parameters are stored in single precision); onsets after subtracting the median difference",
                        "consecutive distinct score onsets are performed with positive inter-onset intervals (chord spread below the smallest interval)",
                        "a performance with constant tempo has no standardised beat period (zero deviation): that configuration is counted, not judged"]


def entry():
    chk = common.Check("C18")
    try:
        main(chk)
    except tlc.TLCError as ex:
        chk.machinery(str(ex))
    except Exception:
        import traceback
        chk.machinery("exception in check machinery:\n" + traceback.format_exc())
    sys.exit(chk.finish(rule="triples over 3 score notes x 3 performed notes x alignments of <= 3 entries enumerated by TLC (sampled shards in the quick tier) "
                             "and seeded random (score part, performance, alignment) triples x 5 normalisations x 2 tempo curves; "
                             "non-trivial = at least two matched pairs / every random triple", exhaustive=False))
