"""G12 — growth beyond the listed properties: the time fields of a PerformedNote (PerformedNote.tla).

PerformedNote.tla models the validating item assignment of note_on / note_off / sound_off.  With Strict = FALSE (the
class as it is) TLC refutes Ordered (0 <= note_on <= note_off <= sound_off) in one step - note_on := 1 while note_off = 0
is accepted; this run is repeated here and must keep failing.  With Strict = TRUE Ordered holds.  Every behaviour of
length three of the as-is model (NeverNegative, RefusedChangesNothing hold) is replayed into the real class: an
assignment raises ValueError exactly when the model refuses it, a refused assignment changes nothing, and the final
times are the model's - so the class is exactly the as-is model, including the behaviours that leave the note unordered
(a finding that is recorded, not repaired: tightening the validation could break code that moves a note by assigning
its three times in an order that passes through such a state).

Not a listed property: not registered in MANIFEST.json, prints DEVIATION lines (never VIOLATION), writes growth/G12.json."""
import json
import os
import sys
import time

from .. import common, tlc


def main():
    common.setup_repo_path()
    from partitura.performance import PerformedNote
    tier = common.tier()
    t0 = time.time()
    asis = tlc.run("PerformedNote", "PerformedNote.asis.cfg", "g12/asis", workers=1, timeout=600, expect_violation=True)
    if asis.violated != "Ordered":
        print("MACHINERY-FAILURE growth=G12 the as-is model is expected to violate Ordered, TLC reports %s" % asis.violated)
        return 2
    strict = tlc.run("PerformedNote", "PerformedNote.strict.cfg", "g12/strict", workers=2, timeout=600)
    if strict.violated:
        print("MACHINERY-FAILURE growth=G12 the strict model violates %s" % strict.violated)
        return 2
    r = tlc.run("PerformedNoteCases", "PerformedNoteCases.asis.cfg", "g12/cases", workers=4, timeout=3000, coverage=True)
    if r.violated:
        print("MACHINERY-FAILURE growth=G12 PerformedNoteCases violates %s" % r.violated)
        return 2
    cases = r.json_lines()
    r.stdout = ""
    deviations, first = {}, {}

    def dev(clause, case, got, want):
        deviations[clause] = deviations.get(clause, 0) + 1
        first.setdefault(clause, {"case": case, "got": got, "want": want})

    n = 0
    unordered = 0
    for c in cases:
        n += 1
        a, b, s = c["init"]
        try:
            note = PerformedNote(dict(id="n", pitch=60, note_on=a, note_off=b, sound_off=s, velocity=64))
        except Exception as ex:
            dev("constructor_raises", c, "%s: %s" % (type(ex).__name__, ex), "an ordered note is accepted")
            continue
        for op in c["hist"]:
            before = (note["note_on"], note["note_off"], note["sound_off"])
            try:
                note[op["key"]] = op["v"]
                ok = True
            except ValueError:
                ok = False
            except Exception as ex:
                dev("other_exception", c, "%s: %s" % (type(ex).__name__, ex), "ValueError or acceptance")
                ok = None
            if ok is not None and ok != bool(op["ok"]):
                dev("accepted_but_refused_by_the_model" if ok else "refused_but_accepted_by_the_model", c, [op, list(before)], op["ok"])
                break
            if ok is False and (note["note_on"], note["note_off"], note["sound_off"]) != before:
                dev("refused_assignment_changed_the_note", c, [note["note_on"], note["note_off"], note["sound_off"]], list(before))
        else:
            got = [note["note_on"], note["note_off"], note["sound_off"]]
            if got != c["final"]:
                dev("final_times", c, got, c["final"])
            if not (0 <= got[0] <= got[1] <= got[2]):
                unordered += 1
    out = os.path.join(common.OUT, "growth")
    os.makedirs(out, exist_ok=True)
    ev = {"growth_id": "G12", "spec": "PerformedNote.tla / PerformedNoteCases.tla", "tier": tier,
          "tlc": [{"run": "as is (Strict = FALSE)", "violated": asis.violated, "distinct_states": asis.distinct},
                  {"run": "Strict = TRUE", "violated": None, "distinct_states": strict.distinct},
                  {"run": "behaviours of length 3, as is", "distinct_states": r.distinct, "actions": {k: list(v) for k, v in r.coverage.items()}}],
          "behaviours_replayed": n, "behaviours_ending_unordered_in_model_and_class": unordered,
          "finding": "note_on may be assigned a value after note_off, note_off a value after sound_off (recorded, not repaired)",
          "deviations": deviations, "first_of_each": first, "wall_s": round(time.time() - t0, 1)}
    with open(os.path.join(out, "G12.json"), "w") as f:
        json.dump(ev, f, indent=1, default=str)
    for k, v in sorted(deviations.items()):
        print("DEVIATION growth=G12 clause=%s count=%d first=%s" % (k, v, json.dumps(first[k], default=str)[:500]))
    print("FINDING growth=G12 the class accepts assignments that leave a note unordered (%d of %d replayed behaviours end so, as the model says)" % (unordered, n))
    print("SUMMARY growth=G12 tier=%s states=%d behaviours=%d deviations=%d wall=%.1fs" % (tier, r.distinct, n, sum(deviations.values()), time.time() - t0))
    return 1 if deviations else 0


def entry():
    try:
        rc = main()
    except tlc.TLCError as ex:
        print("MACHINERY-FAILURE growth=G12 %s" % str(ex)[:1500])
        rc = 2
    except Exception:
        import traceback
        print("MACHINERY-FAILURE growth=G12\n" + traceback.format_exc())
        rc = 2
    sys.exit(rc)
