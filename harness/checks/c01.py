"""C01 — a part is a consistent time-ordered collection under any edit history.

MC   : TLC checks the Timeline invariants / action properties on the bounded model.
S2C  : every transition of TLC's state graph is replayed on a real Part and the whole projection is
       compared with the successor state TLC computed (including TLC-computed links / quarters);
       simulated long behaviours are replayed without rebuilding (history-dependent hidden state).
C2S  : random edit/query histories executed on a real Part are validated by TLC against
       TimelineTrace (every event must be a Timeline step with the logged post-state; every query
       result must equal the Timeline operator).
HOOK : timeline events recorded (env-guarded hook) while partitura itself loads and transforms the
       repository's fixtures are validated by TLC against TimelineLocal.
"""
import collections
import json
import multiprocessing
import os
import random
import sys
import time

from .. import classtree, common, tl_impl, tlc

NONE = -1
_G = {}


def _key(state):
    return json.dumps(state, sort_keys=True)


# --------------------------------------------------------------------------- queries
def run_query(impl, q, pool):
    """Execute one read-only query on the implementation; return the logged event."""
    score = impl.score
    part = impl.part
    oid_of = {id(o): k for k, o in impl.objs.items()}
    ev = dict(q)
    ev["err"] = 0

    def pairs(it):
        out = []
        for o in it:
            t = (o.end.t if q.get("mode") == "ending" else o.start.t)
            out.append([t, oid_of.get(id(o), "?")])
        return out

    try:
        op = q["op"]
        if op == "iter_all":
            cls = None if q.get("none_cls") else getattr(score, q["cls"])
            kw = {}
            if q["s"] != NONE:
                kw["start"] = q["s"]
            if q["e"] != NONE:
                kw["end"] = q["e"]
            if cls is None:
                ev["res"] = pairs(part.iter_all(None, mode=q["mode"], **kw))
            else:
                ev["res"] = pairs(part.iter_all(cls, include_subclasses=bool(q["sub"]), mode=q["mode"], **kw))
        elif op in ("iter_prev", "iter_next"):
            tp = part.get_point(q["t"])
            cls = getattr(score, q["cls"])
            f = tp.iter_prev if op == "iter_prev" else tp.iter_next
            ev["res"] = [[o.start.t, oid_of.get(id(o), "?")] for o in
                         f(cls, eq=bool(q["eq"]), include_subclasses=bool(q["sub"]))]
        elif op == "first_point":
            ev["res"] = NONE if part.first_point is None else part.first_point.t
        elif op == "last_point":
            ev["res"] = NONE if part.last_point is None else part.last_point.t
        elif op == "get_point":
            p = part.get_point(q["t"])
            ev["res"] = NONE if p is None else p.t
        elif op == "quarter_durations":
            kw = {}
            if q["s"] != NONE:
                kw["start"] = q["s"]
            if q["e"] != NONE:
                kw["end"] = q["e"]
            ev["res"] = [[int(a), int(b)] for a, b in part.quarter_durations(**kw)]
        elif op == "quarter_duration_map":
            ev["res"] = int(part.quarter_duration_map(q["t"]))
    except Exception as ex:
        ev["err"] = 1
        ev["exc"] = repr(ex)[:200]
        ev["res"] = [] if q["op"] in ("iter_all", "iter_prev", "iter_next", "quarter_durations") else NONE
    return ev


def random_query(rng, classes, pts, max_t):
    r = rng.random()
    tsel = lambda: rng.choice([NONE] + list(range(0, max_t + 2)))
    if r < 0.45:
        q = {"op": "iter_all", "cls": rng.choice(classes), "s": tsel(), "e": tsel(),
             "sub": rng.randint(0, 1), "mode": rng.choice(["starting", "ending"])}
        if rng.random() < 0.1:
            q["none_cls"] = 1
            q["cls"] = "TimedObject"
            q["sub"] = 1
        return q
    if r < 0.75 and pts:
        return {"op": rng.choice(["iter_prev", "iter_next"]), "t": rng.choice(pts), "cls": rng.choice(classes),
                "eq": rng.randint(0, 1), "sub": rng.randint(0, 1)}
    if r < 0.8:
        return {"op": "first_point"}
    if r < 0.85:
        return {"op": "last_point"}
    if r < 0.9:
        return {"op": "get_point", "t": rng.randint(0, max_t + 1)}
    if r < 0.95:
        return {"op": "quarter_durations", "s": tsel(), "e": tsel()}
    return {"op": "quarter_duration_map", "t": rng.randint(0, max_t + 1)}


def query_classes(pool_cls, ct):
    """Classes of the pool objects, their superclasses, and one unrelated class."""
    names = set()
    for c in pool_cls:
        for k, v in ct.items():
            if k == c or issubclass(ct[c], v):
                names.add(k)
    names.add("Fermata")
    return sorted(names)


# --------------------------------------------------------------------------- S2C workers
def _s2c_worker(args):
    lo, hi, wseed, nq = args
    score = _G["score"]
    groups = _G["groups"]
    pool = _G["pool"]
    classes = _G["classes"]
    max_t = _G["max_t"]
    rng = random.Random(wseed)
    viols = []
    qtraces = []
    n_edges = 0
    seen_states = set()
    for (sk, ak), targets in groups[lo:hi]:
        s = json.loads(sk)
        a = json.loads(ak)
        try:
            impl = tl_impl.build(score, s, pool)
        except Exception as ex:
            viols.append(("s2c", "build.raises", {"state": s, "exc": repr(ex)}, {"op": "build"}))
            continue
        if sk not in seen_states:
            seen_states.add(sk)
            d = tl_impl.compare(s, tl_impl.project(impl, pool))
            if d:
                viols.append(("s2c", "selfcheck." + d[0][0], {"state": s, "diff": d}, {"op": "build"}))
                continue
            if nq:
                before = tl_impl.project(impl, pool)
                evs = [{"op": "load", "state": {"start": s["start"], "end": s["end"], "pts": sorted(s["pts"]),
                                                  "qtab": sorted(s["qtab"])}}]
                for _ in range(nq):
                    ev = run_query(impl, random_query(rng, classes, sorted(s["pts"]), max_t), pool)
                    ev["unchanged"] = 1 if tl_impl.project(impl, pool) == before else 0
                    evs.append(ev)
                qtraces.append(evs)
        ex = impl.apply(a)
        n_edges += 1
        if ex is not None:
            viols.append(("s2c", "raises", {"state": s, "action": a, "exc": repr(ex)},
                          {"op": a[0], "exc": type(ex).__name__}))
            continue
        targets = [json.loads(t) for t in targets]
        d = tl_impl.compare_any(targets, tl_impl.project(impl, pool))
        if d:
            viols.append(("s2c", d[0][0], {"state": s, "action": a, "expected": targets[0], "diff": d[:4]},
                          {"op": a[0]}))
    return viols, qtraces, n_edges, len(seen_states)


def chosen_walk_edges(edges):
    """In simulation mode TLC evaluates the action constraint for *every* successor of the current
    state before picking one; the behaviour is recovered as the edges whose target is the source of
    the next level.  Returns the chosen edges, each with all same-label targets (non-determinism)."""
    groups = []
    for e in edges:
        if groups and groups[-1][0]["lvl"] == e["lvl"] and groups[-1][0]["s"] == e["s"]:
            groups[-1].append(e)
        else:
            groups.append([e])
    out = []
    for i, g in enumerate(groups):
        nxt = groups[i + 1] if i + 1 < len(groups) and groups[i + 1][0]["lvl"] == g[0]["lvl"] + 1 else None
        if nxt is None:
            continue
        cands = [e for e in g if e["t"] == nxt[0]["s"]]
        if not cands:
            continue
        e = dict(cands[0])
        e["targets"] = [x["t"] for x in g if x["a"] == e["a"]]
        out.append(e)
    return out


def snippet(state, action, pool_cls):
    return ("# replay on the public API (run with PYTHONPATH=/repo)\n"
            "import sys; sys.path.insert(0, '/verif')\n"
            "from harness import common, tl_impl; common.setup_repo_path(); import partitura.score as score\n"
            "s = %r\nimpl = tl_impl.build(score, s, sorted(s['start']))\nprint(impl.apply(%r))\n"
            "print(tl_impl.project(impl, sorted(s['start'])))\n" % (state, action))


# --------------------------------------------------------------------------- C2S random driver
def random_history(rng, score, pool, max_t, quarters, n_ops, classes):
    q0 = rng.choice(quarters)
    impl = tl_impl.Impl(score, quarter=q0)
    events = []
    for _ in range(n_ops):
        r = rng.random()
        cur = tl_impl.project(impl, pool)
        if r < 0.38:
            o = rng.choice(pool)
            s0, e0 = cur["start"][o], cur["end"][o]
            miss = [k for k, v in (("s", s0), ("e", e0)) if v == NONE]
            if not miss:
                a = ["remove", o, rng.choice(["start", "end", "both"])]
            else:
                which = rng.choice([miss, miss[:1], miss[-1:]])
                s = e = NONE
                if "s" in which and "e" in which:
                    s = rng.randint(0, max_t)
                    e = rng.randint(s, max_t)
                elif "s" in which:
                    s = rng.randint(0, e0 if e0 != NONE else max_t)
                else:
                    e = rng.randint(s0 if s0 != NONE else 0, max_t)
                a = ["add", o, s, e]
        elif r < 0.56:
            a = ["remove", rng.choice(pool), rng.choice(["start", "end", "both"])]
        elif r < 0.61:
            a = ["point", rng.randint(0, max_t)]
        elif r < 0.72:
            a = ["setq", rng.choice([0] * 2 + list(range(0, max_t + 1))), rng.choice(quarters)]
        else:
            ev = run_query(impl, random_query(rng, classes, cur["pts"], max_t), pool)
            ev["unchanged"] = 1 if tl_impl.project(impl, pool) == cur else 0
            events.append(ev)
            continue
        ex = impl.apply(a)
        post = tl_impl.project(impl, pool)
        post["err"] = 0 if ex is None else 1
        nprob = len(post["problems"])
        post["problem_list"] = post["problems"][:3]
        post["problems"] = nprob
        del post["pts_backward"]
        ev = {"op": a[0], "post": post}
        if ex is not None:
            ev["exc"] = repr(ex)[:200]
        if a[0] == "add":
            ev.update(o=a[1], s=a[2], e=a[3])
        elif a[0] == "remove":
            ev.update(o=a[1], w=a[2])
        elif a[0] == "point":
            ev.update(t=a[1])
        else:
            ev.update(t=a[1], q=a[2])
        events.append(ev)
        if ex is not None:
            break
    return q0, events


_VERDICT = None


def parse_verdicts(res):
    """Lines printed by the Report constraint: <<"ACCEPT", tid>>, <<"FAIL", tid, l, {..}>>, <<"AT", tid, l>>."""
    import re
    acc = set()
    fails = {}
    at = {}
    for ln in res.printed:
        m = re.match(r'<<"ACCEPT", (\d+)>>', ln)
        if m:
            acc.add(int(m.group(1)))
            continue
        m = re.match(r'<<"AT", (\d+), (\d+)>>', ln)
        if m:
            t, l = int(m.group(1)), int(m.group(2))
            at[t] = max(at.get(t, 0), l)
            continue
        m = re.match(r'<<"FAIL", (\d+), (\d+), \{(.*)\}>>', ln)
        if m:
            t, l = int(m.group(1)), int(m.group(2))
            cl = [c.strip().strip('"') for c in m.group(3).split(",") if c.strip()]
            fails.setdefault(t, []).append((l, cl))
    return acc, fails, at


def validate_batch(chk, name, traces, tag, cfg="Timeline.trace.cfg", module="TimelineTrace", what="c2s"):
    """traces: list of {"tid", "q0", "events"}.  Returns number accepted."""
    if not traces:
        return 0
    wd = tlc.workdir(tag)
    path = os.path.join(wd, "batch.json")
    with open(path, "w") as f:
        json.dump(traces, f)
    res = tlc.run(module, cfg, tag, workers=1, env={"TRACE_FILE": path}, deadlock=True, expect_violation=True,
                  timeout=3000, heap="8g")
    if res.violated:
        chk.violation(what, "invariant:" + str(res.violated), {"tlc": res.error_trace[:1500]}, op="trace")
    acc, fails, at = parse_verdicts(res)
    chk.add_mc(name, res, note="trace validation: states are (trace, position) pairs")
    bytid = {t["tid"]: t for t in traces}
    for t in traces:
        tid = t["tid"]
        if tid in acc:
            continue
        if tid in fails:
            # nondeterministic steps: the event is wrong only if every candidate failed
            l, cl = sorted(fails[tid])[0]
            common_cl = set(cl)
            for l2, c2 in fails[tid]:
                if l2 == l:
                    common_cl &= set(c2)
            ev = t["events"][l - 1]
            clause = sorted(common_cl or cl)[0]
            chk.violation(what, clause, {"trace": tid, "event_index": l, "event": ev, "failing_clauses": cl,
                                         "history": [_short(e) for e in t["events"][:l]], "q0": t.get("q0")},
                          replay={"q0": t.get("q0"), "events": [_short(e) for e in t["events"][:l]]},
                          op=ev.get("op"))
        else:
            l = at.get(tid, 1)
            ev = t["events"][l - 1] if l - 1 < len(t["events"]) else None
            chk.violation(what, "not_a_spec_step", {"trace": tid, "event_index": l, "event": ev,
                                                    "history": [_short(e) for e in t["events"][:l]]},
                          op=(ev or {}).get("op"))
    return len(acc)


def _short(e):
    return {k: v for k, v in e.items() if k not in ("post",)}


# --------------------------------------------------------------------------- main
def main(chk):
    common.setup_repo_path()
    import partitura.score as score
    _, ct = classtree.generate()
    tier = chk.tier
    rng = random.Random(chk.seed)

    # ---- 1. MC
    res = tlc.run("TimelineMC", "Timeline.mc.%s.cfg" % tier, "c01/mc", coverage=True, expect_violation=True,
                  timeout=3000, heap="16g")
    chk.add_mc("Timeline.mc." + tier, res)
    if res.violated:
        chk.machinery("the Timeline specification violates its own property %s:\n%s" % (res.violated, res.error_trace))
        return
    for act in ("DoAdd", "DoRemove", "DoPoint", "DoSetQuarter"):
        if res.coverage.get(act, (0, 0))[1] == 0:
            chk.machinery("vacuous model: action %s never taken" % act)

    # ---- 2. GEN + S2C graph replay
    gen = tlc.run("TimelineMC", "Timeline.gen.%s.cfg" % tier, "c01/gen", workers=1, timeout=3000, heap="16g")
    # (the thorough graph has millions of transitions: lines are parsed one at a time and the successors kept as compact
    #  text, so that the forked replay workers do not each end up with a private copy of a multi-gigabyte object graph)
    groups = collections.OrderedDict()
    pool = None
    for ln in gen.printed:
        ln = ln.strip()
        if not ln.startswith('"'):
            continue
        try:
            e = json.loads(json.loads(ln))
        except Exception:
            continue
        if pool is None:
            pool = sorted(e["s"]["start"])
        groups.setdefault((_key(e["s"]), json.dumps(e["a"])), []).append(json.dumps(e["t"], sort_keys=True))
    if not groups:
        chk.machinery("generation produced no transitions")
        return
    max_t = 2
    groups = list(groups.items())
    gen.printed = []
    gen.stdout = ""
    classes = query_classes([tl_impl.POOL_CLS[o] for o in pool], ct)
    _G.update(score=score, groups=groups, pool=pool, classes=classes, max_t=max_t)
    nproc = min(16, os.cpu_count() or 4)
    chunk = (len(groups) + nproc * 4 - 1) // (nproc * 4)
    jobs = [(i, min(i + chunk, len(groups)), chk.seed * 1000 + k, 4 if tier == "quick" else 8)
            for k, i in enumerate(range(0, len(groups), chunk))]
    ctx = multiprocessing.get_context("fork")
    with ctx.Pool(nproc) as p:
        results = p.map(_s2c_worker, jobs)
    qtraces = []
    n_edges = 0
    n_states = 0
    for viols, qt, ne, ns in results:
        n_edges += ne
        n_states += ns
        qtraces.extend(qt)
        for (what, clause, detail, attrs) in viols:
            detail = dict(detail)
            if "state" in detail and "action" in detail:
                detail["python"] = snippet(detail["state"], detail["action"], None)
            chk.violation(what, clause, detail, replay=detail, **attrs)
    chk.count(n_edges, validated=n_edges)
    chk.part("s2c_graph", transitions_replayed=n_edges, distinct_source_states=n_states,
             generated_by="TLC state graph of Timeline.gen.%s.cfg (every transition)" % tier)
    for (sk, ak), targets in groups:
        a = json.loads(ak)
        chk.nontrivial("edge:" + sk + ak) if json.loads(sk)["pts"] else None
    for (sk, ak), targets in groups[1000:1003]:
        chk.sample({"kind": "s2c transition", "state": json.loads(sk), "action": json.loads(ak), "successor": json.loads(targets[0])})

    # queries on the states of the graph, validated by TLC
    traces = [{"tid": i + 1, "q0": 1, "events": ev} for i, ev in enumerate(qtraces)]
    for t in traces:
        t["q0"] = sorted(t["events"][0]["state"]["qtab"])[0][1]
    nacc = validate_batch(chk, "TimelineTrace(queries on graph states)", traces, "c01/qtrace", what="s2c_query")
    chk.count(sum(len(t["events"]) - 1 for t in traces), validated=nacc)
    chk.part("s2c_queries", query_events=sum(len(t["events"]) - 1 for t in traces), traces_accepted=nacc)

    # ---- 2b. simulated long behaviours replayed without rebuilding
    nsim = 300 if tier == "quick" else 4000
    sim = tlc.run("TimelineMC", "Timeline.sim.cfg", "c01/sim", workers=1, simulate="num=%d" % nsim, depth=40,
                  seed=chk.seed + 1, timeout=3000, heap="8g")
    sedges = chosen_walk_edges(sim.json_lines())
    impl = None
    walks = 0
    steps = 0
    spool = None
    for e in sedges:
        if spool is None:
            spool = sorted(e["s"]["start"])
        if e["lvl"] == 1 or impl is None:
            impl = tl_impl.build(score, e["s"], spool)
            walks += 1
            hist = []
        hist.append(e["a"])
        ex = impl.apply(e["a"])
        steps += 1
        d = [("raises", {"exc": repr(ex)})] if ex is not None else tl_impl.compare_any(e["targets"], tl_impl.project(impl, spool))
        if d:
            chk.violation("s2c_walk", d[0][0], {"history": hist[-12:], "expected": e["t"], "diff": d[:4]},
                          replay={"history": hist, "start_state": None}, op=e["a"][0])
        if d or len(e["targets"]) > 1:
            # after a violation, or when the implementation may hold the other table representation
            impl = tl_impl.build(score, e["t"], spool)
    chk.count(steps, validated=walks)
    chk.part("s2c_walks", behaviours=walks, steps=steps, pool=spool)
    chk.add_mc("Timeline.sim (simulation for walks)", sim)

    # ---- 3. C2S: random histories validated by TLC
    ntr = 250 if tier == "quick" else 3000
    pool12 = ["o%d" % i for i in range(1, 13)]
    classes12 = query_classes([tl_impl.POOL_CLS[o] for o in pool12], ct)
    traces = []
    for i in range(ntr):
        small = rng.random() < 0.5
        pl = pool12[:rng.randint(2, 5)] if small else pool12
        mt = rng.choice([3, 5, 8]) if small else rng.choice([16, 40, 64])
        q0, evs = random_history(rng, score, pool12 if False else pl, mt, [1, 2, 3, 4, 6, 12], rng.randint(10, 60),
                                 classes12)
        # the trace spec quantifies over the whole pool: complete start/end of unused objects
        for ev in evs:
            if "post" in ev:
                for o in pool12:
                    ev["post"]["start"].setdefault(o, NONE)
                    ev["post"]["end"].setdefault(o, NONE)
        traces.append({"tid": i + 1, "q0": q0, "events": evs})
    nacc = validate_batch(chk, "TimelineTrace(random histories)", traces, "c01/c2s", what="c2s")
    nev = sum(len(t["events"]) for t in traces)
    chk.count(nev, validated=nacc)
    chk.part("c2s_random", traces=len(traces), events=nev, accepted=nacc)
    for t in traces:
        ops = tuple(e["op"] for e in t["events"])
        if len(set(ops)) >= 3:
            chk.nontrivial("trace:" + json.dumps([_short(e) for e in t["events"]])[:2000])
    chk.sample({"kind": "c2s trace (prefix)", "q0": traces[0]["q0"], "events": [_short(e) for e in traces[0]["events"][:8]]})

    # ---- 4. hook traces of the repository's own fixtures
    from . import c01_hooks
    c01_hooks.run(chk)

    chk.assumptions += [
        "valid arguments = an endpoint is passed to add() only if the object does not have it yet, start <= end",
        "order of objects inside one time point is not constrained (the statement does not)",
        "the quarter table may or may not keep an entry that became redundant (both are accepted)",
        "TLC and the TLA+ Timeline specification are the oracle; harness build/project are cross-checked by project(build(s)) = s",
    ]


def entry():
    chk = common.Check("C01")
    try:
        main(chk)
    except tlc.TLCError as ex:
        chk.machinery(str(ex))
    except Exception:
        import traceback
        chk.machinery("exception in check machinery:\n" + traceback.format_exc())
    rc = chk.finish(rule="S2C: every transition of TLC's Timeline state graph (distinct (state, action) pairs; non-trivial = "
                         "source state has at least one time point) + simulated behaviours; C2S: random edit/query "
                         "histories (non-trivial = at least 3 different operation kinds); hook traces of fixtures",
                    exhaustive=False)
    sys.exit(rc)
