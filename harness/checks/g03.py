"""G03 — growth beyond the listed properties: missing end times (EndTimes.tla).

EndTimesCases.tla enumerates lists of objects of one class in timeline order, with or without an end, checks
ScanGivesMeaning, EveryoneEnds, GivenEndsKept, WaitingHaveNoEnd and NoOverlapOfFilled on the scan of _set_end_times
and prints the ends every object must have; every scenario is replayed into partitura.score.set_end_times for each
of the five classes the function serves (two classes at a time in one part, which must not influence each other).

Not a listed property: not registered in MANIFEST.json, prints DEVIATION lines (never VIOLATION), writes growth/G03.json."""
import json
import os
import sys
import time

from .. import common, tlc


def main():
    common.setup_repo_path()
    import partitura.score as S
    tier = common.tier()
    t0 = time.time()
    r = tlc.run("EndTimesCases", "EndTimesCases.%s.cfg" % tier, "g03/mc", workers=4, coverage=True, timeout=7000, heap="4g")
    if r.violated:
        print("MACHINERY-FAILURE growth=G03 EndTimes.tla violates its own property %s" % r.violated)
        return 2
    cases = r.json_lines()
    r.stdout = ""
    makers = {"Page": lambda k: S.Page(k + 1), "System": lambda k: S.System(k + 1),
              "ConstantLoudnessDirection": lambda k: S.ConstantLoudnessDirection("f"),
              "ConstantTempoDirection": lambda k: S.ConstantTempoDirection("adagio"),
              "ConstantArticulationDirection": lambda k: S.ConstantArticulationDirection("staccato")}
    names = sorted(makers)
    deviations, first = {}, {}

    def dev(clause, case, got, want):
        deviations[clause] = deviations.get(clause, 0) + 1
        first.setdefault(clause, {"case": case, "got": got, "want": want})

    n = 0
    for ci, c in enumerate(cases):
        a = names[ci % 5]
        b = names[(ci + 1 + (ci // 5) % 4) % 5]
        if a == b:
            b = names[(names.index(a) + 1) % 5]
        n += 1
        try:
            part = S.Part("P1")
            part.set_quarter_duration(0, 1)
            part.add(S.Note(step="C", octave=4, voice=1, id="n0"), 0, c["last"])
            objs = {a: [], b: []}
            for cls in (a, b):
                # the second class gets the scenario in the same order: the two scans must not see each other
                for k, o in enumerate(c["objs"]):
                    x = makers[cls](k)
                    part.add(x, o["s"], None if o["e"] == -1 else o["e"])
                    objs[cls].append(x)
            S.set_end_times(part)
            for cls in (a, b):
                got = [(-1 if x.end is None else x.end.t) for x in objs[cls]]
                if got != c["ends"]:
                    dev("ends", dict(c, cls=cls), got, c["ends"])
                if [x.start.t for x in objs[cls]] != [o["s"] for o in c["objs"]]:
                    dev("starts_changed", dict(c, cls=cls), [x.start.t for x in objs[cls]], [o["s"] for o in c["objs"]])
            if part.last_point.t != c["last"] or part.first_point.t != 0:
                dev("part_extent_changed", c, [part.first_point.t, part.last_point.t], [0, c["last"]])
        except Exception as ex:
            dev("raises", dict(c, cls=[a, b]), "%s: %s" % (type(ex).__name__, ex), "no exception")
    out = os.path.join(common.OUT, "growth")
    os.makedirs(out, exist_ok=True)
    ev = {"growth_id": "G03", "spec": "EndTimes.tla / EndTimesCases.tla", "tier": tier,
          "tlc": [{"distinct_states": r.distinct, "states_generated": r.generated, "depth": r.depth, "wall_s": round(r.wall_s, 1),
                   "actions": {k: list(v) for k, v in r.coverage.items()}}],
          "scenarios_replayed": n, "deviations": deviations, "first_of_each": first, "wall_s": round(time.time() - t0, 1)}
    with open(os.path.join(out, "G03.json"), "w") as f:
        json.dump(ev, f, indent=1, default=str)
    for k, v in sorted(deviations.items()):
        print("DEVIATION growth=G03 clause=%s count=%d first=%s" % (k, v, json.dumps(first[k], default=str)[:600]))
    print("SUMMARY growth=G03 tier=%s states=%d scenarios=%d deviations=%d wall=%.1fs" % (tier, r.distinct, n, sum(deviations.values()), time.time() - t0))
    return 1 if deviations else 0


def entry():
    try:
        rc = main()
    except tlc.TLCError as ex:
        print("MACHINERY-FAILURE growth=G03 %s" % str(ex)[:1500])
        rc = 2
    except Exception:
        import traceback
        print("MACHINERY-FAILURE growth=G03\n" + traceback.format_exc())
        rc = 2
    sys.exit(rc)
