"""C17 — spelling, voice and key estimation are total, well-formed and pitch-preserving.

Estimators.tla states the pre/post-conditions and metamorphic relations (the algorithms are not
re-specified): spelling sounds the MIDI pitch with at most a double accidental and does not depend on
row order; voices are positive, numbered 1..k without gaps, chord mode gives equal (onset, duration)
the same voice; the key is one of the 30 names, invariant under octave shifts and duration scaling,
and moves with a transposition of the input.  Recorded calls on small exhaustive and seeded random
note arrays (score and performance units) are validated by TLC; MIDI files built from the arrays are
imported with load_score_midi and must contain exactly the file's pitches."""
import itertools
import json
import os
import random
import re
import sys

import numpy as np

from .. import common, tlc


def make_na(notes, unit, ids=None):
    on, du = ("onset_beat", "duration_beat") if unit == "score" else ("onset_sec", "duration_sec")
    fields = [("pitch", "i4"), (on, "f4"), (du, "f4"), ("id", "U16")]
    if unit != "score":
        fields.insert(3, ("velocity", "i4"))
        rows = [(p, o / 4.0, d / 4.0, 64, ids[k] if ids else "n%d" % k) for k, (p, o, d) in enumerate(notes)]
    else:
        rows = [(p, o / 4.0, d / 4.0, ids[k] if ids else "n%d" % k) for k, (p, o, d) in enumerate(notes)]
    return np.array(rows, dtype=fields)


def random_notes(rng, n, lo, hi, zero=True):
    notes = []
    t = 0
    for _ in range(n):
        t += rng.choice([0, 0, 1, 2, 4])
        d = rng.choice([0, 1, 2, 4, 8]) if zero else rng.choice([1, 2, 4, 8])
        notes.append((rng.randint(lo, hi), t, d))
    return notes


def main(chk):
    common.setup_repo_path()
    import mido
    import partitura
    from partitura.musicanalysis import estimate_spelling, estimate_voices, estimate_key
    from partitura.io.importmidi import load_score_midi
    rng = random.Random(chk.seed)
    recs = []
    rid = [0]

    def add(rec):
        rid[0] += 1
        rec["rid"] = rid[0]
        rec.setdefault("err", "")
        recs.append(rec)
        return rec

    # ---------------- inputs: small exhaustive + seeded random
    small = []
    for n in (1, 2, 3):
        for ps in itertools.product([60, 61, 71], repeat=n):
            for ons in itertools.product([0, 2], repeat=n):
                for ds in itertools.product([0, 2], repeat=n):
                    small.append([(p, o, d) for p, o, d in zip(ps, ons, ds)])
    rng.shuffle(small)
    small = small[: (150 if chk.tier == "quick" else 1500)]
    nrand = 120 if chk.tier == "quick" else 2000
    rand = [random_notes(rng, rng.choice([1, 2, 5, 12, 40, 150]), 21, 108) for _ in range(nrand)]
    # ---------------- spelling
    for notes in small + rand:
        unit = rng.choice(["score", "perf"])
        # identical rows (same pitch and onset) cannot be told apart after a permutation: one of each is kept
        seen_po = set()
        notes = [x for x in notes if not ((x[0], x[1]) in seen_po or seen_po.add((x[0], x[1])))]
        na = make_na(notes, unit)
        perm = list(range(len(notes)))
        rng.shuffle(perm)
        rec = {"kind": "spell", "pitches": [int(p) for p, _, _ in notes], "out": [], "out2": [], "n": len(notes)}
        try:
            out = estimate_spelling(na)
            rec["out"] = [[str(r["step"]), int(r["alter"]), int(r["octave"])] for r in out]
            out2 = estimate_spelling(na[perm])
            back = [None] * len(notes)
            for j, k in enumerate(perm):
                back[k] = [str(out2[j]["step"]), int(out2[j]["alter"]), int(out2[j]["octave"])]
            rec["out2"] = back
        except Exception as ex:
            rec["err"] = "%s: %s" % (type(ex).__name__, str(ex)[:100])
        add(rec)
    # ---------------- voices (pitches 0..127)
    for notes in small + [random_notes(rng, rng.choice([1, 2, 5, 12, 40]), 0, 127) for _ in range(nrand)]:
        for chord in (0, 1):
            unit = rng.choice(["score", "perf"])
            na = make_na(notes, unit)
            rec = {"kind": "voices", "notes": [[int(o), int(d)] for _, o, d in notes], "chord": chord, "out": [], "n": len(notes),
                   "zero_only": all(d == 0 for _, _, d in notes),
                   "several_zero_at_one_onset": any(v >= 2 for v in __import__("collections").Counter(o for _, o, d in notes if d == 0).values()),
                   "zero_without_later_note": any(d == 0 and not any((o2 > o) or (o2 == o and d2 > 0) for _, o2, d2 in notes)
                                                  for _, o, d in notes)}
            try:
                out = estimate_voices(na, monophonic_voices=not chord)
                rec["out"] = [int(v) for v in out]
            except RecursionError as ex:
                rec["err"] = "RecursionError"
            except Exception as ex:
                rec["err"] = "%s: %s" % (type(ex).__name__, str(ex)[:100])
            add(rec)
    ties = [0]
    # ---------------- key (needs some tonal material: several pitch classes, positive durations)
    for _ in range(nrand):
        notes = random_notes(rng, rng.choice([6, 12, 40, 150]), 36, 84, zero=False)
        if len(set(p % 12 for p, _, _ in notes)) < 4:
            continue
        prof = rng.choice(["krumhansl_kessler", "temperley", "kostka_payne"])
        k = rng.randint(1, 11)
        unit = rng.choice(["score", "perf"])
        rec = {"kind": "key", "name": "", "name_octave": "", "name_scaled": "", "name_transposed": "", "k": k, "profile": prof, "n": len(notes)}
        # numerical ties between the two best keys are not defined by the statement: such inputs are counted, not judged
        try:
            from partitura.musicanalysis.key_identification import _similarity_with_pitch_profile, ks_kid, KRUMHANSL_KESSLER, CMBS, KOSTKA_PAYNE
            prof_m = {"krumhansl_kessler": KRUMHANSL_KESSLER, "temperley": CMBS, "kostka_payne": KOSTKA_PAYNE}[prof]
            cs = np.sort(_similarity_with_pitch_profile(make_na(notes, unit), key_profiles=prof_m))
            if cs[-1] - cs[-2] < 1e-6:
                ties[0] += 1
                continue
        except Exception:
            pass
        try:
            rec["name"] = str(estimate_key(make_na(notes, unit), key_profiles=prof))
            rec["name_octave"] = str(estimate_key(make_na([(p + 12 * (1 if p < 90 else -1), o, d) for p, o, d in notes], unit), key_profiles=prof))
            rec["name_scaled"] = str(estimate_key(make_na([(p, o * 2, d * 2) for p, o, d in notes], unit), key_profiles=prof))
            rec["name_transposed"] = str(estimate_key(make_na([(p + k, o, d) for p, o, d in notes], unit), key_profiles=prof))
        except Exception as ex:
            rec["err"] = "%s: %s" % (type(ex).__name__, str(ex)[:100])
        add(rec)
    # ---------------- MIDI files built from arrays -> score importer
    for _ in range(40 if chk.tier == "quick" else 400):
        notes = [(p, o, max(d, 1)) for p, o, d in random_notes(rng, rng.choice([3, 10, 30]), 21, 108)]
        # no overlapping equal pitches
        seen = {}
        clean = []
        for p, o, d in sorted(notes, key=lambda x: x[1]):
            if seen.get(p, -1) <= o:
                clean.append((p, o, d))
                seen[p] = o + d
        mf = mido.MidiFile(ticks_per_beat=4)
        tr = mido.MidiTrack()
        mf.tracks.append(tr)
        evs = []
        for p, o, d in clean:
            evs.append((o, 1, mido.Message("note_on", note=p, velocity=64)))
            evs.append((o + d, 0, mido.Message("note_off", note=p, velocity=0)))
        evs.sort(key=lambda e: (e[0], e[1]))
        last = 0
        for t, _, m in evs:
            tr.append(m.copy(time=t - last))
            last = t
        rec = {"kind": "midi", "file_pitches": sorted(p for p, _, _ in clean), "score_pitches": [], "n": len(clean)}
        try:
            sc = load_score_midi(mf)
            rec["score_pitches"] = sorted(int(n.midi_pitch) for p in sc.parts for n in p.notes_tied)
        except Exception as ex:
            rec["err"] = "%s: %s" % (type(ex).__name__, str(ex)[:100])
        add(rec)
    wd = tlc.workdir("c17/trace")
    import concurrent.futures
    shards = 8
    jobs = []
    for k in range(shards):
        path = os.path.join(tlc.workdir("c17/trace%d" % k), "batch.json")
        with open(path, "w") as f:
            json.dump(recs[k::shards], f)
        jobs.append(("c17/trace%d" % k, path))

    def run(a):
        return tlc.run("Estimators", "Estimators.cfg", a[0], workers=1, env={"TRACE_FILE": a[1]}, timeout=3000, heap="4g")
    with concurrent.futures.ThreadPoolExecutor(shards) as ex:
        results = list(ex.map(run, jobs))
    verdicts = {}
    for r in results:
        chk.add_mc("Estimators (recorded calls)", r)
        for ln in r.printed:
            m = re.match(r'<<"VERDICT", (\d+), \{(.*)\}>>', ln)
            if m:
                verdicts[int(m.group(1))] = [c.strip().strip('"') for c in m.group(2).split(",") if c.strip()]
    kinds = {}
    for rec in recs:
        kinds[rec["kind"]] = kinds.get(rec["kind"], 0) + 1
        v = verdicts.get(rec["rid"])
        chk.count(1, validated=1 if v == [] else 0)
        if v is None:
            chk.machinery("no verdict for record %d" % rec["rid"])
            break
        if rec["n"] >= 3:
            chk.nontrivial(rec["rid"])
        for cl in v:
            attrs = {}
            if rec["kind"] == "voices":
                attrs = {"zero_only": rec["zero_only"], "zero_without_later_note": rec["zero_without_later_note"],
                         "several_zero_at_one_onset": rec["several_zero_at_one_onset"]}
            chk.violation("c2s", rec["kind"] + "." + cl, {k: (val if not isinstance(val, list) or len(val) < 14 else val[:14]) for k, val in rec.items()},
                          replay=rec, op=rec["kind"], exc=rec["err"].split(":")[0], **attrs)
    chk.part("records", key_inputs_with_numerical_tie_not_judged=ties[0], **kinds)
    chk.sample({k: v for k, v in recs[3].items()})
    chk.assumptions += ["key estimation is judged on inputs with at least four pitch classes and positive durations (numerical ties between keys are not defined by the statement)",
                        "times lie on a grid of quarter units / quarter seconds"]


def entry():
    chk = common.Check("C17")
    try:
        main(chk)
    except tlc.TLCError as ex:
        chk.machinery(str(ex))
    except Exception:
        import traceback
        chk.machinery("exception in check machinery:\n" + traceback.format_exc())
    sys.exit(chk.finish(rule="recorded estimator calls on small exhaustive arrays (1-3 notes over 3 pitches x 2 onsets x zero/non-zero durations) "
                             "and seeded random arrays (1..150 rows, both unit systems, permutations, octave shifts, scalings, transpositions, "
                             "three key profiles, both voice modes) + MIDI files; non-trivial = at least 3 notes", exhaustive=False))
