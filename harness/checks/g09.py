"""G09 — growth beyond the listed properties: collapsing consecutive rests in rest arrays (Collapse.tla).

CollapseCases.tla enumerates rest arrays in two voices (rests of a voice do not overlap), lets a rest absorb the rest of
its voice that starts where it ends, in every order, and checks TimePreserved, SurvivorsKeepPlace, SameSilence and
NothingLeftToJoin; every settled state is printed (one per array: the order does not matter) and replayed into
Part.rest_array(collapse=True) on a part with those rests (grid step an eighth, 4 divisions per quarter, 8/8 so that
beats, quarters and divisions are three different numbers): the rows must be the surviving rests with the combined
duration in all three units, and the plain rest array must be unaffected.  Every third array also as a list of three parts through
rest_array_from_part_list (ids prefixed with the part number, collapsed or not).

Not a listed property: not registered in MANIFEST.json, prints DEVIATION lines (never VIOLATION), writes growth/G09.json."""
import json
import os
import sys
import time

from .. import common, tlc


def main():
    common.setup_repo_path()
    import partitura.score as S
    tier = common.tier()
    t0 = time.time()
    r = tlc.run("CollapseCases", "CollapseCases.%s.cfg" % tier, "g09/mc", workers=8, coverage=True, timeout=7000, heap="4g")
    if r.violated:
        print("MACHINERY-FAILURE growth=G09 Collapse.tla violates its own property %s" % r.violated)
        return 2
    seen = {}
    for j in r.json_lines():
        seen.setdefault(json.dumps(j["given"]), set()).add(json.dumps(sorted(j["rows"], key=lambda x: x["id"])))
    r.stdout = ""
    if any(len(v) != 1 for v in seen.values()):
        print("MACHINERY-FAILURE growth=G09 an array with more than one settled state: the order of absorptions matters")
        return 2
    deviations, first = {}, {}

    def dev(clause, case, got, want):
        deviations[clause] = deviations.get(clause, 0) + 1
        first.setdefault(clause, {"case": case, "got": got, "want": want})

    n = 0
    for key, outs in seen.items():
        n += 1
        given = json.loads(key)
        rows = json.loads(next(iter(outs)))
        c = {"given": given, "rows": rows}
        try:
            part = S.Part("P1")
            part.set_quarter_duration(0, 4)
            part.add(S.TimeSignature(8, 8), 0)
            part.add(S.Measure(number=1), 0, 16)
            part.add(S.Measure(number=2), 16, 32)
            part.add(S.Note(step="C", octave=4, voice=3, staff=1, id="n0"), 0, 32)
            for x in given:
                part.add(S.Rest(voice=x["voice"], staff=1, id="r%d" % x["id"]), 2 * x["on"], 2 * (x["on"] + x["dur"]))
            plain_before = part.rest_array()
            ra = part.rest_array(collapse=True)
            plain_after = part.rest_array()
        except Exception as ex:
            dev("raises", c, "%s: %s" % (type(ex).__name__, str(ex)[:200]), rows)
            continue
        got = sorted([str(x["id"]), int(x["voice"]), int(x["onset_div"]), int(x["duration_div"]), float(x["onset_beat"]), float(x["duration_beat"]),
                      float(x["onset_quarter"]), float(x["duration_quarter"])] for x in ra)
        want = sorted(["r%d" % x["id"], x["voice"], 2 * x["on"], 2 * x["dur"], float(x["on"]), float(x["dur"]), x["on"] / 2.0, x["dur"] / 2.0] for x in rows)
        if [g[:4] for g in got] != [w[:4] for w in want]:
            dev("rows_in_divisions", c, got, want)
        elif [g[:6] for g in got] != [w[:6] for w in want]:
            dev("rows_in_beats", c, got, want)
        elif got != want:
            dev("rows_in_quarters", c, got, want)
        if plain_before.tolist() != plain_after.tolist():
            dev("plain_rest_array_changed", c, plain_after.tolist(), plain_before.tolist())
        # ---- the rest array of a list of parts (voice 1 in part A, voice 2 in part B, and part A once more): the rows of
        #      the parts with P00_ / P01_ / P02_ before the ids, collapsed or not
        if n % 3 == 0:
            try:
                from partitura.utils.music import rest_array_from_part_list
                parts = []
                for v in (1, 2, 1):
                    q = S.Part("Q%d" % len(parts))
                    q.set_quarter_duration(0, 4)
                    q.add(S.TimeSignature(8, 8), 0)
                    q.add(S.Note(step="C", octave=4, voice=3, staff=1, id="n0"), 0, 32)
                    for x in given:
                        if x["voice"] == v:
                            q.add(S.Rest(voice=v, staff=1, id="r%d" % x["id"]), 2 * x["on"], 2 * (x["on"] + x["dur"]))
                    parts.append(q)
                for coll in (False, True):
                    la = rest_array_from_part_list(parts, collapse=coll)
                    gotl = sorted([str(x["id"]), int(x["voice"]), int(x["onset_div"]), int(x["duration_div"])] for x in la)
                    src = rows if coll else given
                    wantl = sorted(["P%02d_r%d" % (k, x["id"]), x["voice"], 2 * x["on"], 2 * x["dur"]] for k, v in enumerate((1, 2, 1)) for x in src if x["voice"] == v)
                    if gotl != wantl:
                        dev("list_of_parts.rows" + (".collapsed" if coll else ""), c, gotl, wantl)
            except Exception as ex:
                dev("list_of_parts.raises", c, "%s: %s" % (type(ex).__name__, str(ex)[:200]), "no exception")
    out = os.path.join(common.OUT, "growth")
    os.makedirs(out, exist_ok=True)
    ev = {"growth_id": "G09", "spec": "Collapse.tla / CollapseCases.tla", "tier": tier,
          "tlc": [{"distinct_states": r.distinct, "states_generated": r.generated, "depth": r.depth, "wall_s": round(r.wall_s, 1),
                   "actions": {k: list(v) for k, v in r.coverage.items()}}],
          "arrays_replayed": n, "settled_states_per_array": 1, "deviations": deviations, "first_of_each": first, "wall_s": round(time.time() - t0, 1)}
    with open(os.path.join(out, "G09.json"), "w") as f:
        json.dump(ev, f, indent=1, default=str)
    for k, v in sorted(deviations.items()):
        print("DEVIATION growth=G09 clause=%s count=%d first=%s" % (k, v, json.dumps(first[k], default=str)[:700]))
    print("SUMMARY growth=G09 tier=%s states=%d arrays=%d deviations=%d wall=%.1fs" % (tier, r.distinct, n, sum(deviations.values()), time.time() - t0))
    return 1 if deviations else 0


def entry():
    try:
        rc = main()
    except tlc.TLCError as ex:
        print("MACHINERY-FAILURE growth=G09 %s" % str(ex)[:1500])
        rc = 2
    except Exception:
        import traceback
        print("MACHINERY-FAILURE growth=G09\n" + traceback.format_exc())
        rc = 2
    sys.exit(rc)
