"""C20 — exports, views and analyses never modify their argument and are repeatable; containers are
re-entrant.

Containers.tla : iterators with independent cursors; TLC checks YieldsInOrder, ExhaustedMeansAll,
                 IndependentCursors, ReadOnlyLenGetItem and generates interleaved schedules which are
                 replayed on real Score / Performance objects (S2C).
ObserverTrace  : recorded call sequences (every read-only entry point, once, twice, in shuffled
                 order, interleaved with documented in-place operations) are validated by TLC: an
                 observer leaves the fingerprint of its argument unchanged and repeats its result."""
import io
import json
import os
import random
import re
import sys
import tempfile

import numpy as np

from .. import common, gen_score, proj, tlc
from .c01 import chosen_walk_edges


def digest_result(score, res):
    import partitura.performance as performance
    if isinstance(res, np.ndarray):
        return proj.digest([str(res.dtype), res.shape, res.tobytes().hex()[:200000]])
    if isinstance(res, (bytes, str)):
        return proj.digest(res if isinstance(res, str) else res.hex())
    if isinstance(res, score.Part):
        return proj.digest(proj.project_part(res, exclude=("Segment",)))
    if isinstance(res, score.Score):
        return proj.digest(proj.project_score(res, exclude=("Segment",)))
    if isinstance(res, (list, tuple)):
        return proj.digest([digest_result(score, r) for r in res])
    if hasattr(res, "tocsr") or hasattr(res, "toarray"):
        return proj.digest(res.toarray().tolist())
    if hasattr(res, "tracks"):  # mido.MidiFile
        return proj.digest([[str(m) for m in tr] for tr in res.tracks])
    if hasattr(res, "lines"):  # MatchFile
        return proj.digest([str(l) for l in res.lines])
    return proj.digest(repr(res))


def score_observers(score, M, pt):
    """name -> callable(arg) for the read-only entry points on a Score."""
    import partitura
    from partitura.musicanalysis import estimate_spelling, estimate_voices, estimate_key

    def xml(sc):
        return partitura.save_musicxml(sc, out=None)

    def midi(sc):
        return partitura.save_score_midi(sc, out=None)

    def maps(sc):
        out = []
        for p in sc.parts:
            T = p.last_point.t
            ts = np.arange(0, T + 1)
            out.append([p.beat_map(ts), p.quarter_map(ts), p.time_signature_map(ts), p.key_signature_map(ts),
                        p.measure_map(ts[:-1]), p.measure_number_map(ts[:-1]), p.quarter_duration_map(ts)])
        return out

    obs = {
        "save_musicxml": xml,
        "save_score_midi": midi,
        "note_array": lambda sc: sc.note_array(include_pitch_spelling=True, include_key_signature=True,
                                               include_time_signature=True, include_grace_notes=True, include_staff=True),
        "part_note_array": lambda sc: [p.note_array() for p in sc.parts],
        "rest_array": lambda sc: [p.rest_array() for p in sc.parts],
        "pianoroll": lambda sc: M.compute_pianoroll(sc.parts[0]),
        "maps": maps,
        "pretty": lambda sc: [p.pretty() for p in sc.parts],
        "unfold_maximal": lambda sc: score.unfold_part_maximal(sc),
        "unfold_minimal": lambda sc: score.unfold_part_minimal(sc),
        "iter_unfolded": lambda sc: list(score.iter_unfolded_parts(sc.parts[0])),
        "estimate_spelling": lambda sc: estimate_spelling(sc.parts[0]),
        "estimate_voices": lambda sc: estimate_voices(sc.parts[0]),
        "estimate_key": lambda sc: estimate_key(sc.parts[0]),
        "transpose": lambda sc: M.transpose(sc, score.Interval(3, "M")),
        "len_getitem_iter": lambda sc: [len(sc), [p.id for p in sc], sc[0].id],
    }
    return obs


def perf_observers(P, M):
    import partitura
    return {
        "save_performance_midi": lambda pf: partitura.save_performance_midi(pf, out=None),
        "perf_note_array": lambda pf: pf.note_array(),
        "perf_pianoroll": lambda pf: M.compute_pianoroll(pf.performedparts[0]),
        "num_tracks": lambda pf: pf.num_tracks,
        "len_getitem_iter": lambda pf: [len(pf), [p.id for p in pf], pf[0].id],
    }


def array_observers(M):
    def sl(na, a, b):
        u = M.get_time_units_from_note_array(na)[0]
        lo, hi = float(na[u].min()), float((na[u] + na[u.replace("onset", "duration")]).max())
        return M.slice_notearray_by_time(na, lo + a * (hi - lo), lo + b * (hi - lo))
    return {
        "slice_all": lambda na: sl(na, 0.0, 0.8),
        "slice_mid": lambda na: sl(na, 0.3, 0.6),
        "slice_noclip": lambda na: M.slice_notearray_by_time(na, 0, 1, clip_onset_duration=False),
        "array_pianoroll": lambda na: M.compute_pianoroll(na),
        "array_pianoroll_idx": lambda na: M.compute_pianoroll(na, return_idxs=True, time_div=2)[1],
        "ensure_notearray": lambda na: M.ensure_notearray(na),
        "pitch_class_roll": lambda na: M.compute_pitch_class_pianoroll(na),
    }


def make_perf(P, rng):
    parts = []
    for k in range(rng.randint(1, 3)):
        notes = []
        t = 0.0
        for i in range(rng.randint(2, 8)):
            on = t + rng.choice([0.0, 0.25, 0.5])
            off = on + rng.choice([0.25, 0.5, 1.0])
            notes.append(dict(id="p%dn%d" % (k, i), midi_pitch=rng.randint(40, 90), note_on=on, note_off=off,
                              velocity=rng.randint(20, 100), track=k, channel=rng.randint(0, 3)))
            t = on
        controls = [dict(number=64, time=rng.randint(0, 8) * 0.25, value=rng.choice([0, 127]), track=k, channel=0)
                    for _ in range(rng.randint(0, 3))]
        parts.append(P.PerformedPart(notes, id="pp%d" % k, part_name="pp%d" % k, controls=controls))
    return P.Performance(id="perf", performedparts=parts)


INPLACE_OPS = {"add_measures", "tie_notes", "find_tuplets", "fill_rests", "use_musical_beat", "use_notated_beat",
               "add_object", "remove_object", "merge_parts_inplace"}      # as in ObserverTrace.tla


def add_repeat_structure(score, part, rng):
    ms = [m for m in part.iter_all(score.Measure)]
    if len(ms) >= 2:
        part.add(score.Repeat(), ms[0].start.t, ms[1].start.t)
        if rng.random() < 0.6:
            part.add(score.DaCapo(), ms[-1].end.t)
            part.add(score.Fine(), ms[1].start.t)


def main(chk):
    common.setup_repo_path()
    import partitura
    import partitura.score as score
    import partitura.performance as P
    import partitura.utils.music as M
    rng = random.Random(chk.seed)

    # ---- containers: model checking + schedules replayed on real objects
    mc = tlc.run("Containers", "Containers.mc.cfg", "c20/mc", coverage=True, expect_violation=True)
    chk.add_mc("Containers.mc", mc)
    # unbounded safety of the cursor core: Apalache discharges the inductive invariant of ContainersInd.tla
    #   Init => IndInv,   IndInv /\ Next => IndInv',   IndInv => YieldsInOrder /\ ExhaustedMeansAll
    import shutil
    import subprocess
    apa = shutil.which("apalache-mc")
    if apa is None:
        chk.machinery("apalache-mc is not on PATH")
    else:
        obligations = [("initiation", ["--init=Init", "--inv=IndInv", "--length=0"]), ("consecution", ["--init=IndInit", "--inv=IndInv", "--length=1"]),
                       ("safety", ["--init=IndInit", "--inv=Safety", "--length=0"])]
        outdir = tlc.workdir("c20/apalache")
        done = {}
        for name, args in obligations:
            pr = subprocess.run([apa, "check", "--cinit=CInit"] + args + ["--out-dir=" + outdir, os.path.join(tlc.SPECS, "ContainersInd.tla")],
                                capture_output=True, text=True, timeout=900, cwd=outdir)
            done[name] = "EXITCODE: OK" in pr.stdout
            if not done[name]:
                chk.machinery("Apalache did not discharge the %s obligation of ContainersInd.IndInv:\n%s" % (name, pr.stdout[-800:]))
        chk.part("unbounded_core", apalache_inductive_invariant=done)
        shutil.rmtree(outdir, ignore_errors=True)
    # the same obligations for every natural NParts and every set of iterators: the TLAPS proof of ContainersProof.tla
    tlapm = shutil.which("tlapm")
    if tlapm is None:
        chk.machinery("tlapm is not on PATH")
    else:
        pdir = tlc.workdir("c20/tlaps")
        for m in ("ContainersInd.tla", "ContainersProof.tla"):
            shutil.copy(os.path.join(tlc.SPECS, m), pdir)
        pr = subprocess.run([tlapm, "--threads", "4", "--cleanfp", "ContainersProof.tla"], capture_output=True, text=True, timeout=1500, cwd=pdir)
        if pr.returncode != 0:      # a loaded machine can make a back end time out: once more with longer time limits
            pr = subprocess.run([tlapm, "--threads", "4", "--cleanfp", "--stretch", "8", "ContainersProof.tla"], capture_output=True, text=True, timeout=3000, cwd=pdir)
        out = pr.stdout + pr.stderr
        m = re.search(r"All (\d+) obligations? proved", out)
        if pr.returncode != 0 or not m:
            chk.machinery("tlapm did not prove ContainersProof.tla:\n%s" % out[-1200:])
        else:
            chk.part("unbounded_core", tlaps_obligations_proved=int(m.group(1)), tlaps_theorem="Spec => []Safety for NParts in Nat and any Iters")
        shutil.rmtree(pdir, ignore_errors=True)
    if mc.violated:
        chk.machinery("Containers specification violates its own property: %s" % mc.violated)
        return
    nsched = 0
    for n in (1, 2, 3):
        sim = tlc.run("Containers", "Containers.sim%d.cfg" % n, "c20/sim%d" % n, workers=1,
                      simulate="num=%d" % (60 if chk.tier == "quick" else 600), depth=14, seed=chk.seed + n)
        chk.add_mc("Containers.sim%d" % n, sim)
        edges = chosen_walk_edges(sim.json_lines())
        for kind in ("score", "performance"):
            cont = None
            its = {}
            hist = []
            skip = False
            for e in edges:
                if e["lvl"] == 1:
                    skip = False
                if skip:
                    continue
                if e["lvl"] == 1 or cont is None:
                    if kind == "score":
                        cont = gen_score.make_score(score, rng, n_parts=n, n_measures=1, max_notes=3)
                        items = list(cont.parts)
                    else:
                        cont = make_perf(P, rng)
                        while len(cont.performedparts) != n:
                            cont = make_perf(P, rng)
                        items = list(cont.performedparts)
                    its = {}
                    hist = []
                    nsched += 1
                a = e["a"]
                hist.append(a)
                try:
                    if a[0] == "iter":
                        its[a[1]] = iter(cont)
                        got = None
                    elif a[0] == "next":
                        try:
                            x = next(its[a[1]])
                            got = [i for i, p in enumerate(items) if p is x]
                            got = got[0] if got else "unknown object"
                        except StopIteration:
                            got = -1
                    elif a[0] == "len":
                        got = len(cont)
                    else:
                        got = [i for i, p in enumerate(items) if p is cont[a[1]]][0]
                    want = a[2] if a[0] in ("next", "getitem") else (a[1] if a[0] == "len" else None)
                    chk.count(1, validated=1)
                    if got != want:
                        chk.violation("s2c", "container." + a[0], {"container": kind, "n_parts": n, "schedule": hist,
                                                                     "expected": want, "got": got},
                                      replay={"container": kind, "n_parts": n, "schedule": hist}, op=a[0], container=kind)
                        skip = True   # resume with the next behaviour
                except Exception as ex:
                    chk.violation("s2c", "container.raises", {"container": kind, "schedule": hist, "exc": repr(ex)}, op=a[0])
                    skip = True
        if n == 2 and edges:
            chk.sample({"kind": "container schedule (prefix)", "n_parts": 2, "actions": [e["a"] for e in edges[:10]]})
    chk.part("containers", schedules=nsched)

    # ---- observers: recorded call sequences validated by TLC
    traces = []
    ntr = 36 if chk.tier == "quick" else 300
    inplace_score = {
        "add_measures": lambda sc: [score.add_measures(p) for p in sc.parts],
        "tie_notes": lambda sc: [score.tie_notes(p) for p in sc.parts],
        "fill_rests": lambda sc: [score.fill_rests(p) for p in sc.parts],
        "use_musical_beat": lambda sc: [p.use_musical_beat() for p in sc.parts],
        "use_notated_beat": lambda sc: [p.use_notated_beat() for p in sc.parts],
    }
    for t in range(ntr):
        is_perf = t % 4 == 3
        is_arr = t % 6 == 5
        is_match = t % 9 == 7
        if is_match:
            # (alignment, performed part, score part) written as a match file, with and without unfolding by the alignment
            from .c08 import make_triple
            from partitura.io.exportmatch import save_match
            part_m, _, notes_m, al_m, _, ppq_m, mpq_m, _ = make_triple(score, rng)
            pp_m = P.PerformedPart([{a: b for a, b in n.items() if not a.startswith("_")} for n in notes_m], id="pp", ppq=ppq_m, mpq=mpq_m)
            arg = (al_m, pp_m, part_m)
            tmpf = os.path.join(tlc.workdir("c20/match"), "t.match")

            def save(unfolded):
                save_match(al_m, pp_m, part_m, out=tmpf, mpq=mpq_m, ppq=ppq_m, assume_unfolded=unfolded)
                return open(tmpf).read()
            obs = {"save_match": lambda a: save(False), "save_match_assume_unfolded": lambda a: save(True)}
            fpf = lambda: proj.digest([proj.project_part(part_m), proj.project_performance(pp_m), al_m])
            fp_nosg = lambda: proj.digest([proj.project_part(part_m, exclude=("Segment",)), proj.project_performance(pp_m), al_m])
            inplace = {}
            is_perf = False
            is_arr = False
        elif is_arr:
            sc0 = gen_score.make_score(score, rng, n_parts=1)
            arg = sc0.note_array() if rng.random() < 0.5 else make_perf(P, rng).note_array()
            obs = array_observers(M)
            fpf = lambda: proj.digest([str(arg.dtype), arg.tobytes().hex()])
            inplace = {}
            is_perf = True      # (no Segment classification for arrays)
        elif is_perf:
            arg = make_perf(P, rng)
            obs = perf_observers(P, M)
            fpf = lambda: proj.digest(proj.project_performance(arg))
            inplace = {}
        else:
            arg = gen_score.make_score(score, rng, n_parts=rng.randint(1, 2), directions=rng.random() < 0.5,
                                       pickup=rng.random() < 0.3, polyphony=rng.random() < 0.5)
            if rng.random() < 0.6:
                add_repeat_structure(score, arg.parts[0], rng)
            obs = score_observers(score, M, partitura)
            fpf = lambda: proj.digest(proj.project_score(arg))
            fp_nosg = lambda: proj.digest([proj.project_part(p, exclude=("Segment",)) for p in arg.parts])
            inplace = inplace_score
        names = sorted(obs)
        seq = names + names
        rng.shuffle(seq)
        # every ordered pair occurs over the traces; a few in-place operations interleaved
        for _ in range(rng.randint(0, 2) if inplace else 0):
            seq.insert(rng.randint(0, len(seq)), rng.choice(sorted(inplace)))
        events = []
        fp0 = fpf()
        for op in seq:
            before = fpf()
            ns_before = fp_nosg() if not is_perf else None
            err = ""
            res = "-"
            try:
                r = (obs.get(op) or inplace[op])(arg)
                if op in obs:
                    res = digest_result(score, r)
            except Exception as ex:
                err = "%s: %s" % (type(ex).__name__, str(ex)[:120])
                res = "raised " + err
            after = fpf()
            ev = {"op": op, "key": op, "fp_before": before, "fp_after": after, "result": res, "err": err}
            if not is_perf:
                ns_after = fp_nosg()
                ev["only_segments"] = 1 if (after != before and ns_after == ns_before) else 0
            events.append(ev)
        traces.append({"tid": t + 1, "fp0": fp0, "events": events, "memo0": [],
                       "kind": "match_triple" if is_match else "note_array" if is_arr else ("performance" if is_perf else "score")})
    wd = tlc.workdir("c20/obs")
    path = os.path.join(wd, "batch.json")
    with open(path, "w") as f:
        json.dump(traces, f)
    res = tlc.run("ObserverTrace", "ObserverTrace.cfg", "c20/obs", workers=1, env={"TRACE_FILE": path}, expect_violation=True)
    chk.add_mc("ObserverTrace (recorded call sequences)", res)
    acc = set()
    fails = {}
    for ln in res.printed:
        m = re.match(r'<<"ACCEPT", (\d+)>>', ln)
        if m:
            acc.add(int(m.group(1)))
        m = re.match(r'<<"FAIL", (\d+), (\d+), \{(.*)\}>>', ln)
        if m:
            fails[int(m.group(1))] = (int(m.group(2)), [c.strip().strip('"') for c in m.group(3).split(",")])
    # a failing event stops its trace in TLC; re-validate the remainder so that every event is judged
    pending = [(t, 0) for t in traces]
    rounds = 0
    nev = 0
    while fails and rounds < 12:
        rounds += 1
        new_traces = []
        for t in traces:
            if t["tid"] in fails:
                l, cl = fails[t["tid"]]
                ev = t["events"][l - 1]
                for c in cl:
                    chk.violation("c2s", c, {"kind": t["kind"], "op": ev["op"], "err": ev["err"], "event_index": l,
                                             "history": [e["op"] for e in t["events"][:l]]},
                                  replay={"history": [e["op"] for e in t["events"][:l]]}, op=ev["op"], arg_kind=t["kind"],
                                  exc=ev["err"].split(":")[0], only_segments=ev.get("only_segments", 0))
                rest = t["events"][l:]
                if rest:
                    memo0 = []
                    if cl == ["argument_modified"] and ev.get("only_segments", 0):
                        # only Segment objects were left on the argument (the recorded finding says nothing else changes):
                        # what was observed since the last in-place operation must still be observed afterwards
                        # (pretty() lists the registered objects, Segments included, so it is not carried over)
                        seen = {m["k"]: m["v"] for m in t.get("memo0", [])}
                        for e in t["events"][:l]:
                            if e["op"] in INPLACE_OPS:
                                seen = {}
                            elif e["key"] not in seen:
                                seen[e["key"]] = e["result"]
                        memo0 = [{"k": k, "v": v} for k, v in sorted(seen.items()) if k != "pretty"]
                    new_traces.append({"tid": t["tid"], "fp0": rest[0]["fp_before"], "events": rest, "kind": t["kind"], "memo0": memo0})
        traces = new_traces
        if not traces:
            break
        with open(path, "w") as f:
            json.dump(traces, f)
        res = tlc.run("ObserverTrace", "ObserverTrace.cfg", "c20/obs", workers=1, env={"TRACE_FILE": path}, expect_violation=True)
        fails = {}
        for ln in res.printed:
            m = re.match(r'<<"FAIL", (\d+), (\d+), \{(.*)\}>>', ln)
            if m:
                fails[int(m.group(1))] = (int(m.group(2)), [c.strip().strip('"') for c in m.group(3).split(",")])
    chk.count(ntr * 30, validated=len(acc))
    for t in range(ntr):
        chk.nontrivial(("trace", t))
    chk.part("observer_traces", traces=ntr, accepted_without_failure=len(acc))
    chk.assumptions += ["fingerprint = digest of every public attribute of every registered object, time point and link (harness/proj.py)",
                        "results are compared by digest of their content (arrays bytewise, files bytewise, parts by projection)"]


def entry():
    chk = common.Check("C20")
    try:
        main(chk)
    except tlc.TLCError as ex:
        chk.machinery(str(ex))
    except Exception:
        import traceback
        chk.machinery("exception in check machinery:\n" + traceback.format_exc())
    sys.exit(chk.finish(rule="container schedules simulated by TLC (3 iterators x 1..3 parts) replayed on Score and Performance; "
                             "recorded observer call sequences (every entry point twice, shuffled, with in-place operations) "
                             "validated by TLC; non-trivial = every trace", exhaustive=False))
