"""G13 — growth beyond the listed properties: find_tuplets (Tuplets.tla).

TupletsCases.tla enumerates groups of consecutive notes without a notated value (runs of equally long notes: triplet,
quintuplet, septuplet and nonuplet lengths at 1260 divisions per quarter, and lengths that fit nothing), checks TupletsDisjoint, MembersEquallyLong, InTheTimeOfTwo and
NothingLeftOver on the sliding-window scan and prints the tuplets; every finished scan is replayed into find_tuplets on
a part with those notes: where the notes have no notated value the Tuplet objects must bracket exactly the specified
notes and every member must carry a value with actual_notes / normal_notes whose length is the note's length; where
they have one (always, as it turns out: Note.symbolic_duration answers for every note of a part with divisions, so the
function never meets its own precondition - a recorded finding) nothing may change.

Not a listed property: not registered in MANIFEST.json, prints DEVIATION lines (never VIOLATION), writes growth/G13.json."""
import json
import os
import sys
import time

from .. import common, tlc

DIVS = 1260


def main():
    common.setup_repo_path()
    import partitura.score as S
    from partitura.utils.music import symbolic_to_numeric_duration
    tier = common.tier()
    t0 = time.time()
    r = tlc.run("TupletsCases", "TupletsCases.%s.cfg" % tier, "g13/mc", workers=4, coverage=True, timeout=7000, heap="4g")
    if r.violated:
        print("MACHINERY-FAILURE growth=G13 Tuplets.tla violates its own property %s" % r.violated)
        return 2
    cases = {json.dumps(j["grp"]): j for j in r.json_lines()}
    r.stdout = ""
    deviations, first = {}, {}

    def dev(clause, case, got, want):
        deviations[clause] = deviations.get(clause, 0) + 1
        first.setdefault(clause, {"case": case, "got": got, "want": want})

    n = 0
    bound = 0
    for c in cases.values():
        n += 1
        want = sorted([t["from"], t["n"]] for t in c["tups"])
        try:
            part = S.Part("P1")
            part.set_quarter_duration(0, DIVS)
            t = 0
            notes = []
            for k, d in enumerate(c["grp"]):
                nn = S.Note(step="C", octave=4, voice=1, staff=1, id="n%d" % (k + 1))
                part.add(nn, t, t + d)
                notes.append(nn)
                t += d
            before = [(x.id, x.start.t, x.end.t) for x in notes]
            values_before = [x.symbolic_duration for x in notes]
            # the group of the specification is a run of notes *without a notated value*; Note.symbolic_duration answers for
            # every note of a part that has divisions (the estimator returns a value or {}), so the run is empty unless all
            # notes really have none - the scan is then not exercised and nothing may change
            if all(x.symbolic_duration is None for x in notes):
                bound += 1
            else:
                want = []
            S.find_tuplets(part)
            tups = list(part.iter_all(S.Tuplet))
            got = sorted([notes.index(tp.start_note) + 1, notes.index(tp.end_note) - notes.index(tp.start_note) + 1] for tp in tups)
        except Exception as ex:
            dev("raises", c, "%s: %s" % (type(ex).__name__, str(ex)[:200]), want)
            continue
        if got != want:
            dev("tuplets", c, got, want)
            continue
        member = {}
        for f, cnt in want:
            for k in range(f, f + cnt):
                member[k] = cnt
        for k, nn in enumerate(notes, 1):
            sd = nn.symbolic_duration
            if k in member:
                if not sd or sd.get("actual_notes") != member[k] or sd.get("normal_notes") != 2:
                    dev("member_without_tuplet_value", c, [k, sd], member[k])
                elif abs(symbolic_to_numeric_duration(sd, DIVS) - c["grp"][k - 1]) > 1e-9:
                    dev("member_value_is_not_its_length", c, [k, sd, symbolic_to_numeric_duration(sd, DIVS)], c["grp"][k - 1])
            elif sd != values_before[k - 1]:
                dev("value_of_a_note_outside_tuplets_changed", c, [k, sd], values_before[k - 1])
        for tp in tups:
            if tp.start.t != tp.start_note.start.t or tp.end.t != tp.end_note.end.t:
                dev("tuplet_span", c, [tp.start.t, tp.end.t], [tp.start_note.start.t, tp.end_note.end.t])
        if [(x.id, x.start.t, x.end.t) for x in notes] != before:
            dev("notes_changed", c, "times changed", before)
    out = os.path.join(common.OUT, "growth")
    os.makedirs(out, exist_ok=True)
    ev = {"growth_id": "G13", "spec": "Tuplets.tla / TupletsCases.tla", "tier": tier,
          "tlc": [{"distinct_states": r.distinct, "states_generated": r.generated, "depth": r.depth, "wall_s": round(r.wall_s, 1),
                   "actions": {k: list(v) for k, v in r.coverage.items()}}],
          "groups_replayed": n, "groups_in_which_the_scan_is_exercised": bound, "groups_with_tuplets": sum(1 for c in cases.values() if c["tups"]),
          "deviations": deviations, "first_of_each": first, "wall_s": round(time.time() - t0, 1)}
    with open(os.path.join(out, "G13.json"), "w") as f:
        json.dump(ev, f, indent=1, default=str)
    for k, v in sorted(deviations.items()):
        print("DEVIATION growth=G13 clause=%s count=%d first=%s" % (k, v, json.dumps(first[k], default=str)[:600]))
    if bound == 0:
        print("FINDING growth=G13 find_tuplets never meets a note without a notated value (Note.symbolic_duration answers for every note of a part with divisions): the sliding-window scan is not exercised by the implementation; %d parts were left unchanged as they must be" % n)
    print("SUMMARY growth=G13 tier=%s states=%d groups=%d with_tuplets=%d deviations=%d wall=%.1fs"
          % (tier, r.distinct, n, ev["groups_with_tuplets"], sum(deviations.values()), time.time() - t0))
    return 1 if deviations else 0


def entry():
    try:
        rc = main()
    except tlc.TLCError as ex:
        print("MACHINERY-FAILURE growth=G13 %s" % str(ex)[:1500])
        rc = 2
    except Exception:
        import traceback
        print("MACHINERY-FAILURE growth=G13\n" + traceback.format_exc())
        rc = 2
    sys.exit(rc)
