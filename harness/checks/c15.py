"""C15 — merging parts keeps every note at the same musical time in disjoint voices.

MergeCheck.tla is the relational post-condition of merge_parts (every element of part 1 and every
non-structural element of the others exactly once at time * lcm/divisions, voices / staves disjoint
across inputs and preserved within an input, structural elements from the first part only, divisions =
lcm, sounding notes = score-level note array).  Recorded calls on generated scores, groups and lists
(three modes) are validated by TLC; a single part must come back as the same object."""
import json
import os
import random
import re
import sys

from .. import common, gen_score, tlc


def elements(score, part):
    out = []
    tp = part.first_point
    seen = set()
    k = 0
    for o in part.iter_all(score.TimedObject, include_subclasses=True):
        if id(o) in seen:
            continue
        seen.add(id(o))
        k += 1
        oid = getattr(o, "id", None) or "%s_%s%d" % (part.id, type(o).__name__, k)
        if not getattr(o, "id", None) and not hasattr(o, "_verif_id"):
            try:
                o._verif_id = oid
            except Exception:
                pass
        oid = getattr(o, "_verif_id", oid)
        isnote = isinstance(o, score.GenericNote)
        out.append({"id": oid, "cls": type(o).__name__, "on": int(o.start.t), "end": -1 if o.end is None else int(o.end.t),
                    "voice": int(o.voice or 0) if isnote else 0,
                    "staff": int(getattr(o, "staff", None) or 0) if isnote else 0, "note": 1 if isnote else 0})
    return out


def make_record(args):
    rid, seed = args
    import partitura.score as score
    rng = random.Random(seed)
    npart = rng.choice([2, 2, 3])
    mode = rng.choice(["voice", "staff", "auto"])
    parts = []
    for k in range(npart):
        divs = rng.choice([1, 2, 3, 4, 6, 10])
        nv = rng.choice([1, 2, 3])
        p = gen_score.make_part(score, rng, pid="P%d" % (k + 1), divs=divs, n_measures=rng.randint(1, 2), voices=nv,
                                staves=rng.choice([1, 2]), max_notes=10, directions=rng.random() < 0.4,
                                no_staff=rng.choice([0, 0, 1.0]) if mode != "voice" else rng.choice([0, 0.4]))
        # non-contiguous voice numbers are as valid as contiguous ones
        if rng.random() < 0.3:
            for nn in p.iter_all(score.GenericNote, include_subclasses=True):
                if nn.voice is not None and nn.voice >= 2:
                    nn.voice += 1
        if not p.notes:      # every input part sounds (the score-level array is the reference of the last clause)
            p.add(score.Note(step="C", octave=4, id="%s_x" % p.id, voice=1, staff=1), 0, 1)
        parts.append(p)
    form = rng.choice(["score", "list", "group"])
    if form == "group":
        pg = score.PartGroup(group_symbol="bracket", group_name="G", number=1)
        pg.children = parts
        for c in parts:
            c.parent = pg
        arg = pg
        sc = score.Score(partlist=[pg], id="S")
    else:
        sc = score.Score(partlist=parts, id="S")
        arg = sc if form == "score" else list(parts)
    ins = [{"q": int(p.quarter_durations()[0, 1]), "els": elements(score, p)} for p in parts]
    err = ""
    out_els, out_q, mrows, srows = [], 0, [], []
    try:
        srows = rows(sc.note_array())
    except Exception as ex:
        err = "score.note_array: " + repr(ex)[:150]
    try:
        merged = score.merge_parts(arg, reassign=mode)
        out_els = elements(score, merged)
        out_q = int(merged.quarter_durations()[0, 1])
        mrows = rows(merged.note_array())
    except Exception as ex:
        err = err or ("%s: %s" % (type(ex).__name__, str(ex)[:150]))
    return ({"rid": rid, "mode": mode, "form": form, "parts": ins, "out": out_els, "out_q": out_q,
                 "merged_rows": mrows, "score_rows": srows, "err": err})


def rows(arr):
    return sorted([int(a), int(b), int(c)] for a, b, c in zip(arr["onset_div"], arr["duration_div"], arr["pitch"]))


def main(chk):
    common.setup_repo_path()
    import partitura
    import partitura.score as score
    rng = random.Random(chk.seed)
    n = 300 if chk.tier == "quick" else 3000
    import multiprocessing
    ctx = multiprocessing.get_context("fork")
    with ctx.Pool(min(16, os.cpu_count() or 4)) as pool:
        recs = pool.map(make_record, [(rid, chk.seed * 100003 + rid) for rid in range(1, n + 1)], chunksize=4)
    # single part comes back as is
    for form in ("list", "group", "score"):
        p = gen_score.make_part(score, rng, pid="P1")
        if form == "list":
            arg = [p]
        elif form == "group":
            arg = score.PartGroup(group_symbol="brace", group_name="G", number=1)
            arg.children = [p]
            p.parent = arg
        else:
            arg = score.Score(partlist=[p], id="S")
        chk.count(1, validated=1)
        try:
            if score.merge_parts(arg) is not p:
                chk.violation("s2c", "single_part_not_returned_as_is", {"form": form}, op="merge_parts", form=form)
        except Exception as ex:
            chk.violation("s2c", "single_part.raises", {"form": form, "exc": repr(ex)}, op="merge_parts", form=form)
    wd = tlc.workdir("c15/trace")
    path = os.path.join(wd, "batch.json")
    with open(path, "w") as f:
        json.dump(recs, f)
    res = tlc.run("MergeCheck", "MergeCheck.cfg", "c15/trace", workers=1, env={"TRACE_FILE": path}, timeout=3000, heap="6g")
    chk.add_mc("MergeCheck (recorded merge_parts calls)", res)
    verdicts = {}
    for ln in res.printed:
        m = re.match(r'<<"VERDICT", (\d+), \{(.*)\}>>', ln)
        if m:
            verdicts[int(m.group(1))] = [c.strip().strip('"') for c in m.group(2).split(",") if c.strip()]
    for rec in recs:
        chk.count(1, validated=1 if rec["rid"] in verdicts and not verdicts[rec["rid"]] else 0)
        if rec["rid"] not in verdicts:
            chk.machinery("no verdict for record %d" % rec["rid"])
            break
        missing_staff = any(e["note"] and e["staff"] == 0 for p in rec["parts"] for e in p["els"])
        chk.nontrivial(rec["rid"]) if len(set(p["q"] for p in rec["parts"])) > 1 else None
        for cl in verdicts[rec["rid"]]:
            chk.violation("c2s", cl, {"mode": rec["mode"], "form": rec["form"], "err": rec["err"], "divisions": [p["q"] for p in rec["parts"]],
                                      "voices_in": [sorted(set(e["voice"] for e in p["els"] if e["note"])) for p in rec["parts"]],
                                      "staves_in": [sorted(set(e["staff"] for e in p["els"] if e["note"])) for p in rec["parts"]],
                                      "voices_out": sorted(set(e["voice"] for e in rec["out"] if e["note"])),
                                      "staves_out": sorted(set(e["staff"] for e in rec["out"] if e["note"]))},
                          replay=rec, op="merge_parts", mode=rec["mode"], some_note_without_staff=missing_staff,
                          exc=rec["err"].split(":")[0])
    chk.part("records", merges=len(recs))
    chk.sample({"mode": recs[0]["mode"], "form": recs[0]["form"], "divisions": [p["q"] for p in recs[0]["parts"]],
                "first_input_elements": recs[0]["parts"][0]["els"][:3], "first_output_elements": recs[0]["out"][:3]})
    chk.assumptions += ["every input part has one divisions value; notes carry a voice; a missing staff counts as staff 1",
                        "elements are identified by their id (objects without id get a harness id attribute)"]


def entry():
    chk = common.Check("C15")
    try:
        main(chk)
    except tlc.TLCError as ex:
        chk.machinery(str(ex))
    except Exception:
        import traceback
        chk.machinery("exception in check machinery:\n" + traceback.format_exc())
    sys.exit(chk.finish(rule="recorded merge_parts calls on seeded random scores / groups / lists of 2-3 parts (different divisions incl. lcm "
                             "above all, several voices and staves, missing staves, three modes) validated by TLC; non-trivial = different divisions",
                        exhaustive=False))
