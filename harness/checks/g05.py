"""G05 — growth beyond the listed properties: the greedy matching of two note arrays (Matching.tla).

MatchingCases.tla enumerates pairs of small note arrays, checks PairsValid, OneToOne, ClosestWins, ClaimedAreMatched,
SameArrayMatchesItself and SameArrayWithDurations on the two-phase machine (claim, settle) and prints the matching;
every scenario is replayed into match_note_arrays (durations compared or not), whose pairs must be the specified ones.

Not a listed property: not registered in MANIFEST.json, prints DEVIATION lines (never VIOLATION), writes growth/G05.json."""
import json
import os
import sys
import time

import numpy as np

from .. import common, tlc


def main():
    common.setup_repo_path()
    from partitura.utils.music import match_note_arrays
    tier = common.tier()
    t0 = time.time()
    r = tlc.run("MatchingCases", "MatchingCases.%s.cfg" % tier, "g05/mc", workers=8, coverage=True, timeout=7000, heap="8g")
    if r.violated:
        print("MACHINERY-FAILURE growth=G05 Matching.tla violates its own property %s" % r.violated)
        return 2
    cases = r.json_lines()
    r.stdout = ""
    deviations, first = {}, {}

    def dev(clause, case, got, want):
        deviations[clause] = deviations.get(clause, 0) + 1
        first.setdefault(clause, {"case": case, "got": got, "want": want})

    def arr(rows, tag):
        return np.array([(x["on"], x["dur"], x["p"], "%s%d" % (tag, k)) for k, x in enumerate(rows)],
                        dtype=[("onset_beat", "f4"), ("duration_beat", "f4"), ("pitch", "i4"), ("id", "U8")])
    n = 0
    for c in cases:
        n += 1
        a, b = arr(c["inp"], "i"), arr(c["tgt"], "t")
        want = sorted([int(p[0]), int(p[1])] for p in c["pairs"])
        try:
            m = match_note_arrays(a, b, fields=("onset_beat", "duration_beat"), epsilon=1.25, check_duration=bool(c["dur"]))
            got = sorted([int(x[0]) + 1, int(x[1]) + 1] for x in m)
        except Exception as ex:
            dev("raises", c, "%s: %s" % (type(ex).__name__, ex), want)
            continue
        if got != want:
            several = len(set(p[0] for p in got)) < len(got) or len(set(p[1] for p in got)) < len(got)
            contested = any(sum(1 for y in c["tgt"] if y["p"] == x["p"] and abs(y["on"] - x["on"]) <= 1) > 1 for x in c["inp"])
            dev("pairs.not_one_to_one" if several else ("pairs.contested_input" if contested and c["dur"] else "pairs"), c, got, want)
    out = os.path.join(common.OUT, "growth")
    os.makedirs(out, exist_ok=True)
    ev = {"growth_id": "G05", "spec": "Matching.tla / MatchingCases.tla", "tier": tier,
          "tlc": [{"distinct_states": r.distinct, "states_generated": r.generated, "depth": r.depth, "wall_s": round(r.wall_s, 1),
                   "actions": {k: list(v) for k, v in r.coverage.items()}}],
          "scenarios_replayed": n, "deviations": deviations, "first_of_each": first, "wall_s": round(time.time() - t0, 1)}
    with open(os.path.join(out, "G05.json"), "w") as f:
        json.dump(ev, f, indent=1, default=str)
    for k, v in sorted(deviations.items()):
        print("DEVIATION growth=G05 clause=%s count=%d first=%s" % (k, v, json.dumps(first[k], default=str)[:700]))
    print("SUMMARY growth=G05 tier=%s states=%d scenarios=%d deviations=%d wall=%.1fs" % (tier, r.distinct, n, sum(deviations.values()), time.time() - t0))
    return 1 if deviations else 0


def entry():
    try:
        rc = main()
    except tlc.TLCError as ex:
        print("MACHINERY-FAILURE growth=G05 %s" % str(ex)[:1500])
        rc = 2
    except Exception:
        import traceback
        print("MACHINERY-FAILURE growth=G05\n" + traceback.format_exc())
        rc = 2
    sys.exit(rc)
