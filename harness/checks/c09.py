"""C09 — unfolding repeats concatenates segments along a valid path and nothing else.

Unfold.tla is the repeat / volta / navigation machine; TLC enumerates layouts (repeats, nested repeats,
ending groups, D.C./D.S./Fine/Coda) and prints every complete behaviour per policy, checking
BarsInRange, JumpsJustified and NoStructureIsIdentity.  The harness builds each layout as a real Part,
asks partitura for its paths and unfolded parts and checks that every path is a behaviour of the
machine, that maximal / minimal unfoldings are the machine's, and that the unfolded part is the
concatenation of shifted copies with no brackets, no dangling references, and the original untouched."""
import concurrent.futures
import json
import random
import sys

from .. import common, proj, tlc
from .c12 import uniq

NOB = 99
BAR = 4
STEPS = ["C", "D", "E", "F", "G", "A", "B"]


def kind_of(lay):
    k = []
    if lay["coda"] != NOB:
        k.append("coda")
    if lay["dc"] != NOB:
        k.append("dacapo")
    if lay["ds"] != NOB:
        k.append("dalsegno")
    if lay["fine"] != NOB:
        k.append("fine")
    if lay["groups"]:
        k.append("endings%d" % len(lay["groups"][0]["ends"]))
    if lay["reps"]:
        k.append("repeats%d" % len(lay["reps"]))
    return "+".join(k) or "plain"


def build(score, lay, tie_at=None, slur=False, update=None):
    n = lay["N"]
    part = score.Part("P1", quarter_duration=1)
    part.add(score.TimeSignature(4, 4), 0)
    part.add(score.KeySignature(0, "major"), 0)
    part.add(score.Clef(1, "G", 2, 0), 0)
    notes = []
    for b in range(n):
        part.add(score.Measure(number=b + 1, name=str(b + 1)), BAR * b, BAR * (b + 1))
        nt = score.Note(step=STEPS[b % 7], octave=4, id="n%d" % b, voice=1, staff=1)
        part.add(nt, BAR * b, BAR * (b + 1))
        notes.append(nt)
        # a second, shorter note in the bar (another voice)
        n2 = score.Note(step=STEPS[(b + 2) % 7], octave=3, id="m%d" % b, voice=2, staff=1)
        part.add(n2, BAR * b + 1, BAR * b + 3)
    if tie_at is not None and tie_at + 1 < n:
        a, c = notes[tie_at], notes[tie_at + 1]
        c.step, c.octave = a.step, a.octave
        a.tie_next, c.tie_prev = c, a
    if slur and n >= 2:
        sl = score.Slur(notes[0], notes[min(n - 1, 2)])
        part.add(sl, notes[0].start.t, notes[min(n - 1, 2)].end.t)
    for (s, e) in lay["reps"]:
        part.add(score.Repeat(), BAR * s, BAR * e)
    for g in lay["groups"]:
        ends = g["ends"]
        for i, (a1, a2, nums) in enumerate(ends):
            part.add(score.Ending(",".join(str(x) for x in sorted(nums))), BAR * a1, BAR * a2)
            if i < len(ends) - 1:
                part.add(score.Repeat(), BAR * g["rs"], BAR * a2)
    for key, cls in (("dc", "DaCapo"), ("ds", "DalSegno"), ("segno", "Segno"), ("fine", "Fine"), ("tocoda", "ToCoda"), ("coda", "Coda")):
        if lay[key] != NOB:
            part.add(getattr(score, cls)(), BAR * lay[key])
    return part


def path_bars(path):
    bars = []
    for sid in path.path:
        seg = path.segments[sid]
        for b in range(seg.start.t // BAR, seg.end.t // BAR):
            bars.append(b)
    return bars


def run_gen(args):
    tag, env = args
    return tlc.run("UnfoldCases", "UnfoldCases.cfg", tag, workers=1, env=env, expect_violation=True, timeout=3000, heap="3g")


def strip_segments(p):
    return dict(p, objects=[o for o in p["objects"] if o["cls"] != "Segment"],
                points=p["points"])


def main(chk):
    common.setup_repo_path()
    import partitura.score as score
    rng = random.Random(chk.seed)
    env = {"SMALL": "1"} if chk.tier == "quick" else {}
    jobs = [("c09/enum%d" % k, dict(env, SHARD=str(k))) for k in range(16)]
    with concurrent.futures.ThreadPoolExecutor(16) as ex:
        results = list(ex.map(run_gen, jobs))
    paths = {}
    for r in results:
        chk.add_mc("UnfoldCases", r)
        if r.violated:
            chk.machinery("Unfold machine violates its own invariant %s\n%s" % (r.violated, r.error_trace[:1200]))
            return
        for j in uniq(r.json_lines()):
            paths.setdefault(json.dumps(j["lay"], sort_keys=True), {}).setdefault(j["policy"], []).append(j["path"])
    if not paths:
        chk.machinery("no layouts generated")
        return
    keys = sorted(paths)
    for key in keys:
        lay = json.loads(key)
        pol = paths[key]
        kind = kind_of(lay)
        chk.count(1, validated=1)
        if kind != "plain":
            chk.nontrivial(key)

        leap_b = lay["dc"] if lay["dc"] != NOB else lay["ds"]
        rep_ends = [r[1] for r in lay["reps"]] + [g["ends"][-1][1] for g in lay["groups"]] + \
                   [e[1] for g in lay["groups"] for e in g["ends"][:-1]]
        coincide = leap_b != NOB and leap_b in rep_ends

        def report(clause, detail, **attrs):
            p_bad = detail.get("path") or detail.get("bars")
            fine_first = bool(lay["fine"] != NOB and p_bad is not None and clause.endswith("not_a_machine_behaviour")
                              and list(p_bad) and list(p_bad)[-1] == lay["fine"] - 1
                              and leap_b != NOB and not any(b2 == (0 if lay["dc"] != NOB else lay["segno"]) and b1 == leap_b - 1
                                                            for b1, b2 in zip(p_bad, p_bad[1:])))
            chk.violation("s2c", clause, dict(layout=lay, **detail), replay={"layout": lay, "machine_paths": pol},
                          op=clause.split(".")[0], layout_kind=kind, has_coda=lay["coda"] != NOB,
                          repeat_end_at_leap_boundary=coincide, stops_at_fine_without_leap=fine_first, **attrs)

        allp = set(map(tuple, pol.get("all", [])))
        maxp = pol.get("max", [])
        maxnl = pol.get("maxnl", [])
        minp = pol.get("min", [])
        # ---- paths (each API on a fresh part: the statement is about one call)
        try:
            got_all = [path_bars(p) for p in score.get_paths(build(score, lay), no_repeats=False, all_repeats=False,
                                                             ignore_leap_info=True)]
            bad = [p for p in got_all if tuple(p) not in allp]
            if bad:
                report("all_variants.not_a_machine_behaviour", {"path": bad[0], "n_bad": len(bad), "n_paths": len(got_all)})
            if kind.startswith("repeats") and not lay["groups"] and lay["dc"] == NOB and lay["ds"] == NOB:
                reps = lay["reps"]
                independent = all(a[1] <= b[0] or b[1] <= a[0] for a in reps for b in reps if a != b)
                if independent and len(got_all) != 2 ** len(reps):
                    report("all_variants.count_2_pow_r", {"n_paths": len(got_all), "r": len(reps)})
        except Exception as ex:
            report("all_variants.raises", {"exc": repr(ex)}, exc=type(ex).__name__)
        for name, kw, want in (("maximal", dict(no_repeats=False, all_repeats=True, ignore_leap_info=True), maxp),
                               ("maximal_noleaprepeats", dict(no_repeats=False, all_repeats=True, ignore_leap_info=False), maxnl),
                               ("minimal", dict(no_repeats=True), minp)):
            try:
                got = [path_bars(p) for p in score.get_paths(build(score, lay), **kw)]
                if len(want) == 1 and (len(got) < 1 or got[0] != want[0]):
                    report(name + ".path", {"expected": want[0], "got": got[:2]})
            except Exception as ex:
                report(name + ".raises", {"exc": repr(ex)}, exc=type(ex).__name__)
        # ---- unfolded parts
        tie_at = rng.choice([None, 0, max(0, lay["N"] - 2)])
        variants = [("unfold_part_maximal", lambda p, u: score.unfold_part_maximal(p, update_ids=u), maxp),
                    ("unfold_part_maximal_noleap", lambda p, u: score.unfold_part_maximal(p, update_ids=u, ignore_leaps=False), maxnl),
                    ("unfold_part_minimal", lambda p, u: score.unfold_part_minimal(p), minp)]
        for name, fn, want in variants:
            if len(want) != 1:
                continue
            upd = rng.random() < 0.5
            part = build(score, lay, tie_at=tie_at, slur=rng.random() < 0.5)
            before = proj.project_part(part)
            try:
                res = fn(part, upd)
            except Exception as ex:
                report(name + ".raises", {"exc": repr(ex)}, exc=type(ex).__name__)
                continue
            after = proj.project_part(part)
            if after != before:
                if proj.project_part(part, exclude=("Segment",)) == before:
                    report("original_modified.segment_objects_added", {"function": name}, only_segments=True)
                else:
                    report("original_modified", {"function": name, "diff": proj.diff(before, after)[:4]}, only_segments=False)
            check_unfolded(score, report, name, lay, want[0], res, upd and name != "unfold_part_minimal", tie_at)
        # all variants as parts (count and validity), a few layouts only
        if chk.tier == "thorough" or rng.random() < 0.25:
            try:
                part = build(score, lay)
                res = list(score.iter_unfolded_parts(part, update_ids=True))
                for rp in res:
                    bars = [int(n.id[1:].split("-")[0]) for n in sorted((x for x in rp.notes if x.id.startswith("n")), key=lambda x: x.start.t)]
                    if tuple(bars) not in allp:
                        report("iter_unfolded_parts.not_a_machine_behaviour", {"bars": bars})
                        break
            except Exception as ex:
                report("iter_unfolded_parts.raises", {"exc": repr(ex)}, exc=type(ex).__name__)
    chk.part("layouts", layouts=len(keys), machine_paths=sum(len(v) for p in paths.values() for v in p.values()))
    k0 = keys[len(keys) // 3]
    chk.sample({"layout": json.loads(k0), "machine_paths": paths[k0]})
    chk.assumptions += ["bars are 4 divisions; marks sit at bar boundaries; one ending group per layout; Fine only together with a leap",
                        "'all variants': every implementation path must be a behaviour of the machine (the statement does not demand every behaviour)"]


def check_unfolded(score, report, name, lay, bars, res, suffixed, tie_at):
    """res must be the concatenation of shifted copies of the bars in `bars`."""
    try:
        p = proj.project_part(res)
    except Exception as ex:
        report(name + ".projection_raises", {"exc": repr(ex)})
        return
    length = res.last_point.t - res.first_point.t if res.first_point is not None else 0
    if length != BAR * len(bars):
        report(name + ".length", {"expected": BAR * len(bars), "got": length, "path": bars})
        return
    notes = sorted([o for o in p["objects"] if o["cls"] == "Note"], key=lambda o: (o["start"], o["voice"]))
    exp = []
    visit = {}
    for k, b in enumerate(bars):
        visit[b] = visit.get(b, 0) + 1
        exp.append((BAR * k, BAR * (k + 1), 1, "n%d" % b, visit[b]))
        exp.append((BAR * k + 1, BAR * k + 3, 2, "m%d" % b, visit[b]))
    exp.sort(key=lambda e: (e[0], e[2]))
    if len(notes) != len(exp):
        report(name + ".note_count", {"expected": len(exp), "got": len(notes), "path": bars})
        return
    for o, e in zip(notes, exp):
        base = o["id"].split("-")[0] if o["id"] else None
        if (o["start"], o["end"], o["voice"], base) != e[:4] or o["staff"] != 1:
            report(name + ".note_copy", {"expected": e, "got": [o["start"], o["end"], o["voice"], o["id"]], "path": bars})
            return
        if suffixed and o["id"] != "%s-%d" % (e[3], e[4]):
            report(name + ".id_suffix", {"expected": "%s-%d" % (e[3], e[4]), "got": o["id"], "path": bars})
            return
    left = sorted(set(o["cls"] for o in p["objects"] if o["cls"] in ("Repeat", "Ending", "DaCapo", "DalSegno", "ToCoda")))
    if left:
        report(name + ".brackets_or_jumps_left", {"classes": left, "path": bars})
    dangling = [(o["cls"], k) for o in p["objects"] for k, v in o.items() if isinstance(v, list) and v and v[0] == "dangling"]
    if dangling:
        report(name + ".dangling_reference", {"refs": dangling[:4], "path": bars})
    # links between time points stay inside the copy
    pts = p["points"]
    for i, (t, q, pv, nx) in enumerate(pts):
        if pv != (pts[i - 1][0] if i > 0 else None) or nx != (pts[i + 1][0] if i + 1 < len(pts) else None):
            report(name + ".time_point_links", {"t": t, "prev": pv, "next": nx, "path": bars})
            break
    # ties: both ends inside the copy and mirrored
    objs = p["objects"]
    for o in objs:
        if o["cls"] == "Note" and o.get("tie_next") is not None:
            tgt = o["tie_next"]
            if tgt[0] != "ref" or objs[tgt[1]].get("tie_prev") is None or objs[objs[tgt[1]]["tie_prev"][1]] is not o:
                report(name + ".tie_links", {"note": o["id"], "path": bars})
                break
            if objs[tgt[1]]["start"] != o["end"]:
                report(name + ".tie_not_contiguous", {"note": o["id"], "next": objs[tgt[1]]["id"], "path": bars})
                break


def entry():
    chk = common.Check("C09")
    try:
        main(chk)
    except tlc.TLCError as ex:
        chk.machinery(str(ex))
    except Exception:
        import traceback
        chk.machinery("exception in check machinery:\n" + traceback.format_exc())
    sys.exit(chk.finish(rule="layouts enumerated by TLC (repeats, nested repeats, ending groups, D.C./D.S./Fine/Coda on up to 4 (quick) / 5 "
                             "bars) with all machine behaviours per policy; non-trivial = layout has some repeat structure",
                        exhaustive=True))
