"""C04 — score to MIDI to score preserves every note's timing and pitch exactly.

ScoreMidi.tla (on NoteArray.tla and MidiStream.tla) states what a score must be written as: ppq = lcm
of all divisions doubled up to minimum_ppq, every tick the exact integer image ppq*(Q(t) - ftp) of the
musical time for the three pickup policies, one written note per sounding note (tie chains merged)
with the requested velocity, and the track/channel partition each of the six modes prescribes.  The
written file (a trace) is interpreted by MidiStream and TLC reports the failing clauses; it also
prints the sounding notes in ticks and the grouping expected after reading the file back, which the
harness compares with load_score_midi (same mode) and load_performance_midi."""
import concurrent.futures
import json
import os
import random
import sys
from fractions import Fraction

import numpy as np

from .. import common, gen_score, tlc
from .c05 import extract
from .c06 import encode_track
from .c12 import uniq

STEP_OF_PC = {0: ("C", 0), 1: ("C", 1), 2: ("D", 0), 3: ("D", 1), 4: ("E", 0), 5: ("F", 0), 6: ("F", 1), 7: ("G", 0),
              8: ("G", 1), 9: ("A", 0), 10: ("A", 1), 11: ("B", 0)}


def uniquify_pitches(score, sc, rng):
    """Give every sounding note (tie chain) of the score its own MIDI pitch, so that notes can be identified."""
    pool = list(range(24, 108))
    rng.shuffle(pool)
    for part in sc.parts:
        for n in part.notes:
            if n.tie_prev is not None:
                continue
            if not pool:
                return False
            m = pool.pop()
            st, al = STEP_OF_PC[m % 12]
            x = n
            while x is not None:
                x.step, x.alter, x.octave = st, (al or None), m // 12 - 1
                x = x.tie_next
    return True


def run_gen(args):
    tag, env = args
    return tlc.run("ScoreMidiCases", "ScoreMidiCases.cfg", tag, workers=1, env=env, expect_violation=True, timeout=3400, heap="3g")


def main(chk):
    common.setup_repo_path()
    import mido
    import partitura
    import partitura.score as score
    from partitura.io.exportmidi import save_score_midi
    from partitura.io.importmidi import load_score_midi, load_performance_midi
    rng = random.Random(chk.seed)
    n = 300 if chk.tier == "quick" else 3000
    cases = []
    ctx = {}
    for cid in range(1, n + 1):
        npart = rng.choice([1, 2, 2, 3])
        parts = []
        pickup = rng.random() < 0.35
        ts0 = None
        for i in range(npart):
            divs = rng.choice([1, 2, 3, 4, 6, 12])
            for _ in range(30):
                p = gen_score.make_part(score, rng, pid="P%d" % (i + 1), divs=divs, pickup=pickup, n_measures=rng.randint(2, 3),
                                        ts_change=False, max_notes=8, staves=1, slurs=False, voices=rng.choice([1, 2, 3]))
                ts = next(p.iter_all(score.TimeSignature))
                m0 = next(p.iter_all(score.Measure))
                # all parts share the time signature and the pickup length in quarters (one score)
                key = (ts.beats, ts.beat_type, Fraction(m0.end.t - m0.start.t, divs))
                if ts0 is None or key == ts0:
                    ts0 = key
                    break
            else:
                p = None
            if p is None:
                continue
            if rng.random() < 0.25 and divs in (1, 2):
                # a division change inside the part (at a barline)
                ms = list(p.iter_all(score.Measure))
                p.set_quarter_duration(ms[-1].end.t, divs * 3)
                p.add(score.Note(step="C", octave=4, id="%s_x" % p.id, voice=1, staff=1), ms[-1].end.t, ms[-1].end.t + 2)
                p.add(score.Measure(number=len(ms) + 1), ms[-1].end.t, ms[-1].end.t + ts.beats * 4 * divs * 3 // ts.beat_type)
                # notes sounding across the change of divisions (the statement names divisions changing inside a part and
                # ties over barlines): one note written across it, and / or a tie chain whose links lie on both sides
                e = ms[-1].end.t
                if e - divs >= ms[-1].start.t:
                    kind = rng.choice(["none", "one", "tie", "both"])
                    if kind in ("one", "both"):
                        p.add(score.Note(step="D", octave=4, id="%s_y" % p.id, voice=1, staff=1), e - divs, e + divs * 3)
                    if kind in ("tie", "both"):
                        b1 = score.Note(step="E", octave=4, id="%s_z1" % p.id, voice=1, staff=1)
                        b2 = score.Note(step="E", octave=4, id="%s_z2" % p.id, voice=1, staff=1)
                        p.add(b1, e - divs, e)
                        p.add(b2, e, e + 2 * divs * 3)
                        b1.tie_next, b2.tie_prev = b2, b1
            if rng.random() < 0.5 and not parts:      # tempo marks are global: first part only
                for t, bpm in [(0, rng.choice([60, 100, 120]))] + ([(next(p.iter_all(score.Measure)).end.t, 75)] if rng.random() < 0.4 else []):
                    p.add(score.Tempo(bpm, "q"), t)
            parts.append(p)
        if not parts:
            continue
        structure = list(parts)
        groups = [0] * len(parts)
        if len(parts) >= 2 and rng.random() < 0.5:
            pg = score.PartGroup(group_symbol="brace", group_name="G1", number=1)
            pg.children = parts[:2]
            for ch in pg.children:
                ch.parent = pg
            structure = [pg] + parts[2:]
            groups[0] = groups[1] = 1
        sc = score.Score(partlist=structure, id="S%d" % cid)
        if not uniquify_pitches(score, sc, rng):
            continue
        if not any(len(p.notes) for p in parts):
            continue        # (nothing sounds: there is no timing or pitch to preserve, and no track to carry the signatures)
        mode = rng.randint(0, 5)
        policy = rng.choice(["shift", "pad_bar", "time_sig_change"])
        minppq = rng.choice([0, 0, 96, 480])
        vel = rng.choice([64, 1, 100, 127])
        # pad_bar needs the bar length integral in ticks
        L = int(np.lcm.reduce([int(q) for p in parts for q in p.quarter_durations()[:, 1]]))
        ppq = L
        while ppq < minppq:
            ppq *= 2
        if (ppq * 4 * ts0[0]) % ts0[1] != 0:
            policy = "shift"
        # time_sig_change writes the pickup as a bar of its own: only defined for a whole number (>= 1) of beats
        pick_beats = ts0[2] * ts0[1] / 4
        if policy == "time_sig_change" and (pick_beats.denominator != 1 or pick_beats < 1):
            policy = "shift"
        try:
            mf = save_score_midi(sc, out=None, part_voice_assign_mode=mode, velocity=vel, anacrusis_behavior=policy, minimum_ppq=minppq)
        except Exception as ex:
            chk.violation("c2s", "save_score_midi.raises", {"cid": cid, "mode": mode, "policy": policy, "exc": repr(ex)}, op="save",
                          exc=type(ex).__name__)
            continue
        ps = []
        for i, p in enumerate(sc.parts):
            e = extract(score, p)
            e["group"] = groups[i]
            e["tempos"] = [[t.start.t, int(t.microseconds_per_quarter) // 1000] for t in p.iter_all(score.Tempo)]
            e["notes"] = [dict(x, voice=x["voice"]) for x in e["notes"]]
            ps.append(e)
        cases.append({"cid": cid, "parts": ps, "mode": mode, "policy": policy, "minppq": minppq, "velocity": vel,
                      "ppq_written": int(mf.ticks_per_beat), "tracks": [encode_track(tr) for tr in mf.tracks]})
        ctx[cid] = (sc, mf, mode, policy, minppq, vel)
    shards = 16
    jobs = []
    for k in range(shards):
        wd = tlc.workdir("c04/file%d" % k)
        path = os.path.join(wd, "cases.json")
        with open(path, "w") as f:
            json.dump(cases[k::shards], f)
        if cases[k::shards]:
            jobs.append(("c04/file%d" % k, {"CASE_FILE": path}))
    with concurrent.futures.ThreadPoolExecutor(shards) as ex:
        results = list(ex.map(run_gen, jobs))
    outs = {}
    for r in results:
        chk.add_mc("ScoreMidiCases", r)
        if r.violated:
            chk.machinery("ScoreMidi violates: %s\n%s" % (r.violated, r.error_trace[:1500]))
            return
        for j in uniq(r.json_lines()):
            outs[j["cid"]] = j
    for cid in sorted(outs):
        o = outs[cid]
        sc, mf, mode, policy, minppq, vel = ctx[cid]
        chk.count(1, validated=1 if not o["failing"] else 0)
        chk.nontrivial(cid) if len(sc.parts) > 1 or policy != "shift" else None
        ppq = o["ppq"]

        def report(clause, detail, **attrs):
            chk.violation("c2s", clause, dict(cid=cid, mode=mode, policy=policy, minimum_ppq=minppq, velocity=vel,
                                              divisions=[[int(x) for x in p.quarter_durations()[:, 1]] for p in sc.parts], **detail),
                          replay={"cid": cid}, op=clause.split(".")[0], mode=mode, policy=policy, **attrs)
        for cl in o["failing"]:
            report("written_file." + cl, {"ppq_expected": ppq, "ppq_written": int(mf.ticks_per_beat),
                                          "first_notes_expected": sorted([[s["pitch"], s["on"], s["off"]] for s in o["sounding"]])[:4]})
        # meta events at the same musical positions (policy "shift": exact sets; others: the part's signatures appear)
        exp_ts = sorted(set((t, e[1], e[2]) for part in o["ts"] for (t, e) in part))
        wr_ts = sorted(set((x["tick"], x["beats"], x["beat_type"]) for tr in o["written_ts"] for x in tr))
        if policy == "shift" and exp_ts != wr_ts:
            report("written_file.time_signatures", {"expected": exp_ts, "got": wr_ts})
        exp_ks = sorted(set(t for part in o["ks"] for (t, e) in part))
        wr_ks = sorted(set(x["tick"] for tr in o["written_ks"] for x in tr))
        if exp_ks != wr_ks:
            report("written_file.key_signatures", {"expected": exp_ks, "got": wr_ks})
        exp_tp = sorted(set((t, e[1]) for part in o["tempos"] for (t, e) in part))
        wr_tp = sorted(set((x["tick"], x["mpqk"]) for x in o["written_tempos"]))
        if exp_tp and exp_tp != wr_tp:
            report("written_file.tempo_marks", {"expected": exp_tp, "got": wr_tp})
        if o["failing"]:
            continue
        exp = sorted((s["pitch"], s["on"][0] // s["on"][1], s["off"][0] // s["off"][1]) for s in o["sounding"])
        # ---- read directly
        try:
            perf = load_performance_midi(mf)
            got = sorted((nn["midi_pitch"], nn["note_on_tick"], nn["note_off_tick"]) for pp in perf.performedparts for nn in pp.notes)
            if got != exp:
                report("read_directly.notes", {"expected": exp[:6], "got": got[:6]})
        except Exception as ex:
            report("read_directly.raises", {"exc": repr(ex)})
        # ---- through the score importer, same mode
        try:
            import signal

            def _alarm(*a):
                raise TimeoutError("load_score_midi did not return within 20 s")
            signal.signal(signal.SIGALRM, _alarm)
            signal.alarm(20)
            try:
                sc2 = load_score_midi(mf, part_voice_assign_mode=mode)
            finally:
                signal.alarm(0)
        except Exception as ex:
            report("load_score_midi.raises", {"exc": repr(ex)}, exc=type(ex).__name__)
            continue
        got = []
        groups = {}
        for pi, p2 in enumerate(sc2.parts):
            # positions of the imported timeline in quarters (all imported parts share the file's origin and ppq)
            qd = int(p2.quarter_durations()[0, 1])
            for nn in p2.notes_tied:
                on = Fraction(nn.start.t, qd)
                off = Fraction(nn.start.t + nn.duration_tied, qd)
                got.append((nn.midi_pitch, on, off - on))
                groups.setdefault(nn.midi_pitch, (pi, nn.voice))
        expq = sorted((s["pitch"], Fraction(s["on"][0], s["on"][1]) / ppq, Fraction(s["off"][0], s["off"][1]) / ppq - Fraction(s["on"][0], s["on"][1]) / ppq)
                      for s in o["sounding"])
        # the origin of musical time depends on the pickup policy: onsets are compared up to one common shift
        if got and expq:
            g0 = min(x[1] for x in got)
            e0 = min(x[1] for x in expq)
            got = [(a, b - g0, c) for a, b, c in got]
            expq = sorted((a, b - e0, c) for a, b, c in expq)
        if sorted(got) != expq:
            report("load_score_midi.sounding_notes", {"expected": [[a, str(b), str(c)] for a, b, c in expq[:6]],
                                                      "got": [[a, str(b), str(c)] for a, b, c in sorted(got)[:6]]})
            continue
        # grouping into parts and voices
        bad = None
        ss = o["sounding"]
        for a in ss:
            for b in ss:
                ga, gb = groups.get(a["pitch"]), groups.get(b["pitch"])
                if ga is None or gb is None:
                    continue
                same_part = a["ipart"] == b["ipart"]
                if same_part != (ga[0] == gb[0]):
                    bad = ("parts", a["id"], b["id"], ga, gb)
                elif same_part and ((a["ivoice"] == b["ivoice"]) != (ga[1] == gb[1])):
                    bad = ("voices", a["id"], b["id"], ga, gb)
            if bad:
                break
        if bad:
            report("load_score_midi.grouping_" + bad[0], {"notes": bad[1:3], "imported_as": [list(bad[3]), list(bad[4])]})
    chk.part("scores", generated=len(cases), judged=len(outs))
    if cases:
        c0 = cases[0]
        chk.sample({"cid": c0["cid"], "mode": c0["mode"], "policy": c0["policy"], "minimum_ppq": c0["minppq"],
                    "divisions": [p["cfg"]["qtab"] for p in c0["parts"]], "written_track_0": c0["tracks"][0][:6],
                    "tlc": {k: outs.get(c0["cid"], {}).get(k) for k in ("failing", "ppq", "ftp")}})
    chk.assumptions += ["every sounding note of a generated score has its own MIDI pitch (notes are identified by pitch)",
                        "all parts of a score share the time signature and pickup length; pad_bar only when the bar length is integral in ticks",
                        "time signatures are compared as exact sets for the 'shift' policy only (the other policies add or move signatures by design)"]


def entry():
    chk = common.Check("C04")
    try:
        main(chk)
    except tlc.TLCError as ex:
        chk.machinery(str(ex))
    except Exception:
        import traceback
        chk.machinery("exception in check machinery:\n" + traceback.format_exc())
    sys.exit(chk.finish(rule="seeded random scores (1-3 parts, different divisions also inside a part, tuplets, pickups, grace notes, ties, groups, "
                             "tempo marks) x 6 modes x 3 pickup policies x minimum_ppq x velocity; TLC judges the written file; "
                             "non-trivial = several parts or a non-default policy", exhaustive=False))
