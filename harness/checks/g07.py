"""G07 — growth beyond the listed properties: infer_beaming (Beaming.tla).

Beaming.tla is the scan of infer_beaming over one voice in 4/4 on a sixteenth grid.  With LongNotesBreak = FALSE (the
scan as found in the unchanged tree) TLC refutes BeamedNotesAreNeighbours (a beam over an unbeamed dotted eighth); this
run is repeated here and must keep failing, so that the specification stays sensitive.  With LongNotesBreak = TRUE (the
repaired scan) AtLeastTwoNotes, OnlyShortNotes, BeamsDisjoint, BeamedNotesAreNeighbours, ClosesOnBeat and GroupIsOpen
hold for every voice of up to five notes, and every finished scan is replayed into infer_beaming: the beams of the part
must be the specified ones, every beamed note must point to its beam, the beam must span its notes, notes are
untouched and a second call adds nothing.

Not a listed property: not registered in MANIFEST.json, prints DEVIATION lines (never VIOLATION), writes growth/G07.json."""
import json
import os
import sys
import time

from .. import common, tlc


def main():
    common.setup_repo_path()
    import partitura.score as S
    tier = common.tier()
    t0 = time.time()
    found = tlc.run("BeamingCases", "BeamingCases.found.cfg", "g07/found", workers=4, timeout=3000, expect_violation=True)
    if found.violated != "BeamedNotesAreNeighbours":
        print("MACHINERY-FAILURE growth=G07 the scan as found is expected to violate BeamedNotesAreNeighbours, TLC reports %s" % found.violated)
        return 2
    found.stdout = ""
    r = tlc.run("BeamingCases", "BeamingCases.repaired.cfg", "g07/mc", workers=4, coverage=True, timeout=7000, heap="4g")
    if r.violated:
        print("MACHINERY-FAILURE growth=G07 Beaming.tla (repaired scan) violates its own property %s" % r.violated)
        return 2
    cases = r.json_lines()
    r.stdout = ""
    if tier == "quick":
        cases = cases[::4]
    deviations, first = {}, {}

    def dev(clause, case, got, want):
        deviations[clause] = deviations.get(clause, 0) + 1
        first.setdefault(clause, {"case": case, "got": got, "want": want})

    n = 0
    for c in cases:
        n += 1
        want = sorted([["n%d" % k for k in b] for b in c["beams"]])
        has_long_inside = any(x["dur"] > 2 for x in c["notes"][1:-1])
        try:
            part = S.Part("P1")
            part.set_quarter_duration(0, 4)
            part.add(S.TimeSignature(4, 4), 0)
            part.add(S.Measure(number=1), 0, 16)
            notes = []
            for k, x in enumerate(c["notes"]):
                nn = S.Note(step="C", octave=4, voice=1, staff=1, id="n%d" % (k + 1))
                part.add(nn, x["on"], x["on"] + x["dur"])
                notes.append(nn)
            before = [(x.id, x.start.t, x.end.t) for x in notes]
            S.infer_beaming(part)
            beams = list(part.iter_all(S.Beam))
            got = sorted([[x.id for x in b.notes] for b in beams])
        except Exception as ex:
            dev("raises", c, "%s: %s" % (type(ex).__name__, str(ex)[:200]), want)
            continue
        if got != want:
            dev("beams.long_note_between" if has_long_inside else "beams", c, got, want)
        for b in beams:
            if any(x.beam is not b for x in b.notes):
                dev("beamed_note_points_elsewhere", c, [x.id for x in b.notes], "note.beam is the beam")
            if b.notes and (b.start.t != min(x.start.t for x in b.notes) or b.end.t != max(x.end.t for x in b.notes)):
                dev("beam_span", c, [b.start.t, b.end.t], [min(x.start.t for x in b.notes), max(x.end.t for x in b.notes)])
        if any(x.beam is not None and not any(x in b.notes for b in beams) for x in notes):
            dev("note_with_a_beam_that_is_not_in_the_part", c, [x.id for x in notes if x.beam is not None], got)
        if [(x.id, x.start.t, x.end.t) for x in notes] != before:
            dev("notes_changed", c, [(x.id, x.start.t, x.end.t) for x in notes], before)
        try:
            S.infer_beaming(part)
            again = sorted([[x.id for x in b.notes] for b in part.iter_all(S.Beam)])
            if again != got:
                dev("second_call_changes_beams", c, again, got)
        except Exception as ex:
            dev("raises_second_call", c, "%s: %s" % (type(ex).__name__, str(ex)[:200]), "no exception")
    out = os.path.join(common.OUT, "growth")
    os.makedirs(out, exist_ok=True)
    ev = {"growth_id": "G07", "spec": "Beaming.tla / BeamingCases.tla", "tier": tier,
          "tlc": [{"run": "scan as found (LongNotesBreak = FALSE)", "violated": found.violated, "distinct_states": found.distinct},
                  {"run": "repaired scan", "distinct_states": r.distinct, "states_generated": r.generated, "depth": r.depth, "wall_s": round(r.wall_s, 1),
                   "actions": {k: list(v) for k, v in r.coverage.items()}}],
          "scenarios_replayed": n, "deviations": deviations, "first_of_each": first, "wall_s": round(time.time() - t0, 1)}
    with open(os.path.join(out, "G07.json"), "w") as f:
        json.dump(ev, f, indent=1, default=str)
    for k, v in sorted(deviations.items()):
        print("DEVIATION growth=G07 clause=%s count=%d first=%s" % (k, v, json.dumps(first[k], default=str)[:700]))
    print("SUMMARY growth=G07 tier=%s states=%d scenarios=%d deviations=%d wall=%.1fs" % (tier, r.distinct, n, sum(deviations.values()), time.time() - t0))
    return 1 if deviations else 0


def entry():
    try:
        rc = main()
    except tlc.TLCError as ex:
        print("MACHINERY-FAILURE growth=G07 %s" % str(ex)[:1500])
        rc = 2
    except Exception:
        import traceback
        print("MACHINERY-FAILURE growth=G07\n" + traceback.format_exc())
        rc = 2
    sys.exit(rc)
