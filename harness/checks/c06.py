"""C06 — performance MIDI export and import preserve notes, controls and timing.

MidiStream.tla is an interpreter of MIDI track lists written from the format's semantics (tick
cursor, pairing of note-on with the next note-off / zero-velocity note-on of the same channel and
pitch, one tempo map for the whole file, seconds by integration).  For every file — those partitura
writes from generated performances and generated files with arbitrary tempo events in any track —
TLC prints what the file denotes and the ticks the source performance must have been written at;
the harness compares the written file with the performance and the loaded performance with the file."""
import concurrent.futures
import json
import os
import random
import sys
from fractions import Fraction

import numpy as np

from .. import common, tlc
from .c12 import uniq


def encode_track(track):
    out = []
    for m in track:
        d = {"dt": int(m.time), "kind": "other", "ch": 0, "a": 0, "b": 0, "s": ""}
        t = m.type
        if t == "note_on":
            d.update(kind="on", ch=m.channel, a=m.note, b=m.velocity)
        elif t == "note_off":
            d.update(kind="off", ch=m.channel, a=m.note, b=m.velocity)
        elif t == "control_change":
            d.update(kind="cc", ch=m.channel, a=m.control, b=m.value)
        elif t == "program_change":
            d.update(kind="pc", ch=m.channel, a=m.program)
        elif t == "set_tempo":
            d.update(kind="tempo", a=m.tempo // 1000)
        elif t == "time_signature":
            d.update(kind="ts", a=m.numerator, b=m.denominator)
        elif t == "key_signature":
            d.update(kind="ks", s=str(m.key))
        elif t == "end_of_track":
            d.update(kind="meta", s="end_of_track:")
        elif m.is_meta:
            d.update(kind="meta", s="%s:%s" % (t, getattr(m, "text", getattr(m, "name", ""))))
        for k in ("dt", "ch", "a", "b"):
            d[k] = int(d[k])
        out.append(d)
    return out


def make_perf(P, rng, contiguous=True):
    nparts = rng.randint(1, 3)
    parts = []
    times = []      # every event time as a Fraction, in a fixed order (for TLC's expected ticks)
    track = 0
    used = {}
    for k in range(nparts):
        ntr = rng.choice([1, 1, 2])
        tracks = list(range(track, track + ntr))
        track += ntr
        notes = []
        for i in range(rng.randint(ntr, 8)):
            tr, ch, pitch = rng.choice(tracks), rng.randint(0, 15), rng.randint(21, 108)
            if i < len(tracks):
                tr = tracks[i]           # every track of the part carries at least one note
            start = used.get((ch, pitch), Fraction(0))
            on = start + Fraction(rng.randint(0, 24), 16)
            off = on + Fraction(rng.randint(0, 24), 16)
            used[(ch, pitch)] = off        # no overlap of equal (channel, pitch), also after merging tracks
            notes.append(dict(id="p%dn%d" % (k, i), midi_pitch=pitch, note_on=float(on), note_off=float(off),
                              velocity=rng.randint(1, 127), track=tr, channel=ch, _on=on, _off=off))
        controls = [dict(number=rng.choice([64, 67, 1, 7, 11]), time=None, value=rng.randint(0, 127), track=rng.choice(tracks),
                         channel=rng.randint(0, 15), _t=Fraction(rng.randint(0, 80), 16)) for _ in range(rng.randint(0, 5))]
        programs = [dict(program=rng.randint(0, 127), time=None, track=rng.choice(tracks), channel=rng.randint(0, 15),
                         _t=Fraction(rng.randint(0, 20), 16)) for _ in range(rng.choice([0, 0, 1, 2]))]
        kss = [dict(fifths=rng.randint(-7, 7), mode=rng.choice(["major", "minor"]), time=None, track=tracks[0],
                    _t=Fraction(rng.randint(0, 40), 16)) for _ in range(rng.choice([0, 1]))]
        tss = [dict(beats=rng.choice([2, 3, 4, 6]), beat_type=rng.choice([2, 4, 8]), time=None, track=tracks[0],
                    _t=Fraction(rng.randint(0, 40), 16)) for _ in range(rng.choice([0, 1]))]
        metas = [dict(type="text", text="m%d" % rng.randint(0, 9), time=None, track=tracks[0], _t=Fraction(rng.randint(0, 40), 16))
                 for _ in range(rng.choice([0, 1]))]
        for lst in (controls, programs, kss, tss, metas):
            for e in lst:
                e["time"] = float(e["_t"])
        parts.append(dict(notes=notes, controls=controls, programs=programs, kss=kss, tss=tss, metas=metas, tracks=tracks))
    return parts


def strip(d):
    return {k: v for k, v in d.items() if not k.startswith("_")}


def near_half(fr, ppq, mpq):
    x = fr * 10 ** 6 * ppq / mpq
    frac = x - (x.numerator // x.denominator)
    return frac != Fraction(1, 2) and abs(frac - Fraction(1, 2)) < Fraction(1, 10 ** 6)


def run_gen(args):
    tag, env = args
    return tlc.run("MidiCases", "MidiCases.cfg", tag, workers=1, env=env, expect_violation=True, timeout=3000, heap="3g")


def random_midi(mido, rng):
    """A well-formed MIDI file with tempo events in any track and no overlapping equal (channel, pitch) in a track."""
    ppq = rng.choice([24, 96, 120, 480])
    ntr = rng.randint(1, 3)
    mf = mido.MidiFile(type=1 if ntr > 1 else 0, ticks_per_beat=ppq)
    tempo_ticks = set()
    for t in range(ntr):
        tr = mido.MidiTrack()
        mf.tracks.append(tr)
        events = []   # (tick, order, msg factory)
        busy = {}
        for _ in range(rng.randint(0, 6)):
            ch, p = rng.randint(0, 3), rng.randint(40, 80)
            on = busy.get((ch, p), 0) + rng.randint(0, 3 * ppq)
            off = on + rng.randint(0, 2 * ppq)
            busy[(ch, p)] = off
            vel = rng.randint(1, 127)
            events.append((on, 1, mido.Message("note_on", note=p, velocity=vel, channel=ch)))
            if rng.random() < 0.5:
                events.append((off, 0, mido.Message("note_off", note=p, velocity=rng.choice([0, 64]), channel=ch)))
            else:
                events.append((off, 0, mido.Message("note_on", note=p, velocity=0, channel=ch)))
        for _ in range(rng.randint(0, 3)):
            tk = rng.randint(0, 6 * ppq)
            if tk in tempo_ticks:
                continue
            tempo_ticks.add(tk)
            events.append((tk, 2, mido.MetaMessage("set_tempo", tempo=rng.choice([250, 400, 500, 500, 600, 750, 1000]) * 1000)))
        for _ in range(rng.randint(0, 3)):
            events.append((rng.randint(0, 6 * ppq), 3, mido.Message("control_change", control=rng.choice([64, 67, 7]),
                                                                    value=rng.randint(0, 127), channel=rng.randint(0, 3))))
        if rng.random() < 0.3:
            events.append((rng.randint(0, ppq), 3, mido.Message("program_change", program=rng.randint(0, 100), channel=rng.randint(0, 3))))
        if rng.random() < 0.3:
            events.append((rng.randint(0, 4 * ppq), 3, mido.MetaMessage("time_signature", numerator=rng.choice([3, 4, 6]), denominator=rng.choice([4, 8]))))
        if rng.random() < 0.3:
            events.append((rng.randint(0, 4 * ppq), 3, mido.MetaMessage("key_signature", key=rng.choice(["C", "Am", "F#", "Ebm", "Bb"]))))
        if rng.random() < 0.2:
            events.append((rng.randint(0, 4 * ppq), 0, mido.Message("note_off", note=100, velocity=0, channel=0)))   # unmatched
        events.sort(key=lambda e: (e[0], e[1]))
        last = 0
        for tk, _, m in events:
            tr.append(m.copy(time=tk - last))
            last = tk
        tr.append(mido.MetaMessage("end_of_track", time=0))
    return mf


def main(chk):
    common.setup_repo_path()
    import mido
    import partitura
    import partitura.performance as P
    from partitura.io.importmidi import load_performance_midi
    from partitura.io.exportmidi import save_performance_midi
    rng = random.Random(chk.seed)
    cases = []
    ctx = {}
    n_perf = 400 if chk.tier == "quick" else 4000
    n_file = 700 if chk.tier == "quick" else 8000
    cid = 0
    # ---- (a) performances written by partitura
    for _ in range(n_perf):
        parts = make_perf(P, rng)
        ppq, mpq = rng.choice([(480, 500000), (96, 250000), (220, 600000), (960, 1000000), (24, 333000)])
        merge_save = rng.random() < 0.3
        all_times = [n["_on"] for p in parts for n in p["notes"]] + [n["_off"] for p in parts for n in p["notes"]] + \
                    [e["_t"] for p in parts for lst in (p["controls"], p["programs"], p["kss"], p["tss"], p["metas"]) for e in lst]
        if any(near_half(t, ppq, mpq) for t in all_times):
            continue
        pps = [P.PerformedPart([strip(n) for n in p["notes"]], id="pp%d" % k, part_name="pp%d" % k,
                               controls=[strip(e) for e in p["controls"]], programs=[strip(e) for e in p["programs"]],
                               key_signatures=[strip(e) for e in p["kss"]], time_signatures=[strip(e) for e in p["tss"]],
                               meta_other=[strip(e) for e in p["metas"]], ppq=ppq, mpq=mpq, track=p["tracks"][0])
               for k, p in enumerate(parts)]
        form = rng.choice(["performance", "list", "part"])
        if form == "part":
            pps, parts = pps[:1], parts[:1]
            arg = pps[0]
        elif form == "list":
            arg = pps
        else:
            arg = P.Performance(id="perf", performedparts=pps, ensure_unique_tracks=False)
        cid += 1
        try:
            mf = save_performance_midi(arg, out=None, mpq=mpq, ppq=ppq, merge_tracks_save=merge_save)
        except Exception as ex:
            chk.violation("c2s", "save_performance_midi.raises", {"form": form, "exc": repr(ex)}, op="save", form=form,
                          exc=type(ex).__name__)
            continue
        times = [[t.numerator, t.denominator] for t in all_times]
        cases.append({"cid": cid, "ppq": ppq, "defmpqk": 500, "wmpqk": mpq // 1000, "times": times,
                      "tracks": [encode_track(tr) for tr in mf.tracks]})
        ctx[cid] = ("perf", parts, all_times, mf, ppq, mpq, merge_save, form)
    # ---- (b) generated files
    for _ in range(n_file):
        mf = random_midi(mido, rng)
        merge = rng.random() < 0.3
        cid += 1
        tracks = [mido.merge_tracks(mf.tracks)] if merge else mf.tracks
        cases.append({"cid": cid, "ppq": mf.ticks_per_beat, "defmpqk": 500, "wmpqk": 500, "times": [],
                      "tracks": [encode_track(tr) for tr in tracks]})
        ctx[cid] = ("file", mf, merge)
    shards = 8
    jobs = []
    for k in range(shards):
        wd = tlc.workdir("c06/file%d" % k)
        path = os.path.join(wd, "cases.json")
        with open(path, "w") as f:
            json.dump(cases[k::shards], f)
        jobs.append(("c06/file%d" % k, {"CASE_FILE": path}))
    with concurrent.futures.ThreadPoolExecutor(shards) as ex:
        results = list(ex.map(run_gen, jobs))
    outs = {}
    for r in results:
        chk.add_mc("MidiCases", r)
        if r.violated:
            chk.machinery("MidiStream violates its own property %s\n%s" % (r.violated, r.error_trace[:1200]))
            return
        for j in uniq(r.json_lines()):
            outs[j["cid"]] = j

    def fr(p):
        return p[0] / p[1]

    def close(x, y):
        return abs(x - y) <= 1e-9 * max(1.0, abs(y))

    def compare_loaded(report, perf, den, what):
        """loaded performance vs what the file denotes (per track)."""
        # a track becomes a performed part when it has notes, controls or programs; the parts' track numbers are
        # then made unique in order (Performance.sanitize_track_numbers), i.e. the k-th such track is track k
        content = [t for t, d in enumerate(den) if d["notes"] or d["ccs"] or d["pcs"]]
        if len(content) != len(perf.performedparts):
            report(what + ".number_of_parts", {"expected": len(content), "got": len(perf.performedparts)})
            return
        for k, t in enumerate(content):
            d = den[t]
            pp = perf.performedparts[k]
            d = dict(d, notes=[dict(n, track=k) for n in d["notes"]])
            exp_notes = sorted((n["pitch"], n["vel"], n["ch"], n["track"], n["on"], n["off"]) for n in d["notes"])
            got = sorted((n["midi_pitch"], n["velocity"], n["channel"], n["track"], n["note_on_tick"], n["note_off_tick"]) for n in pp.notes)
            if got != exp_notes:
                report(what + ".notes", {"track": t, "expected": exp_notes[:5], "got": got[:5]})
                continue
            secs = {(n["pitch"], n["ch"], n["on"], n["off"]): (fr(n["on_sec"]), fr(n["off_sec"])) for n in d["notes"]}
            for n in pp.notes:
                e = secs[(n["midi_pitch"], n["channel"], n["note_on_tick"], n["note_off_tick"])]
                if not close(n["note_on"], e[0]) or not close(n["note_off"], e[1]):
                    report(what + ".seconds", {"track": t, "note": [n["midi_pitch"], n["note_on_tick"], n["note_off_tick"]],
                                               "expected": list(e), "got": [n["note_on"], n["note_off"]]})
                    break
            # ids in order of onset, pitch, offset, channel, track
            order = sorted(pp.notes, key=lambda n: (n["note_on"], n["midi_pitch"], n["note_off"], n["channel"], n["track"]))
            if [n["id"] for n in order] != ["n%d" % k for k in range(len(order))]:
                report(what + ".ids", {"track": t, "ids": [n["id"] for n in order][:8]})
            gc = [(c["time_tick"], c["number"], c["value"], c["channel"]) for c in pp.controls]
            ec = [(c["tick"], c["number"], c["value"], c["ch"]) for c in d["ccs"]]
            if sorted(gc) != sorted(ec):
                report(what + ".controls", {"track": t, "expected": ec[:5], "got": gc[:5]})
            elif any(not close(c["time"], fr(e["sec"])) for c, e in zip(sorted(pp.controls, key=lambda c: (c["time_tick"], c["number"], c["value"], c["channel"])),
                                                                         sorted(d["ccs"], key=lambda c: (c["tick"], c["number"], c["value"], c["ch"])))):
                report(what + ".control_seconds", {"track": t})
            gp = sorted((c["time_tick"], c["program"], c["channel"]) for c in pp.programs)
            ep = sorted((c["tick"], c["program"], c["ch"]) for c in d["pcs"])
            if gp != ep:
                report(what + ".programs", {"track": t, "expected": ep[:5], "got": gp[:5]})
            gt = sorted((c["time_tick"], c["beats"], c["beat_type"]) for c in pp.time_signatures)
            et = sorted((c["tick"], c["beats"], c["beat_type"]) for c in d["tss"])
            if gt != et:
                report(what + ".time_signatures", {"track": t, "expected": et, "got": gt})
            gk = sorted((c["time_tick"], c["key_name"]) for c in pp.key_signatures)
            ek = sorted((c["tick"], c["name"]) for c in d["kss"])
            if gk != ek:
                report(what + ".key_signatures", {"track": t, "expected": ek, "got": gk})
            if len(pp.meta_other) != len(d["metas"]):
                report(what + ".meta_other", {"track": t, "expected": d["metas"], "got": len(pp.meta_other)})

    for cid in sorted(outs):
        o = outs[cid]
        den = o["denote"]
        info = ctx[cid]
        chk.count(1, validated=1)
        if info[0] == "perf":
            _, parts, all_times, mf, ppq, mpq, merge_save, form = info
            chk.nontrivial(cid) if len(parts) > 1 or merge_save else None

            def report(clause, detail, **attrs):
                chk.violation("c2s", clause, dict(cid=cid, form=form, ppq=ppq, mpq=mpq, merge_tracks_save=merge_save, **detail),
                              replay={"case": cid}, op=clause.split(".")[0], **attrs)
            tick = {t: k for t, k in zip(all_times, o["expect_ticks"])}
            # expected content per written track
            trmap = {}
            alltracks = sorted(set(t for p in parts for n in p["notes"] for t in [n["track"]]) |
                               set(e["track"] for p in parts for lst in (p["controls"], p["programs"], p["kss"], p["tss"], p["metas"]) for e in lst))
            for j, t in enumerate(alltracks):
                trmap[t] = 0 if merge_save else j
            exp_notes = sorted((n["midi_pitch"], n["velocity"], n["channel"], trmap[n["track"]], tick[n["_on"]], tick[n["_off"]])
                               for p in parts for n in p["notes"])
            got_notes = sorted((n["pitch"], n["vel"], n["ch"], n["track"], n["on"], n["off"]) for d in den for n in d["notes"])
            if got_notes != exp_notes:
                report("written_file.notes", {"expected": exp_notes[:6], "got": got_notes[:6]})
            exp_cc = sorted((tick[e["_t"]], e["number"], e["value"], e["channel"], trmap[e["track"]]) for p in parts for e in p["controls"])
            got_cc = sorted((c["tick"], c["number"], c["value"], c["ch"], t) for t, d in enumerate(den) for c in d["ccs"])
            if got_cc != exp_cc:
                report("written_file.controls", {"expected": exp_cc[:6], "got": got_cc[:6]})
            exp_pc = sorted((tick[e["_t"]], e["program"], e["channel"], trmap[e["track"]]) for p in parts for e in p["programs"])
            got_pc = sorted((c["tick"], c["program"], c["ch"], t) for t, d in enumerate(den) for c in d["pcs"])
            # parts without programs get a default program 0 per (track, channel): allowed extra events
            got_pc_nd = [x for x in got_pc if x in exp_pc or x[1] != 0]
            if sorted(got_pc_nd) != exp_pc and not all(x in got_pc for x in exp_pc):
                report("written_file.programs", {"expected": exp_pc[:6], "got": got_pc[:6]})
            exp_ts = sorted((tick[e["_t"]], e["beats"], e["beat_type"]) for p in parts for e in p["tss"])
            got_ts = sorted((c["tick"], c["beats"], c["beat_type"]) for d in den for c in d["tss"])
            if exp_ts != got_ts:
                report("written_file.time_signatures", {"expected": exp_ts, "got": got_ts})
            exp_ks = sorted((tick[e["_t"]], e["fifths"], e["mode"]) for p in parts for e in p["kss"])
            if len(exp_ks) != sum(len(d["kss"]) for d in den) or \
                    sorted(tick[e["_t"]] for p in parts for e in p["kss"]) != sorted(c["tick"] for d in den for c in d["kss"]):
                report("written_file.key_signatures", {"expected": exp_ks})
            exp_meta = sorted((tick[e["_t"]], "text:" + e["text"]) for p in parts for e in p["metas"])
            got_meta = sorted((c["tick"], c["what"]) for d in den for c in d["metas"] if not c["what"].startswith("end_of_track"))
            if exp_meta != got_meta:
                report("written_file.meta_other", {"expected": exp_meta, "got": got_meta})
            if any(d["hanging"] for d in den):
                report("written_file.hanging_notes", {})
            for merge_load in (False, True):
                try:
                    perf2 = load_performance_midi(mf, merge_tracks=merge_load)
                except Exception as ex:
                    report("load_written.raises", {"exc": repr(ex), "merge_tracks": merge_load})
                    continue
                if not merge_load:
                    compare_loaded(report, perf2, den, "load_written")
                else:
                    n_exp = sum(len(d["notes"]) for d in den)
                    n_got = sum(len(pp.notes) for pp in perf2.performedparts)
                    # (merging puts all tracks into one: notes of different tracks on the same channel and pitch that
                    #  overlap or touch can then no longer be told apart - outside what a track can express; not judged)
                    alln = sorted((x["ch"], x["pitch"], x["on"], x["off"]) for d in den for x in d["notes"])
                    clash = any(a[0] == b[0] and a[1] == b[1] and b[2] <= a[3] for a, b in zip(alln, alln[1:]))
                    if n_exp != n_got and not clash:
                        report("load_written_merged.note_count", {"expected": n_exp, "got": n_got})
        else:
            _, mf, merge = info
            chk.nontrivial(cid) if sum(1 for tr in mf.tracks for m in tr if m.type == "set_tempo") > 1 else None

            def report(clause, detail, **attrs):
                chk.violation("c2s", clause, dict(cid=cid, merge_tracks=merge,
                                                  file=[[str(m) for m in tr] for tr in mf.tracks], **detail),
                              replay={"case": cid}, op=clause.split(".")[0], **attrs)
            try:
                perf2 = load_performance_midi(mf, merge_tracks=merge)
            except Exception as ex:
                report("load_file.raises", {"exc": repr(ex)})
                continue
            compare_loaded(report, perf2, den, "load_file")
    chk.part("cases", written_from_performances=sum(1 for v in ctx.values() if v[0] == "perf"),
             generated_files=sum(1 for v in ctx.values() if v[0] == "file"))
    chk.sample({"kind": "generated file", "tracks": [[str(m) for m in tr][:6] for tr in ctx[cid][1].tracks],
                "denotes": outs[cid]["denote"][0]["notes"][:2] if outs.get(cid) else None})
    chk.assumptions += ["performance times are multiples of 1/16 s (exact); times whose exact tick value lies within 1e-6 of a half are not generated",
                        "tempo values are multiples of 1000 microseconds; no two set_tempo events of different tracks at the same tick",
                        "track numbers of generated performances are contiguous from 0; parts without program changes may gain the default program 0"]


def entry():
    chk = common.Check("C06")
    try:
        main(chk)
    except tlc.TLCError as ex:
        chk.machinery(str(ex))
    except Exception:
        import traceback
        chk.machinery("exception in check machinery:\n" + traceback.format_exc())
    sys.exit(chk.finish(rule="files written by save_performance_midi from generated performances (Performance / PerformedPart / list; ppq, mpq, "
                             "merging) and generated MIDI files with tempo events in any track; TLC prints the denotation of every file; "
                             "non-trivial = several parts or merging / more than one tempo event", exhaustive=False))
