"""C14 — performed notes sound until release or later, exactly as the pedal dictates.

Pedal.tla is a timed machine (pedal changes, strikes, releases; simultaneous events in every order).
S2C : TLC enumerates small scenarios and prints every acceptable outcome; the harness builds the
      PerformedPart and the observed sounding ends must be one of the outcomes.
C2S : seeded random scenarios (more notes, unsorted input order, other controllers, thresholds set in
      sequence on one object) are recorded with the observed sounding ends, note-array ticks and track
      renumbering, and accepted iff some run of the machine agrees (TLC validates)."""
import concurrent.futures
import json
import os
import random
import re
import sys

import numpy as np

from .. import common, tlc
from .c12 import uniq

GRID = 0.25   # seconds per grid unit (dyadic: exact in binary floating point)
DEN = 4


def build(P, sc, rng=None, th=None, extra_controls=True):
    notes = [dict(id="n%d" % k, midi_pitch=n["p"], note_on=n["on"] * GRID, note_off=n["off"] * GRID, velocity=60 + k,
                  track=0, channel=1) for k, n in enumerate(sc["notes"])]
    controls = [dict(number=64, time=e["t"] * GRID, value=e["v"], track=0, channel=1) for e in sc["peds"]]
    if extra_controls and rng is not None:
        for _ in range(rng.randint(0, 2)):
            controls.insert(rng.randint(0, len(controls)), dict(number=rng.choice([67, 1, 7]), time=rng.randint(0, 8) * GRID,
                                                                 value=rng.randint(0, 127), track=0, channel=1))
    kw = {}
    if th is not None:
        kw["sustain_pedal_threshold"] = th
    return P.PerformedPart(notes, id="pp", controls=controls, **kw)


def obs_of(pp):
    return [float(n["sound_off"]) / GRID for n in pp.notes]


def run_tlc(args):
    source, tag, env = args
    return tlc.run("PedalCases", "PedalCases.%s.cfg" % source, tag, workers=1, env=env, expect_violation=True,
                   timeout=3000, heap="3g")


def random_scenario(rng):
    nn = rng.randint(1, 7)
    pitches = [rng.choice([60, 60, 61, 72]) for _ in range(nn)]
    maxt = rng.choice([6, 12, 24])
    notes = []
    for p in pitches:
        on = rng.randint(0, maxt)
        off = rng.randint(on, min(maxt, on + rng.choice([0, 1, 2, 5, 9])))
        notes.append({"p": p, "on": on, "off": off})
    peds = [{"t": rng.randint(0, maxt + 2), "v": rng.choice([0, 0, 20, 63, 64, 65, 100, 127])} for _ in range(rng.randint(0, 6))]
    return {"notes": notes, "peds": peds}


def main(chk):
    common.setup_repo_path()
    import partitura.performance as P
    rng = random.Random(chk.seed)

    # ---- S2C: enumerated scenarios with all acceptable outcomes
    env = {"SMALL": "1"} if chk.tier == "quick" else {}
    jobs = [("enum", "c14/enum%d" % k, dict(env, SHARD=str(k))) for k in range(16)]
    with concurrent.futures.ThreadPoolExecutor(16) as ex:
        results = list(ex.map(run_tlc, jobs))
    outcomes = {}
    ties = {}
    for r in results:
        chk.add_mc("PedalCases.enum", r)
        if r.violated:
            chk.machinery("Pedal machine violates its own invariant %s\n%s" % (r.violated, r.error_trace[:1200]))
            return
        for j in uniq(r.json_lines()):
            outcomes.setdefault(json.dumps(j["sc"], sort_keys=True), []).append(j["out"])
            ties[json.dumps(j["sc"], sort_keys=True)] = j["tie"]
    for key, outs in outcomes.items():
        sc = json.loads(key)
        chk.count(1, validated=1)
        if sc["peds"]:
            chk.nontrivial(key)
        try:
            pp = build(P, sc, th=sc["th"], extra_controls=False)
            obs = obs_of(pp)
        except Exception as ex:
            chk.violation("s2c", "construction_raises", {"scenario": sc, "exc": repr(ex)}, op="PerformedPart")
            continue
        tie = ties[key]
        ok = any(all(((o == e) if e != -1 else (o >= n["off"])) or (tie[k] == 1 and o == n["off"])
                     for k, (o, e, n) in enumerate(zip(obs, out, sc["notes"]))) for out in outs)
        if not ok:
            before = [k for k, (o, n) in enumerate(zip(obs, sc["notes"])) if o < n["off"]]
            chk.violation("s2c", "sound_off_before_release" if before else "sound_off",
                          {"scenario": sc, "observed": obs, "acceptable": outs[:4], "unit": "grid steps of 0.25 s"},
                          replay={"scenario": sc, "acceptable": outs}, op="PerformedPart",
                          same_pitch=len(set(n["p"] for n in sc["notes"])) < len(sc["notes"]))
    chk.part("s2c_enumerated", scenarios=len(outcomes))
    k0 = sorted(outcomes)[len(outcomes) // 2]
    chk.sample({"kind": "enumerated scenario", "scenario": json.loads(k0), "acceptable_outcomes": outcomes[k0]})

    # ---- C2S: random scenarios, thresholds set in sequence on one object
    nsc = 300 if chk.tier == "quick" else 4000
    recs = []
    rid = 0
    for s in range(nsc):
        sc = random_scenario(rng)
        ths = [64] + rng.sample([0, 1, 30, 63, 65, 100, 126, 127], 3)
        try:
            pp = build(P, sc, rng=rng)
        except Exception as ex:
            chk.violation("c2s", "construction_raises", {"scenario": sc, "exc": repr(ex)}, op="PerformedPart")
            continue
        ppq, mpqk = rng.choice([(480, 500), (96, 250), (220, 600), (24, 1000)])
        pp.ppq, pp.mpq = ppq, mpqk * 1000
        by_th = {}
        for th in ths:
            try:
                pp.sustain_pedal_threshold = th
            except Exception as ex:
                chk.violation("c2s", "threshold_setter_raises", {"scenario": sc, "th": th, "exc": repr(ex)}, op="set_threshold")
                break
            obs = obs_of(pp)
            by_th[th] = obs
            if any(abs(o - round(o)) > 1e-9 for o in obs):
                chk.violation("c2s", "sound_off_not_an_event_time", {"scenario": sc, "th": th, "observed": obs}, op="set_threshold")
                continue
            na = pp.note_array()
            for k, n in enumerate(sc["notes"]):
                if abs(float(na["onset_sec"][k]) - n["on"] * GRID) > 1e-6 or \
                        abs(float(na["duration_sec"][k]) - (obs[k] - n["on"]) * GRID) > 1e-5:
                    chk.violation("c2s", "note_array_seconds", {"scenario": sc, "th": th, "row": k,
                                                                "row_value": [float(na["onset_sec"][k]), float(na["duration_sec"][k])]}, op="note_array")
                if int(na["pitch"][k]) != n["p"] or int(na["velocity"][k]) != 60 + k:
                    chk.violation("c2s", "note_array_pitch_velocity", {"scenario": sc, "row": k}, op="note_array")
            # rebuilt part from its own note array: same pitches, velocities, onsets, sounding ends
            try:
                pp2 = P.PerformedPart.from_note_array(na)
                for k, n2 in enumerate(pp2.notes):
                    if n2["midi_pitch"] != sc["notes"][k]["p"] or n2["velocity"] != 60 + k or \
                            abs(n2["note_on"] - sc["notes"][k]["on"] * GRID) > 1e-5 or abs(n2["sound_off"] - obs[k] * GRID) > 1e-5:
                        chk.violation("c2s", "from_note_array", {"scenario": sc, "th": th, "row": k, "got": dict(n2)}, op="from_note_array")
                        break
            except Exception as ex:
                chk.violation("c2s", "from_note_array_raises", {"scenario": sc, "exc": repr(ex)}, op="from_note_array")
            # track renumbering on a performance of two parts
            pp_b = build(P, random_scenario(rng), extra_controls=False)
            for n in pp.notes:
                n["track"] = rng.choice([0, 1, 3])
            for n in pp_b.notes:
                n["track"] = rng.choice([0, 3])
            before = [[int(n["track"]) for n in q.notes] for q in (pp, pp_b)]
            try:
                perf = P.Performance(id="x", performedparts=[pp, pp_b], ensure_unique_tracks=False)
                perf.sanitize_track_numbers()
                after = [[int(n["track"]) for n in q.notes] for q in (pp, pp_b)]
            except Exception as ex:
                chk.violation("c2s", "sanitize_track_numbers_raises", {"exc": repr(ex)}, op="sanitize")
                after = before
            rid += 1
            recs.append({"rid": rid, "notes": sc["notes"], "peds": sc["peds"], "th": th, "obs": [int(round(o)) for o in obs],
                         "den": DEN, "ppq": ppq, "mpqk": mpqk, "on_tick": [int(x) for x in na["onset_tick"]],
                         "dur_tick": [int(x) for x in na["duration_tick"]], "tracks_before": before, "tracks_after": after,
                         "scenario_index": s})
        # "setting it recomputes every note": edit the control stream, then assign the value it already has
        if by_th and rng.random() < 0.7:
            sc2 = {"notes": sc["notes"], "peds": random_scenario(rng)["peds"]}
            th = pp.sustain_pedal_threshold
            pp.controls[:] = [c for c in pp.controls if c["number"] != 64] + \
                [dict(number=64, time=e["t"] * GRID, value=e["v"], track=0, channel=1) for e in sc2["peds"]]
            try:
                pp.sustain_pedal_threshold = th
                obs = obs_of(pp)
                na = pp.note_array()
                rid += 1
                recs.append({"rid": rid, "notes": sc2["notes"], "peds": sc2["peds"], "th": th, "obs": [int(round(o)) for o in obs],
                             "den": DEN, "ppq": ppq, "mpqk": mpqk, "on_tick": [int(x) for x in na["onset_tick"]],
                             "dur_tick": [int(x) for x in na["duration_tick"]], "tracks_before": [[0]], "tracks_after": [[0]],
                             "scenario_index": s, "after_control_edit": 1})
            except Exception as ex:
                chk.violation("c2s", "threshold_setter_raises", {"scenario": sc2, "th": th, "exc": repr(ex)}, op="set_threshold")
        # raising the threshold never lengthens a note
        tl = sorted(by_th)
        for a, b in zip(tl, tl[1:]):
            if any(y > x + 1e-9 for x, y in zip(by_th[a], by_th[b])):
                chk.violation("c2s", "threshold_monotone", {"scenario": sc, "thresholds": [a, b], "ends": [by_th[a], by_th[b]]},
                              op="set_threshold")
        if 127 in by_th and any(abs(o - n["off"]) > 1e-9 for o, n in zip(by_th[127], sc["notes"])):
            chk.violation("c2s", "threshold_127_is_dry", {"scenario": sc, "ends": by_th[127]}, op="set_threshold")
    shards = 8
    jobs = []
    for k in range(shards):
        wd = tlc.workdir("c14/file%d" % k)
        path = os.path.join(wd, "cases.json")
        with open(path, "w") as f:
            json.dump(recs[k::shards], f)
        jobs.append(("file", "c14/file%d" % k, {"CASE_FILE": path}))
    with concurrent.futures.ThreadPoolExecutor(shards) as ex:
        results = list(ex.map(run_tlc, jobs))
    verdict = {}
    for r in results:
        chk.add_mc("PedalCases.file (recorded scenarios)", r)
        if r.violated:
            chk.violation("c2s", "invariant:" + str(r.violated), {"tlc": r.error_trace[:1200]}, op="trace")
        for ln in r.printed:
            m = re.match(r'<<"ACCEPT", (\d+), "(\w+)", "(\w+)">>', ln)
            if m:
                v = verdict.setdefault(int(m.group(1)), set())
                v.add(m.group(2))
                v.add(m.group(3))
    acc = 0
    for rec in recs:
        chk.count(1)
        v = verdict.get(rec["rid"])
        if len(rec["peds"]) >= 2 and len(rec["notes"]) >= 2:
            chk.nontrivial(("c2s", rec["rid"]))
        if v is None:
            before = [k for k, (o, n) in enumerate(zip(rec["obs"], rec["notes"])) if o < n["off"]]
            chk.violation("c2s", "sound_off_before_release" if before else "sound_off",
                          {"scenario": {"notes": rec["notes"], "peds": rec["peds"], "th": rec["th"]}, "observed": rec["obs"]},
                          replay=rec, op="set_threshold")
            continue
        acc += 1
        if "table_bad" in v:
            chk.violation("c2s", "note_array_ticks", {"record": {k: rec[k] for k in ("notes", "obs", "ppq", "mpqk", "on_tick", "dur_tick")}},
                          op="note_array")
        if "tracks_bad" in v:
            chk.violation("c2s", "track_numbers", {"before": rec["tracks_before"], "after": rec["tracks_after"]}, op="sanitize")
    chk.cov["traces_validated_against_impl"] += acc
    chk.part("c2s_random", scenarios=nsc, records=len(recs), accepted=acc)
    if recs:
        chk.sample({"kind": "recorded scenario", "record": recs[0]})
    chk.assumptions += ["times lie on a grid of 0.25 s (exact in binary floating point); simultaneous events may be processed in any order",
                        "a note still sustained when the last event has passed may end anywhere at or after its release"]


def entry():
    chk = common.Check("C14")
    try:
        main(chk)
    except tlc.TLCError as ex:
        chk.machinery(str(ex))
    except Exception:
        import traceback
        chk.machinery("exception in check machinery:\n" + traceback.format_exc())
    sys.exit(chk.finish(rule="S2C: scenarios (2 notes x <= 2 pedal events on a grid) enumerated by TLC with all acceptable outcomes; "
                             "C2S: seeded random scenarios x thresholds validated by the machine; non-trivial = has pedal events "
                             "(S2C) / at least 2 notes and 2 pedal events (C2S)", exhaustive=False))
