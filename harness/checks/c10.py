"""C10 — signature, clef and measure maps return what is in force at the queried time.

TimeMaps.tla defines TimeSigAt / KeySigAt / ClefAt / MeasureMap / MeasureNumberMap / MetricalPos; TLC
checks MeasuresCoverPositions and MetricalPosInRange on every configuration and emits all six maps at
every integer position.  The harness builds each part and compares scalar and array queries and the
optional note-array columns derived from the maps."""
import json
import random
import sys

import numpy as np

from .. import common, tlc, tm_impl
from .c02 import generate

TSALL = [(2, 4), (3, 4), (4, 4), (6, 8), (5, 8), (2, 2), (9, 8), (12, 8), (3, 8), (5, 4)]
DEF_MB = {6: 2, 9: 3, 12: 4}


def random_configs(rng, n):
    out = []
    for cid in range(1, n + 1):
        q = rng.choice([1, 2, 2, 4, 6, 8])
        # measures tile the timeline; bar lengths from the signatures in force (integral in q), some irregular
        ts = {}
        measures = []
        t = 0
        nm = rng.randint(1, 6) if q <= 2 else rng.randint(1, 4)
        b, bt = rng.choice(TSALL)
        while (q * 4 * b) % bt:
            b, bt = rng.choice(TSALL)
        has_ts = rng.random() < 0.9
        ts_start_late = has_ts and rng.random() < 0.15
        if has_ts and not ts_start_late:
            ts[0] = (b, bt, DEF_MB.get(b, b))
        num = rng.choice([0, 1, 1, 1, 5])
        for m in range(nm):
            full = q * 4 * b // bt
            if m == 0 and rng.random() < 0.35 and full > 1:
                length = rng.randint(1, full - 1)           # pickup
            elif rng.random() < 0.15:
                length = rng.randint(1, 2 * full)           # irregular
            else:
                length = full
            # (no signature change directly after a pickup: the bar the pickup belongs to would be ill-defined)
            if m > 0 and rng.random() < 0.25 and not (m == 1 and measures[0][1] - measures[0][0] < q * 4 * b // bt):
                for _ in range(10):
                    b2, bt2 = rng.choice(TSALL)
                    if (q * 4 * b2) % bt2 == 0:
                        b, bt = b2, bt2
                        ts[t] = (b, bt, DEF_MB.get(b, b))
                        length = q * 4 * b // bt
                        break
            if ts_start_late and m == 1 and not ts:
                ts[t] = (b, bt, DEF_MB.get(b, b))
            measures.append([t, t + length, num])
            num += rng.choice([1, 1, 1, 0, 2])
            t += length
        T = t
        ks = {}
        for _ in range(rng.choice([0, 1, 1, 2, 3])):
            ks[rng.choice([0, 0, rng.randint(0, T - 1)])] = (rng.randint(-7, 7), rng.choice([1, -1, 0]))
        nst = rng.choice([1, 1, 2, 3])
        clefs = {}
        for _ in range(rng.choice([0, 1, 2, 4])):
            st = rng.randint(1, nst)
            clefs[(rng.choice([0, 0, rng.randint(0, T - 1)]), st)] = (rng.randint(0, 5), rng.randint(1, 5), rng.choice([0, 0, 1, -1]))
        out.append({"cid": cid, "T": T, "qtab": [[0, q]],
                    "ts": [[t] + list(v) for t, v in sorted(ts.items())],
                    "ks": [[t] + list(v) for t, v in sorted(ks.items())],
                    "clefs": [[t, st] + list(v) for (t, st), v in sorted(clefs.items())],
                    "measures": measures, "musical": rng.choice([0, 0, 1]), "nstaves": nst})
    return out


def structure(cfg, out):
    s = []
    if cfg["measures"] and out["mmap"][0][0] < 0:
        s.append("pickup")
    if cfg["ts"] and min(t[0] for t in cfg["ts"]) > 0:
        s.append("ts_starts_late")
    if not cfg["ts"]:
        s.append("no_ts")
    if not cfg["ks"]:
        s.append("no_ks")
    if len(set(c[1] for c in cfg["clefs"])) < cfg["nstaves"]:
        s.append("staff_without_clef")
    if len(cfg["measures"]) == 1:
        s.append("single_measure")
    return "+".join(s) or "plain"


def check_config(chk, score, cfg, out):
    T = cfg["T"]
    st = structure(cfg, out)
    try:
        part = tm_impl.build(score, cfg)
    except Exception as ex:
        chk.violation("s2c", "build.raises", {"cfg": cfg, "exc": repr(ex)}, op="build")
        return
    ts = np.arange(0, T + 1)
    ts0 = ([e for e in cfg["ts"] if e[0] == 0] or [[0, 4, 4, 4]])[0]
    q0 = sorted(cfg["qtab"])[0][1]
    # the whole timeline is shorter than one beat (a musical beat in musical-beat mode)
    short = bool(T * ts0[2] * ts0[3] < q0 * 4 * ts0[1]) if cfg.get("musical") else bool(T * ts0[2] < q0 * 4)

    def report(clause, detail, **attrs):
        chk.violation("s2c", clause, dict(cfg=cfg, **detail), replay={"cfg": cfg, "expected": out},
                      op=clause.split(".")[0], structure=st, timeline_shorter_than_one_beat=short, **attrs)

    def cmp_map(name, key, positions, conv):
        try:
            f = getattr(part, name)
        except Exception as ex:
            report(name + ".raises", {"exc": repr(ex)})
            return
        try:
            arr = f(np.array(positions))
            for k, t in enumerate(positions):
                if conv(arr[k] if name != "clef_map" else arr[:, k]) != out[key][t]:
                    report(name + ".array", {"t": t, "expected": out[key][t], "got": repr(arr[k] if name != "clef_map" else arr[:, k])})
                    break
        except Exception as ex:
            report(name + ".array.raises", {"exc": repr(ex)})
        try:
            for t in positions:
                v = f(int(t))
                if conv(v) != out[key][t]:
                    report(name + ".scalar", {"t": t, "expected": out[key][t], "got": repr(v)})
                    break
        except Exception as ex:
            report(name + ".scalar.raises", {"exc": repr(ex)})

    def ints(v):
        v = np.asarray(v, dtype=float)
        if np.any(np.isnan(v)):
            return "nan"
        return [int(x) for x in np.ravel(v)]

    allpos = [int(t) for t in ts]
    cmp_map("time_signature_map", "tsmap", allpos, ints)
    cmp_map("key_signature_map", "ksmap", allpos, ints)
    cmp_map("clef_map", "clefmap", allpos, lambda v: [[int(x) for x in row] for row in np.asarray(v).reshape(-1, 4)])
    inside = [t for t in allpos if out["inside"][t]]
    if inside:
        cmp_map("measure_map", "mmap", inside, ints)
        cmp_map("measure_number_map", "mnum", inside, lambda v: int(np.ravel(v)[0]))
        cmp_map("metrical_position_map", "mpos", inside, ints)
    chk.count(1, validated=1)
    chk.nontrivial(json.dumps(cfg, sort_keys=True)) if st != "plain" or len(cfg["ts"]) + len(cfg["ks"]) + len(cfg["clefs"]) > 2 else None


def main(chk):
    common.setup_repo_path()
    import partitura.score as score
    rng = random.Random(chk.seed)
    cases = generate(chk, "c10", chk.tier, "c10")
    if chk.tier == "quick":
        rng2 = random.Random(chk.seed + 1)
        cases = rng2.sample(cases, min(len(cases), 1500))
    nfile = 500 if chk.tier == "quick" else 8000
    fcases = generate(chk, "file", chk.tier, "c10", random_configs(rng, nfile))
    if not cases or not fcases:
        chk.machinery("no cases generated")
        return
    for c in cases + fcases:
        check_config(chk, score, c["cfg"], c["out"])
    chk.part("enumerated", configs=len(cases))
    chk.part("random_with_tlc_oracle", configs=len(fcases))
    c = fcases[0]
    chk.sample({"cfg": c["cfg"], "expected": {k: c["out"][k] for k in ("tsmap", "ksmap", "mmap", "mnum", "mpos")}})
    chk.assumptions += ["timeline starts at 0; measures are contiguous; measure-based maps are compared at positions inside a measure",
                        "a short first measure is expected to be extended backwards to a full bar of the signature in force at 0 (documented anacrusis correction)",
                        "bar lengths are integral in the divisions in force"]


def entry():
    chk = common.Check("C10")
    try:
        main(chk)
    except tlc.TLCError as ex:
        chk.machinery(str(ex))
    except Exception:
        import traceback
        chk.machinery("exception in check machinery:\n" + traceback.format_exc())
    sys.exit(chk.finish(rule="configurations = (time/key signatures, clefs per staff, measure tiling); enumerated family by TLC + "
                             "seeded random with TLC as oracle; non-trivial = pickup / late or missing elements / more than two elements",
                        exhaustive=False))
