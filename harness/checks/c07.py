"""C07 — match-file lines survive format/parse round trips in every version.

MatchLines.tla gives the record schemas and field domains of the line kinds, the exact value of
fractional symbolic durations and of their sums, the MIDI pitch of spelled notes and the 30 key names;
TLC enumerates the records (and checks ComponentsSumToValue / AddCommutes on them).  For every record
and every format version the harness builds the line object, writes it, parses the text (with the
line's own parser and with the ordered parser list of that version), compares every field, writes
again (fixpoint), upgrades pre-1.0 lines to 1.0.0 and compares kind and content.  All lines of the
repository's fixture match files are run through the same obligations."""
import glob
import json
import os
import random
import sys
from fractions import Fraction

import numpy as np

from .. import common, tlc
from .c12 import uniq

SIGN = {"n": 0, "#": 1, "b": -1, "x": 2, "bb": -2}


def main(chk):
    common.setup_repo_path()
    import partitura.io.matchlines_v0 as V0
    import partitura.io.matchlines_v1 as V1
    from partitura.io.matchfile_utils import (FractionalSymbolicDuration as FSD, Version, MatchKeySignature,
                                              MatchTimeSignature)
    from partitura.io.importmatch import parse_matchline, load_matchfile, get_version
    from partitura.io.matchfile_base import MatchError

    res = tlc.run("MatchLines", "MatchLines.cfg", "c07/gen", workers=1, expect_violation=True, timeout=1200)
    chk.add_mc("MatchLines (record enumeration)", res)
    if res.violated:
        chk.machinery("MatchLines violates its own property %s\n%s" % (res.violated, res.error_trace[:1200]))
        return
    cases = uniq(res.json_lines())
    v0_versions = [Version(0, 1, 0), Version(0, 2, 0), Version(0, 3, 0), Version(0, 4, 0), Version(0, 5, 0)]
    v1 = Version(1, 0, 0)

    def fsd(f):
        comps = [(c[0], c[1], c[2] if c[2] else None) for c in f["comps"]] or None
        return FSD(f["num"], f["den"], f["tdiv"] if f["tdiv"] else None, comps)

    def fval(x):
        """exact value of an FSD object"""
        return Fraction(int(x.numerator), int(x.denominator) * int(x.tuple_div or 1))

    def frac(p):
        return Fraction(p[0], p[1])

    def eq(a, b):
        if isinstance(a, FSD) or isinstance(b, FSD):
            return isinstance(a, FSD) and isinstance(b, FSD) and str(a) == str(b) and fval(a) == fval(b)
        if isinstance(a, float) or isinstance(b, float):
            return abs(float(a) - float(b)) < 1e-9
        if isinstance(a, (list, tuple)) and isinstance(b, (list, tuple)):
            return len(a) == len(b) and all(eq(x, y) for x, y in zip(a, b))
        return a == b

    def fields(o):
        """every field of a line object; composite lines (pairs, deletions, ...) keep their fields in sub-objects"""
        out = {}
        subs = [(sub, getattr(o, sub)) for sub in ("snote", "note", "stime", "ptime")
                if getattr(o, sub, None) is not None and hasattr(getattr(o, sub), "field_names")]
        for sub, so in subs:
            for fn in so.field_names:
                if hasattr(so, fn):
                    out[sub + "." + fn] = getattr(so, fn)
        for fn in o.field_names:
            if fn in o.__dict__ or (not subs and hasattr(o, fn)):
                out[fn] = getattr(o, fn)
        return out

    nlines = [0]

    def obligations(report, obj, version, methods, what):
        """format / parse / fixpoint obligations for one line object"""
        nlines[0] += 1
        chk.count(1, validated=1)
        try:
            text = obj.matchline
        except Exception as ex:
            report(what + ".format_raises", {"exc": repr(ex)})
            return None
        for how in ("own", "list"):
            try:
                if how == "own":
                    back = type(obj).from_matchline(text, version=version)
                else:
                    back = parse_matchline(text, methods, version)
                    if back is None:
                        report(what + ".not_recognised_by_parser_list", {"text": text, "version": str(version)})
                        continue
            except Exception as ex:
                report(what + ".parse_raises", {"text": text, "how": how, "exc": repr(ex), "version": str(version)})
                continue
            if type(back) is not type(obj):
                report(what + ".kind_changed", {"text": text, "how": how, "expected": type(obj).__name__, "got": type(back).__name__,
                                                "version": str(version)})
                continue
            fa, fb = fields(obj), fields(back)
            bad = [k for k in fa if k not in fb or not eq(fa[k], fb[k])]
            if bad:
                report(what + ".field_changed", {"text": text, "how": how, "field": bad[0], "written": str(fa[bad[0]]),
                                                 "parsed": str(fb.get(bad[0])), "version": str(version)}, field=bad[0])
            try:
                again = back.matchline
                if again != text:
                    report(what + ".not_a_fixpoint", {"first": text, "second": again, "version": str(version)})
            except Exception as ex:
                report(what + ".reformat_raises", {"exc": repr(ex)})
        return text

    def to_v1_check(report, obj, what, content):
        try:
            up = V1.to_v1(obj)
        except Exception as ex:
            report(what + ".to_v1_raises", {"line": obj.matchline, "exc": repr(ex)}, exc=type(ex).__name__)
            return
        kinds = {"MatchSnoteNote": "MatchSnoteNote", "MatchSnoteDeletion": "MatchSnoteDeletion", "MatchInsertionNote": "MatchInsertionNote",
                 "MatchSustainPedal": "MatchSustainPedal", "MatchSoftPedal": "MatchSoftPedal", "MatchTrillNote": "MatchOrnamentNote",
                 "MatchSnoteTrailingScore": "MatchSnoteDeletion", "MatchSnoteNoPlayedNote": "MatchSnoteDeletion",
                 "MatchHammerBounceNote": "MatchInsertionNote", "MatchTrailingPlayedNote": "MatchInsertionNote"}
        want = kinds.get(type(obj).__name__)
        if want and type(up).__name__ != want:
            report(what + ".to_v1_kind", {"line": obj.matchline, "expected": want, "got": type(up).__name__})
            return
        got = fields(up)
        for k, v in content.items():
            if k not in got or not eq(got[k], v):
                report(what + ".to_v1_content", {"line": obj.matchline, "field": k, "expected": str(v), "got": str(got.get(k)),
                                                 "upgraded": up.matchline}, field=k)
                return

    methods_v1 = V1.FROM_MATCHLINE_METHODS
    methods_v0 = V0.FROM_MATCHLINE_METHODS
    snote_recs = [c for c in cases if c["in"]["kind"] == "snote"]
    note_recs = [c for c in cases if c["in"]["kind"] == "note"]
    rng = random.Random(chk.seed)

    def mk_snote(mod, version, r):
        kw = dict(version=version, anchor=r["anchor"], note_name=r["note_name"], modifier=SIGN[r["modifier"]] if not r["rest"] else None,
                  octave=r["octave"] if not r["rest"] else None, measure=r["measure"], beat=r["beat"], offset=fsd(r["offset"]),
                  duration=fsd(r["duration"]), onset_in_beats=r["onset_in_beats"] / 10000.0, offset_in_beats=r["offset_in_beats"] / 10000.0,
                  score_attributes_list=list(r["attrs"]))
        return mod.MatchSnote(**kw)

    def mk_note(version, r, midi):
        if version >= v1:
            return V1.MatchNote(version=version, id=r["id"], midi_pitch=midi, onset=r["onset"], offset=r["offset"],
                                velocity=r["velocity"], channel=r["channel"], track=r["track"])
        kw = dict(version=version, id=r["id"], note_name=r["note_name"], modifier=SIGN[r["modifier"]], octave=r["octave"],
                  onset=r["onset"], offset=r["offset"], velocity=r["velocity"])
        if "AdjOffset" in V0.NOTE_LINE[version]["field_names"]:
            kw["adj_offset"] = r["adj_offset"]
        return V0.MatchNote(**kw)

    def reporter(kind, case):
        def report(clause, detail, **attrs):
            chk.violation("s2c", clause, dict(record=case, **detail), replay={"record": case}, op=kind, **attrs)
        return report

    default_note = [c for c in note_recs if c["in"]["rec"]["id"] == "n1"][0]
    default_snote = [c for c in snote_recs if c["in"]["rec"]["anchor"] == "n1" and not c["in"]["rec"]["rest"]][0]
    for case in cases:
        k, r, o = case["in"]["kind"], case["in"]["rec"], case["out"]
        chk.nontrivial(json.dumps(case["in"], sort_keys=True))
        report = reporter(k, case["in"])
        try:
            if k == "snote":
                for version, mod, methods in [(v1, V1, methods_v1)] + [(v, V0, methods_v0) for v in v0_versions]:
                    sn = mk_snote(mod, version, r)
                    if not r["rest"] and sn.MidiPitch != o["midi"]:
                        report("snote.midi_pitch", {"expected": o["midi"], "got": sn.MidiPitch})
                    if fval(sn.Offset) != frac(o["offset"]) or fval(sn.Duration) != frac(o["duration"]):
                        report("snote.duration_value", {"expected": [o["offset"], o["duration"]], "got": [str(sn.Offset), str(sn.Duration)]})
                    # the snote alone is not a line of its own in all versions: embed it
                    nt = mk_note(version, default_note["in"]["rec"], default_note["out"]["midi"])
                    pair = mod.MatchSnoteNote(version=version, snote=sn, note=nt)
                    obligations(report, pair, version, methods, "snote_note")
                    dele = mod.MatchSnoteDeletion(version=version, snote=sn)
                    obligations(report, dele, version, methods, "deletion")
                    content = {"snote.Anchor": r["anchor"], "snote.Measure": r["measure"], "snote.Beat": r["beat"],
                               "snote.OnsetInBeats": r["onset_in_beats"] / 10000.0, "snote.OffsetInBeats": r["offset_in_beats"] / 10000.0,
                               "snote.Offset": sn.Offset, "snote.Duration": sn.Duration, "snote.ScoreAttributesList": list(r["attrs"])}
                    if not r["rest"]:
                        content.update({"snote.NoteName": r["note_name"], "snote.Modifier": o["alter"], "snote.Octave": r["octave"]})
                    if version < v1:
                        to_v1_check(report, pair, "snote_note", content)
                        to_v1_check(report, dele, "deletion", content)
                        if rng.random() < 0.3:
                            for cls in (V0.MatchSnoteTrailingScore, V0.MatchSnoteNoPlayedNote):
                                obligations(report, cls(version=version, snote=sn), version, methods, cls.__name__)
            elif k == "note":
                for version, mod, methods in [(v1, V1, methods_v1)] + [(v, V0, methods_v0) for v in v0_versions]:
                    nt = mk_note(version, r, o["midi"])
                    if nt.MidiPitch != o["midi"]:
                        report("note.midi_pitch", {"expected": o["midi"], "got": nt.MidiPitch})
                    ins = mod.MatchInsertionNote(version=version, note=nt)
                    obligations(report, ins, version, methods, "insertion")
                    sn = mk_snote(mod, version, default_snote["in"]["rec"])
                    pair = mod.MatchSnoteNote(version=version, snote=sn, note=nt)
                    obligations(report, pair, version, methods, "snote_note")
                    content = {"note.Id": r["id"], "note.MidiPitch": o["midi"], "note.Onset": r["onset"], "note.Offset": r["offset"],
                               "note.Velocity": r["velocity"]}
                    if version >= v1:
                        orn = V1.MatchOrnamentNote(version=version, anchor="n7", ornament_type=["trill"], note=nt)
                        obligations(report, orn, version, methods, "ornament")
                    else:
                        to_v1_check(report, ins, "insertion", content)
                        to_v1_check(report, pair, "snote_note", content)
                        tr = V0.MatchTrillNote(version=version, anchor="n7", note=nt)
                        obligations(report, tr, version, methods, "trill")
                        to_v1_check(report, tr, "trill", dict(content, Anchor="n7"))
                        for cls in (V0.MatchHammerBounceNote, V0.MatchTrailingPlayedNote):
                            x = cls(version=version, note=nt)
                            obligations(report, x, version, methods, cls.__name__)
                            to_v1_check(report, x, cls.__name__, content)
            elif k == "pedal":
                for version, mod, methods in [(v1, V1, methods_v1)] + [(v, V0, methods_v0) for v in v0_versions]:
                    for cls in (mod.MatchSustainPedal, mod.MatchSoftPedal):
                        x = cls(version=version, time=r["time"], value=r["value"])
                        obligations(report, x, version, methods, cls.__name__)
                        if version < v1:
                            to_v1_check(report, x, cls.__name__, {"Time": r["time"], "Value": r["value"]})
            elif k == "stime":
                st = V1.MatchStime(version=v1, measure=r["measure"], beat=r["beat"], offset=fsd(r["offset"]),
                                   onset_in_beats=r["onset_in_beats"] / 10000.0, annotation_type=list(r["annotation"]))
                obligations(report, st, v1, [V1.MatchStime.from_matchline], "stime")      # not a line of its own in the parser list
                pt = V1.MatchPtime(version=v1, onsets=[100, 120])
                obligations(report, V1.MatchStimePtime(version=v1, stime=st, ptime=pt), v1, methods_v1, "stimeptime")
            elif k == "ptime":
                obligations(report, V1.MatchPtime(version=v1, onsets=list(r["onsets"])), v1, [V1.MatchPtime.from_matchline], "ptime")
            elif k == "fsd_add":
                a, b = fsd(r["a"]), fsd(r["b"])
                chk.count(1, validated=1)
                if fval(a) != frac(o["a"]) or fval(b) != frac(o["b"]):
                    report("fsd.value", {"expected": [o["a"], o["b"]], "got": [str(fval(a)), str(fval(b))]})
                s = a + b
                if fval(s) != frac(o["sum"]):
                    report("fsd.addition_not_exact", {"a": str(a), "b": str(b), "expected": o["sum"], "got": str(fval(s)), "text": str(s)})
                if fval(a) != frac(o["a"]) or str(a) != str(fsd(r["a"])):
                    report("fsd.addition_changed_operand", {"a": str(a)})
                back = FSD.from_string(str(s)) if hasattr(FSD, "from_string") else None
                if back is not None and (fval(back) != fval(s) or str(back) != str(s)):
                    report("fsd.string_round_trip", {"text": str(s), "parsed": str(back), "value": str(fval(back)), "expected_value": str(fval(s))})
                for x in (a, b):
                    bx = FSD.from_string(str(x))
                    if fval(bx) != fval(x) or str(bx) != str(x):
                        report("fsd.string_round_trip", {"text": str(x), "parsed": str(bx)})
            elif k == "key":
                chk.count(1, validated=1)
                name = o["name"]
                for fmt in ("v1.0.0", "v0.3.0", "v0.1.0"):
                    try:
                        ks = MatchKeySignature(fifths=r["fifths"], mode="minor" if r["minor"] else "major", fmt=fmt)
                        text = str(ks)
                        if fmt == "v1.0.0" and text != name:
                            report("key_signature.name", {"expected": name, "got": text})
                        back = MatchKeySignature.from_string(text)
                        if (back.fifths, back.mode) != (r["fifths"], "minor" if r["minor"] else "major") or str(back) != text:
                            report("key_signature.round_trip", {"text": text, "parsed": [back.fifths, back.mode], "format": fmt,
                                                                "rewritten": str(back)}, fmt=fmt)
                    except Exception as ex:
                        report("key_signature.raises", {"exc": repr(ex), "name": name, "format": fmt})
        except Exception as ex:
            import traceback
            report(k + ".construction_raises", {"exc": repr(ex), "tb": traceback.format_exc()[-600:]}, exc=type(ex).__name__)
    # time signatures
    for b, bt in [(2, 4), (3, 4), (4, 4), (6, 8), (12, 8), (2, 2), (5, 16), (7, 8)]:
        chk.count(1, validated=1)
        try:
            ts = MatchTimeSignature(b, bt, other_components=None)
            back = MatchTimeSignature.from_string(str(ts))
            if (back.numerator, back.denominator) != (b, bt) or str(back) != str(ts):
                chk.violation("s2c", "time_signature.round_trip", {"text": str(ts), "parsed": str(back)}, op="time_signature")
        except Exception as ex:
            chk.violation("s2c", "time_signature.raises", {"exc": repr(ex)}, op="time_signature")
    chk.part("generated", records=len(cases), line_objects=nlines[0])

    # ---- fixture match files: every line through parse -> format -> parse
    files = sorted(glob.glob(os.path.join(common.REPO, "tests", "data", "match", "*.match")))
    if chk.tier == "quick":
        files = files[:8]
    nfix = 0
    for fn in files:
        try:
            version = get_version(open(fn).readline())
        except Exception:
            continue
        methods = methods_v1 if version >= v1 else methods_v0
        for ln in open(fn).read().splitlines()[: (400 if chk.tier == "quick" else 100000)]:
            ln = ln.strip()
            if not ln:
                continue
            try:
                obj = parse_matchline(ln, methods, version)
            except Exception:
                obj = None
            if obj is None:
                continue
            nfix += 1
            chk.count(1, validated=1)
            try:
                text = obj.matchline
                back = parse_matchline(text, methods, version)
                if back is None or type(back) is not type(obj):
                    chk.violation("c2s", "fixture.kind_changed", {"file": os.path.basename(fn), "line": ln, "written": text}, op="fixture")
                elif back.matchline != text:
                    chk.violation("c2s", "fixture.not_a_fixpoint", {"file": os.path.basename(fn), "line": ln, "first": text,
                                                                    "second": back.matchline}, op="fixture")
            except Exception as ex:
                chk.violation("c2s", "fixture.raises", {"file": os.path.basename(fn), "line": ln, "exc": repr(ex)}, op="fixture")
    chk.part("fixtures", files=len(files), lines=nfix)
    chk.sample(cases[0])
    chk.sample(cases[len(cases) // 2])
    chk.assumptions += ["the text grammar is not modelled: only round-trip obligations on objects and text are",
                        "info / scoreprop / meta / section lines are exercised through the fixture files (their constructors take formatter callables)"]


def entry():
    chk = common.Check("C07")
    try:
        main(chk)
    except tlc.TLCError as ex:
        chk.machinery(str(ex))
    except Exception:
        import traceback
        chk.machinery("exception in check machinery:\n" + traceback.format_exc())
    sys.exit(chk.finish(rule="records enumerated by TLC (each field varied over its domain, all note name x modifier x octave) x all format "
                             "versions x line kinds built from them + every line of the fixture match files; every record is distinct",
                        exhaustive=True))
