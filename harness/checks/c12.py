"""C12 — pitch, key, duration and time-unit conversions are mutually consistent.

TLC enumerates the quantifier's input space (PitchCases.tla) and prints for every case the value the
first-principles arithmetic of Pitch.tla / Durations.tla gives (or REJECT); the arithmetic's own
theorems (round trips, bijection on 30 keys, 39 intervals, ...) are ASSUMEs checked by TLC.  The
harness calls the real functions on every case and compares."""
import math
import sys
from fractions import Fraction

import numpy as np

from .. import common, tlc


def frac(p):
    return Fraction(p[0], p[1])


def close(x, f, rel=1e-9):
    f = float(f)
    return abs(float(x) - f) <= rel * max(1.0, abs(f))


MODE_ARG = {"major": "major", "minor": "minor", "none": "none", "null": None, "int1": 1, "int-1": -1,
            "dorian": "dorian", "Major": "Major", "min": "min"}


def uniq(js):
    seen = set()
    out = []
    import json
    for j in js:
        k = json.dumps(j, sort_keys=True)
        if k not in seen:
            seen.add(k)
            out.append(j)
    return out


def main(chk):
    common.setup_repo_path()
    import partitura.score as score
    import partitura.utils.music as M

    res = tlc.run("PitchCases", "PitchCases.c12.cfg", "c12/gen", workers=1, timeout=1200)
    cases = uniq(res.json_lines())
    chk.add_mc("PitchCases.c12 (case generation + ASSUMEd theorems of Pitch/Durations)", res)
    if not cases:
        chk.machinery("no cases generated")
        return
    kinds = {}

    def bad(case, clause, detail):
        i, o = case["in"], case["out"]
        chk.violation("s2c", clause, {"case": i, "expected": o, "got": detail}, op=i["kind"],
                      replay={"case": i, "expected": o})

    for case in cases:
        i, o = case["in"], case["out"]
        k = i["kind"]
        kinds[k] = kinds.get(k, 0) + 1
        chk.count(1, validated=1)
        chk.nontrivial((k, repr(sorted(i.items()))))
        try:
            if k == "ps2midi":
                got = M.pitch_spelling_to_midi_pitch(i["step"], i["alter"], i["octave"])
                if got != o["midi"]:
                    bad(case, "pitch_spelling_to_midi_pitch", got)
                got = M.pitch_spelling_to_midi_pitch(i["step"].lower(), i["alter"] if i["alter"] else None, i["octave"])
                if got != o["midi"]:
                    bad(case, "pitch_spelling_to_midi_pitch(lowercase/None)", got)
                n = score.Note(step=i["step"], octave=i["octave"], alter=i["alter"])
                if n.midi_pitch != o["midi"]:
                    bad(case, "Note.midi_pitch", n.midi_pitch)
                if -2 <= i["alter"] <= 2:
                    want = {0: "", 1: "#", 2: "x", -1: "b", -2: "bb"}[i["alter"]]
                    if n.alter_sign != want:
                        bad(case, "Note.alter_sign", n.alter_sign)
            elif k == "midi2ps":
                got = M.midi_pitch_to_pitch_spelling(i["midi"])
                if list(got) != o["spelling"]:
                    bad(case, "midi_pitch_to_pitch_spelling", list(got))
                back = M.pitch_spelling_to_midi_pitch(*got)
                if back != i["midi"]:
                    bad(case, "midi_round_trip", back)
            elif k == "notename":
                try:
                    got = M.note_name_to_pitch_spelling(o["name"])
                    gm = M.note_name_to_midi_pitch(o["name"])
                except ValueError as ex:
                    got = None
                if o["must_accept"]:
                    if got is None:
                        bad(case, "note_name_rejected", "ValueError")
                    else:
                        st, al, oc = got
                        if (st, al or 0, oc) != (i["step"], o["alter"], i["octave"]) or gm != o["midi"]:
                            bad(case, "note_name_to_pitch_spelling", [st, al, oc, gm])
                elif got is not None:
                    # non-canonical accidental text: acceptance is optional, but then each sign counts a semitone
                    val = sum({"#": 1, "x": 2, "b": -1}[ch] for ch in i["acc"])
                    st, al, oc = got
                    if (st, al or 0, oc) != (i["step"], val, i["octave"]):
                        bad(case, "note_name_noncanonical_value", [st, al, oc])
            elif k == "name_of":
                got = M.pitch_spelling_to_note_name(i["step"], i["alter"], i["octave"])
                if got != o["name"]:
                    bad(case, "pitch_spelling_to_note_name", got)
                else:
                    st, al, oc = M.note_name_to_pitch_spelling(got)
                    if (st, al or 0, oc) != (i["step"], i["alter"], i["octave"]):
                        bad(case, "note_name_round_trip", [st, al, oc])
            elif k == "key":
                marg = MODE_ARG[i["mode"]]
                try:
                    got = M.fifths_mode_to_key_name(i["fifths"], marg)
                except Exception:
                    got = "REJECT"
                if got != o["name"]:
                    bad(case, "fifths_mode_to_key_name", got)
                if o["name"] != "REJECT":
                    ks = score.KeySignature(i["fifths"], marg)
                    if ks.name != o["name"]:
                        bad(case, "KeySignature.name", ks.name)
                try:
                    gi = M.key_mode_to_int(marg)
                except Exception:
                    gi = 0
                if gi != o["modeint"]:
                    bad(case, "key_mode_to_int", gi)
                if o["modeint"] != 0:
                    gm = M.key_int_to_mode(gi)
                    if gm != ("minor" if o["modeint"] < 0 else "major") or M.key_mode_to_int(gm) != gi:
                        bad(case, "key_int_to_mode", gm)
            elif k == "keyname":
                got = M.key_name_to_fifths_mode(o["name"])
                if tuple(got) != (i["fifths"], "minor" if i["minor"] else "major"):
                    bad(case, "key_name_to_fifths_mode", list(got))
            elif k == "interval":
                n, q = i["iv"]
                got = score.Interval(n, q).semitones
                if got != o["semitones"]:
                    bad(case, "Interval.semitones", got)
            elif k == "step2pc":
                if -2 <= i["alter"] <= 2:
                    got = M.step2pc(i["step"], i["alter"])
                    if got != o["pc"]:
                        bad(case, "step2pc", got)
            elif k == "symdur":
                sym = {"type": i["type"], "dots": i["dots"]}
                if i["ratio"] != [1, 1]:
                    sym["actual_notes"], sym["normal_notes"] = i["ratio"]
                got = M.symbolic_to_numeric_duration(sym, i["divs"])
                if not close(got, frac(o["numeric"])):
                    bad(case, "symbolic_to_numeric_duration", got)
                tp = score.Tuplet(actual_notes=i["ratio"][0], normal_notes=i["ratio"][1],
                                  actual_type=i["type"], normal_type=i["type"])
                if Fraction(tp.duration_multiplier) != frac(o["mult"]):
                    bad(case, "Tuplet.duration_multiplier", str(tp.duration_multiplier))
            elif k == "tempo":
                unit = i["unit"] + "." * i["dots"]
                got = M.to_quarter_tempo(unit, i["bpm"])
                if not close(got, frac(o["qtempo"])):
                    bad(case, "to_quarter_tempo", got)
                t = score.Tempo(i["bpm"], unit)
                if abs(t.microseconds_per_quarter - o["mpq"]) > 0:
                    # exact halves are not representable in binary floating point: tolerate 1 only there
                    exact = Fraction(60000000) / frac(o["qtempo"])
                    if not (abs(t.microseconds_per_quarter - o["mpq"]) == 1 and exact.denominator == 2):
                        bad(case, "Tempo.microseconds_per_quarter", t.microseconds_per_quarter)
            elif k == "ticks":
                sec = i["num"] / float(2 ** i["dexp"])
                mpq = i["mpqk"] * 1000
                exact = Fraction(i["num"], 2 ** i["dexp"]) * 1000 * i["ppq"] / i["mpqk"]
                near_half = abs((exact % 1) - Fraction(1, 2)) < Fraction(1, 10 ** 6) and exact.denominator != 2
                if not near_half:
                    got = M.seconds_to_midi_ticks(sec, mpq=mpq, ppq=i["ppq"])
                    if got != o["ticks"] or not isinstance(got, (int, np.integer)):
                        bad(case, "seconds_to_midi_ticks(scalar)", repr(got))
                    try:
                        arr = M.seconds_to_midi_ticks(np.array([sec, sec]), mpq=mpq, ppq=i["ppq"])
                        if list(arr) != [o["ticks"]] * 2 or not np.issubdtype(arr.dtype, np.integer):
                            bad(case, "seconds_to_midi_ticks(array)", repr(arr))
                    except Exception as ex:
                        bad(case, "seconds_to_midi_ticks(array).raises", repr(ex))
            elif k == "secs":
                mpq = i["mpqk"] * 1000
                got = M.midi_ticks_to_seconds(i["ticks"], mpq=mpq, ppq=i["ppq"])
                if not close(got, frac(o["sec"])):
                    bad(case, "midi_ticks_to_seconds(scalar)", got)
                arr = M.midi_ticks_to_seconds(np.array([i["ticks"]]), mpq=mpq, ppq=i["ppq"])
                if not close(arr[0], frac(o["sec"])):
                    bad(case, "midi_ticks_to_seconds(array)", repr(arr))
                back = M.seconds_to_midi_ticks(float(got), mpq=mpq, ppq=i["ppq"])
                if back != i["ticks"]:
                    bad(case, "ticks_round_trip", back)
            elif k == "freq":
                got = M.midi_pitch_to_frequency(o["midi"])
                if not close(got, frac(o["hz"])):
                    bad(case, "midi_pitch_to_frequency", got)
                if M.frequency_to_midi_pitch(float(frac(o["hz"]))) != o["midi"]:
                    bad(case, "frequency_to_midi_pitch", M.frequency_to_midi_pitch(float(frac(o["hz"]))))
        except Exception as ex:
            bad(case, "raises", repr(ex))

    # frequency <-> MIDI pitch invert each other (irrational values: identity only)
    for p in range(0, 128):
        chk.count(1, validated=1)
        try:
            f = M.midi_pitch_to_frequency(p)
            b = M.frequency_to_midi_pitch(f)
            ba = M.frequency_to_midi_pitch(M.midi_pitch_to_frequency(np.array([p, p])))
            if b != p or list(ba) != [p, p]:
                chk.violation("s2c", "frequency_round_trip", {"pitch": p, "got": [b, list(ba)]}, op="freq")
        except Exception as ex:
            chk.violation("s2c", "frequency_round_trip.raises", {"pitch": p, "exc": repr(ex)}, op="freq")
    # clef codes decode to what was encoded
    for sign in ["G", "F", "C", "percussion", "TAB", "jianpu", "none"]:
        chk.count(1, validated=1)
        try:
            code = M.clef_sign_to_int(sign)
            if M.clef_int_to_sign(code) != sign:
                chk.violation("s2c", "clef_code_round_trip", {"sign": sign, "code": code}, op="clef")
        except Exception as ex:
            chk.violation("s2c", "clef_code.raises", {"sign": sign, "exc": repr(ex)}, op="clef")
    codes = [M.clef_sign_to_int(s) for s in ["G", "F", "C", "percussion", "TAB", "jianpu", "none"]]
    if len(set(codes)) != len(codes):
        chk.violation("s2c", "clef_codes_distinct", {"codes": codes}, op="clef")

    chk.part("cases", **kinds)
    for case in cases[::1500][:5]:
        chk.sample(case)
    chk.assumptions += [
        "float results are compared with the exact rational under |x - r| <= 1e-9 max(1, |r|)",
        "non-canonical accidental strings (mixed signs, 'xx') may be rejected; if accepted each sign counts one semitone",
        "frequencies other than A4 * 2^k are irrational: only the round trip pitch -> Hz -> pitch is compared",
        "seconds whose exact tick value lies within 1e-6 of a half are not compared (binary floating point)",
    ]


def entry():
    chk = common.Check("C12")
    try:
        main(chk)
    except tlc.TLCError as ex:
        chk.machinery(str(ex))
    except Exception:
        import traceback
        chk.machinery("exception in check machinery:\n" + traceback.format_exc())
    sys.exit(chk.finish(rule="TLC enumerates PitchCases (exhaustive over the listed finite domains; ticks/seconds over a grid "
                             "of dyadic values); every case is one distinct input; non-trivial = all (each has its own expected value)",
                        exhaustive=True))
