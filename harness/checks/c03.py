"""C03 — MusicXML export then import returns the same score; re-export is a fixpoint.

MusicXMLStream.tla is an interpreter of the partwise format written from the format's rules (cursor,
divisions, chord, grace, backup/forward, ties paired by pitch, measure = furthest point reached); each
<part> of every file save_musicxml writes is read with an XML parser into an event sequence and
validated by TLC (MusicXMLTrace): every event is a step of the stream machine, the format rules hold,
and the document denotes exactly the part that was saved (NoteArray.tla gives the part's sounding
notes in quarters): sounding notes, written notes with voice and staff, measure extents, signatures
and clefs.  The harness then loads the bytes and compares a semantic fingerprint listing exactly the
attributes the property names (x0 vs load(save(x0)), then load(save(.)) again), and the bytes of
successive exports."""
import concurrent.futures
import io
import json
import os
import random
import re
import sys

from .. import common, gen_score, tlc, xmlfp
from .c05 import extract, SIGN_INT


def parse_events(xml_bytes):
    """<part> elements of a MusicXML document as event sequences (independent of partitura's reader)."""
    from lxml import etree
    root = etree.fromstring(xml_bytes)
    out = {}
    txt = lambda e, tag, default=None: (e.find(tag).text if e.find(tag) is not None and e.find(tag).text is not None else default)
    for part_e in root.findall("part"):
        evs = []
        for m in part_e.findall("measure"):
            evs.append({"ev": "measure", "number": m.get("number") or ""})
            for ch in m:
                if not isinstance(ch.tag, str):
                    continue
                if ch.tag == "attributes":
                    if ch.find("divisions") is not None:
                        evs.append({"ev": "divisions", "d": int(ch.find("divisions").text)})
                    if ch.find("staves") is not None:
                        evs.append({"ev": "attr", "kind": "staves", "a": int(ch.find("staves").text), "b": 0, "c": 0})
                    for k in ch.findall("key"):
                        evs.append({"ev": "attr", "kind": "key", "a": int(txt(k, "fifths", "0")), "b": 0, "c": 0})
                    for t in ch.findall("time"):
                        evs.append({"ev": "attr", "kind": "time", "a": int(txt(t, "beats", "0")), "b": int(txt(t, "beat-type", "0")), "c": 0})
                    for c in ch.findall("clef"):
                        evs.append({"ev": "attr", "kind": "clef", "a": int(c.get("number") or 1), "b": SIGN_INT.get(txt(c, "sign", "none"), 0),
                                    "c": int(txt(c, "line", "0") or 0)})
                elif ch.tag == "note":
                    pitch = ch.find("pitch")
                    unp = ch.find("unpitched")
                    rest = 0 if (pitch is not None or unp is not None) else 1
                    ties = [t.get("type") for t in ch.findall("tie")]
                    rngs = []
                    for kind in ("slur", "tuplet"):
                        for el in ch.findall("notations/" + kind):
                            if el.get("type") in ("start", "stop"):
                                rngs.append({"kind": kind, "number": int(el.get("number") or 1), "type": el.get("type")})
                    rngs.sort(key=lambda r: r["type"] != "stop")        # a reader closes before it opens
                    evs.append({"ev": "note", "ranges": rngs, "id": ch.get("id") or "", "dur": int(txt(ch, "duration", "0")),
                                "chord": 1 if ch.find("chord") is not None else 0, "grace": 1 if ch.find("grace") is not None else 0, "rest": rest,
                                "step": (txt(pitch, "step") if pitch is not None else (txt(unp, "display-step") if unp is not None else "C")),
                                "alter": int(txt(pitch, "alter", "0")) if pitch is not None else 0,
                                "octave": int(txt(pitch, "octave")) if pitch is not None else (int(txt(unp, "display-octave", "0")) if unp is not None else 0),
                                "voice": int(txt(ch, "voice", "0")), "staff": int(txt(ch, "staff", "1")),
                                "tie_stop": 1 if "stop" in ties else 0, "tie_start": 1 if "start" in ties else 0,
                                "type": txt(ch, "type", ""), "dots": len(ch.findall("dot"))})
                elif ch.tag == "direction":
                    rngs = []
                    for dt in ch.findall("direction-type"):
                        for el in dt:
                            if el.tag == "wedge" and el.get("type") in ("crescendo", "diminuendo", "stop"):
                                rngs.append({"kind": "wedge", "number": int(el.get("number") or 1), "type": "stop" if el.get("type") == "stop" else "start"})
                            elif el.tag in ("dashes", "pedal") and el.get("type") in ("start", "stop"):
                                rngs.append({"kind": el.tag, "number": int(el.get("number") or 1), "type": el.get("type")})
                    if rngs:
                        rngs.sort(key=lambda r: r["type"] != "stop")
                        evs.append({"ev": "direction", "ranges": rngs})
                elif ch.tag in ("backup", "forward"):
                    evs.append({"ev": ch.tag, "d": int(txt(ch, "duration", "0"))})
            evs.append({"ev": "endmeasure"})
        out[part_e.get("id")] = evs
    return out


def with_ranges(score, part, e):
    """slurs, tuplets and the spans of wedges, dashes and pedals of a part, for the trace verdict"""
    e["slurs"] = [[s.start_note.id, s.end_note.id] for s in part.iter_all(score.Slur) if s.start_note is not None and s.end_note is not None]
    e["tuplets"] = [[t.start_note.id, t.end_note.id] for t in part.iter_all(score.Tuplet) if t.start_note is not None and t.end_note is not None]
    spans = []
    for d in part.iter_all(score.DynamicDirection, include_subclasses=True):
        if d.end is not None:
            spans.append(["wedge" if getattr(d, "wedge", False) else "dashes", d.start.t, d.end.t])
    for d in part.iter_all(score.SustainPedalDirection):
        if d.end is not None:
            spans.append(["pedal", d.start.t, d.end.t])
    e["spans"] = spans
    return e


def no_nulls(x, key=None):
    """JSON for TLC: attributes a file does not state become 0 / the empty string"""
    if x is None:
        return "" if key in ("id", "step", "gtype", "type", "number") else 0
    if isinstance(x, dict):
        return {k: no_nulls(v, k) for k, v in x.items()}
    if isinstance(x, (list, tuple)):
        return [no_nulls(v, key) for v in x]
    return x


def decorate(score, rng, part, level):
    """features the property lists, added through the public API in the importer's normal form"""
    from partitura.directions import parse_direction
    notes = [n for n in part.notes_tied if not isinstance(n, score.GraceNote)]
    ms = sorted(part.iter_all(score.Measure), key=lambda m: m.start.t)
    used = set()
    for n in notes:
        if rng.random() < 0.15:
            n.articulations = rng.sample(["staccato", "accent", "tenuto", "strong-accent", "staccatissimo"], rng.randint(1, 2))
            used.add("articulations")
        if rng.random() < 0.1:
            n.technical = [score.Fingering(rng.randint(1, 5))]
            used.add("fingering")
        if rng.random() < 0.15:
            n.stem_direction = rng.choice(["up", "down"])
            used.add("stem")
        if rng.random() < 0.05:
            f = score.Fermata(n)
            part.add(f, n.start.t)
            n.fermata = f
            used.add("fermata")
    # phrasing slurs meeting on a note, nested and overlapping slurs
    line = sorted([n for n in notes if n.voice == 1], key=lambda n: (n.start.t, n.midi_pitch if hasattr(n, "midi_pitch") else 0))
    line = [n for k, n in enumerate(line) if k == 0 or n.start.t > line[k - 1].start.t]
    if len(line) >= 4 and rng.random() < 0.45:
        kind = rng.choice(["chain", "nested", "overlap"] + (["relay"] * 2 if len(line) >= 6 else []))
        if kind == "relay":
            # a slur ends while a later one is still open and a third begins (numbers are handed on)
            i = rng.randint(0, len(line) - 6)
            a, b, c, d, e, f = line[i:i + 6]
            pairs, used_notes = [(a, c), (b, e), (d, f)], (a, b, c, d, e, f)
        else:
            i = rng.randint(0, len(line) - 4)
            a, b, c, d = line[i:i + 4]
            pairs = {"chain": [(a, b), (b, d)], "nested": [(a, d), (b, c)], "overlap": [(a, c), (b, d)]}[kind]
            used_notes = (a, b, c, d)
        if not any(x.slur_starts or x.slur_stops for x in used_notes):
            for x, y in pairs:
                part.add(score.Slur(x, y), x.start.t, y.end.t)
            used.add("slurs_" + kind)
    # tuplet brackets over three equal triplet notes of one voice
    by_voice = {}
    for n in sorted(notes, key=lambda n: n.start.t):
        by_voice.setdefault(n.voice, []).append(n)
    for v, ns in by_voice.items():
        chordless = [n for n in ns if sum(1 for m in ns if m.start.t == n.start.t) == 1]
        for a, b, c in zip(chordless, chordless[1:], chordless[2:]):
            sd = a.symbolic_duration or {}
            if (a.end.t == b.start.t and b.end.t == c.start.t and a.duration == b.duration == c.duration and sd.get("actual_notes") == 3
                    and not a.tuplet_starts and not b.tuplet_starts and not a.tuplet_stops and rng.random() < 0.5):
                part.add(score.Tuplet(a, c, 3, 2, sd["type"], sd["type"]), a.start.t, c.end.t)
                used.add("tuplet")
                break
    onsets = sorted(set(n.start.t for n in notes))
    if level >= 1 and onsets:
        if rng.random() < 0.5:
            part.add(score.Tempo(rng.choice([60, 72, 90, 120, 144]), "q"), rng.choice([0, rng.choice(onsets)]))
            used.add("tempo")
        if rng.random() < 0.5:
            part.add(score.ConstantLoudnessDirection(rng.choice(["p", "f", "mf", "pp", "ff"]), staff=None), rng.choice(onsets))
            used.add("dynamics")
        if rng.random() < 0.4 and len(onsets) >= 2:
            a, b = sorted(rng.sample(onsets, 2))
            cls = rng.choice([score.IncreasingLoudnessDirection, score.DecreasingLoudnessDirection])
            part.add(cls("crescendo" if cls is score.IncreasingLoudnessDirection else "diminuendo", wedge=True), a, b)
            used.add("wedge")
        if rng.random() < 0.4:
            for d in parse_direction(rng.choice(["dolce", "Andante", "espressivo", "Allegro"])):
                part.add(d, rng.choice(onsets))
            used.add("words")
        if rng.random() < 0.3 and len(onsets) >= 2:
            a, b = sorted(rng.sample(onsets, 2))
            for d in parse_direction(rng.choice(["cresc.", "rit.", "dim."])):
                part.add(d, a, b)
            used.add("dashes")
        if rng.random() < 0.3 and len(onsets) >= 2:
            a, b = sorted(rng.sample(onsets, 2))
            part.add(score.SustainPedalDirection(line=rng.random() < 0.5), a, b)
            used.add("pedal")
        if rng.random() < 0.25:
            plain = [n for n in notes if n.tie_next is None and n.tie_prev is None and not n.slur_starts and not n.slur_stops
                     and getattr(n, "grace_prev", None) is None and not n.tuplet_starts and not n.tuplet_stops and n.fermata is None]
            for n in rng.sample(plain, min(len(plain), rng.randint(1, 3))):
                u = score.UnpitchedNote(step=n.step, octave=n.octave, id=n.id, voice=n.voice, staff=n.staff, notehead=rng.choice([None, "x", "diamond"]))
                u.articulations, u.technical, u.stem_direction = n.articulations, n.technical, n.stem_direction
                s0, e0 = n.start.t, n.end.t
                part.remove(n)
                part.add(u, s0, e0)
            used.add("unpitched")
    if level >= 2 and len(ms) >= 2:
        if rng.random() < 0.4:
            i = rng.randrange(len(ms))
            j = rng.randrange(i, len(ms))
            part.add(score.Repeat(), ms[i].start.t, ms[j].end.t)
            used.add("repeat")
        if rng.random() < 0.3:
            i = rng.randrange(len(ms))
            part.add(score.Ending(rng.choice(["1", "2"])), ms[i].start.t, ms[i].end.t)     # (numbers are text in MusicXML: "1, 2")
            used.add("ending")
        if rng.random() < 0.3:
            part.add(score.Fermata("right"), ms[rng.randrange(len(ms))].end.t)
            used.add("barline_fermata")
        if rng.random() < 0.3:
            # at a barline or in the middle of a measure
            t = ms[rng.randrange(1, len(ms))].start.t if (rng.random() < 0.5 or not onsets) else rng.choice(onsets)
            if t > 0:
                part.add(score.Clef(1, rng.choice(["F", "C", "G"]), rng.choice([2, 3, 4]), 0), t)
                used.add("clef_change")
        if rng.random() < 0.3:
            t = ms[rng.randrange(1, len(ms))].start.t
            old = [k.fifths for k in part.iter_all(score.KeySignature)]
            part.add(score.KeySignature(rng.choice([f for f in range(-6, 7) if f not in old]), rng.choice(["major", "minor"])), t)
            used.add("key_change")
    return used


def ties_expressible(score, part):
    """MusicXML pairs ties by pitch: while a tie is open no other note of the part has that pitch"""
    notes = [n for n in part.notes if not isinstance(n, score.GraceNote)]
    ends = sorted(m.end.t for m in part.iter_all(score.Measure))
    for a in notes:
        b = a.tie_next
        if b is None:
            continue
        bar_end = next((t for t in ends if t > b.start.t), b.end.t)
        for x in notes:
            if x is a or x is b or (x.step, x.alter or 0, x.octave) != (a.step, a.alter or 0, a.octave):
                continue
            if x.start.t <= b.start.t and x.end.t >= a.start.t:
                return False
            # (another tie on the same pitch in the bar where this one closes may be written before it)
            if (x.tie_next is not None or x.tie_prev is not None) and x.start.t < bar_end and x.end.t >= a.start.t:
                return False
    return True


def with_division_change(score, rng, part):
    """the same music with the divisions changed by an integer factor from a point on (measure start or
    any point no note sounds through); returns the new part or None"""
    from .. import proj
    objs, _ = proj.part_objects(part)
    notes = [o for o in objs if isinstance(o, score.GenericNote)]
    last = part.last_point.t
    cands = [tp.t for tp in part._points if 0 < tp.t < last and all(n.end.t <= tp.t or n.start.t >= tp.t for n in notes)]
    if not cands:
        return None
    tk, f = rng.choice(cands), rng.choice([2, 3])
    d = int(part.quarter_duration_map(0))
    m = lambda t: t if t <= tk else tk + (t - tk) * f
    spans = [(o, o.start.t if o.start is not None else None, o.end.t if o.end is not None else None) for o in objs]
    for o, _, _ in spans:
        part.remove(o)
    new = score.Part(part.id, part_name=part.part_name, quarter_duration=d)
    new.set_quarter_duration(tk, d * f)
    for o, s0, e0 in spans:
        new.add(o, None if s0 is None else m(s0), None if e0 is None else m(e0))
    return new


def add_triplet_measure(score, rng, part):
    """one more measure: a bracketed eighth-note triplet, the rest of the bar a rest (divisions divisible by 3)"""
    d = int(part.quarter_duration_map(part.last_point.t))
    if d % 3:
        return False
    t0 = part.last_point.t
    beats, beat_type = [int(x) for x in part.time_signature_map(t0)[:2]]
    bl = gen_score.bar_len(d, beats, beat_type)
    if not bl or bl < d:
        return False
    n_m = len(list(part.iter_all(score.Measure)))
    part.add(score.Measure(number=n_m + 1, name=str(n_m + 1)), t0, t0 + bl)
    ns = []
    for k in range(3):
        n = score.Note(step=rng.choice(gen_score.STEPS), octave=4, id="%s_t%d" % (part.id, k), voice=1, staff=1,
                       symbolic_duration={"type": "eighth", "actual_notes": 3, "normal_notes": 2})
        part.add(n, t0 + k * d // 3, t0 + (k + 1) * d // 3)
        ns.append(n)
    part.add(score.Tuplet(ns[0], ns[2], 3, 2, "eighth", "eighth"), ns[0].start.t, ns[2].end.t)
    if bl > d:
        part.add(score.Rest(id="%s_tr" % part.id, voice=1, staff=1), t0 + d, t0 + bl)
    return True


def make_case(score, rng, tier):
    n_parts = rng.choice([1, 1, 2, 3])
    level = rng.choice([0, 1, 2])
    parts = []
    feats = set()
    for i in range(n_parts):
        poly = rng.random() < 0.12
        while True:
            p = gen_score.make_part(score, rng, pid="P%d" % (i + 1), divs=rng.choice([1, 2, 4, 6, 12]), n_measures=rng.randint(1, 3),
                                    voices=rng.choice([1, 2, 3]), staves=rng.choice([1, 2]), pickup=rng.random() < 0.3,
                                    ts_change=rng.random() < 0.3, directions=False, max_notes=10 ** 6, slurs=rng.random() < 0.6,
                                    polyphony=poly)
            if ties_expressible(score, p):
                break
        if rng.random() < 0.3:
            # voices need not be filled with rests, as long as one voice fills every measure
            keep = rng.choice(sorted(set((n.voice or 1) for n in p.notes_tied)) or [1])       # one voice stays complete: it carries the measure lengths
            gone = [r for r in p.iter_all(score.Rest) if (r.voice or 1) != keep and rng.random() < 0.6]
            for r in gone:
                p.remove(r)
            if gone:
                feats.add("voice_with_gaps")
        if poly:
            # a voice that holds a note under a moving line is not expressible: the exporter gives such notes a free voice
            feats.add("polyphony_inside_a_voice")
            if rng.random() < 0.6:
                # several staggered held notes in voice 1 of one measure
                m = rng.choice(list(p.iter_all(score.Measure)))
                ons = sorted(set(n.start.t for n in p.notes if n.voice == 1 and m.start.t <= n.start.t < m.end.t))
                for k, t in enumerate(ons[:rng.randint(2, 4)]):
                    later = [u for u in ons if u > t] + [m.end.t]
                    end = rng.choice(later[1:] or later)
                    p.add(score.Note(step="ABCDEFG"[k], octave=1, id="%s_h%d" % (p.id, k), voice=1, staff=1), t, end)
                feats.add("staggered_held_notes")
            m = rng.choice(list(p.iter_all(score.Measure)))
            if m.end.t - m.start.t >= 4 and rng.random() < 0.7:
                # a voice of its own made of notes entering one after the other while the earlier ones still sound
                v = 1 + max(n.voice or 1 for n in p.notes)
                pts = sorted(rng.sample(range(m.start.t, m.end.t), 4))
                spans = [(pts[0], m.end.t), (pts[1], rng.choice([pts[3], m.end.t])), (pts[2], pts[3]), (pts[3], m.end.t)]
                for k, (a, b) in enumerate(spans):
                    p.add(score.Note(step="CDEFGAB"[k], octave=7, id="%s_s%d" % (p.id, k), voice=v, staff=1), a, b)
                feats.add("staggered_voice")
        if rng.random() < 0.25 and add_triplet_measure(score, rng, p):
            feats.add("tuplet")
        feats |= decorate(score, rng, p, level)
        if rng.random() < 0.2:
            q = with_division_change(score, rng, p)
            if q is not None:
                p = q
                feats.add("division_change")
        parts.append(p)
    pages = rng.random() < 0.5
    if pages:
        for p in parts:
            p.add(score.Page(1), 0)
            p.add(score.System(1), 0)
        feats.add("page_system_at_start")
    partlist = parts
    if n_parts >= 2 and rng.random() < 0.5:
        g = score.PartGroup(group_symbol=rng.choice(["brace", "bracket"]), group_name=rng.choice([None, "Strings"]), number=1)
        inner = parts[:2]
        if n_parts == 3 and rng.random() < 0.5:
            g2 = score.PartGroup(group_symbol="bracket", group_name=None, number=2)
            g2.children = parts[1:3]
            for c in g2.children:
                c.parent = g2
            g.children = [parts[0], g2]
            parts[0].parent = g
            g2.parent = g
            partlist = [g]
            feats.add("nested_groups")
        else:
            g.children = inner
            for c in inner:
                c.parent = g
            partlist = [g] + parts[2:]
            feats.add("part_group")
    # open-ended constant directions, pages and systems last until the next one / the end (what the importer does)
    score.set_end_times(parts)
    sc = score.Score(partlist=partlist, id="S")
    return sc, feats, pages


def strip_initial_print(b):
    """the file with the <print new-page new-system> of the first measure of every part removed"""
    t = b.decode("utf8")
    out, first = [], False
    for line in t.split("\n"):
        if "<part id=" in line:
            first = True
        if first and '<print new-page="yes" new-system="yes"/>' in line:
            first = False
            continue
        if "</measure>" in line or re.search(r"<measure[^>]*/>", line):
            first = False
        out.append(line)
    return "\n".join(out).encode("utf8")


def main(chk):
    common.setup_repo_path()
    import partitura.score as score
    from partitura.io.exportmusicxml import save_musicxml
    from partitura.io.importmusicxml import load_musicxml
    rng = random.Random(chk.seed)
    # ---------------- the stream machine itself, model checked
    r = tlc.run("MusicXMLStreamMC", "MusicXMLStreamMC.%s.cfg" % chk.tier, "c03/mc", workers=16, timeout=3000, expect_violation=True, heap="6g")
    chk.add_mc("MusicXMLStreamMC (every document of the bounded alphabet)", r)
    if r.violated:
        chk.machinery("MusicXMLStream violates its own invariant %s\n%s" % (r.violated, r.error_trace[:1500]))
        return
    ncase = 150 if chk.tier == "quick" else 2500
    batch, ctx = [], {}
    feats_all = {}
    tid = 0
    for cid in range(1, ncase + 1):
        sc, feats, pages = make_case(score, rng, chk.tier)
        for f in feats:
            feats_all[f] = feats_all.get(f, 0) + 1
        chk.count(1, validated=1)
        chk.nontrivial(cid)

        def report(clause, detail, **attrs):
            chk.violation("c2s", clause, dict(cid=cid, features=sorted(feats), **detail), replay={"cid": cid, "seed": chk.seed, "tier": chk.tier, "xml": ctx.get(("b0", cid), b"").decode("utf8", "replace")[:20000]},
                          op=clause.split(".")[0], **attrs)
        fp0 = xmlfp.fp_score(sc, score)
        revoiced = "polyphony_inside_a_voice" in feats
        try:
            b0 = save_musicxml(sc)
        except Exception as ex:
            report("save.raises", {"exc": repr(ex)}, exc=type(ex).__name__)
            continue
        ctx[("b0", cid)] = b0
        # the file as a trace of the stream machine
        try:
            evs = parse_events(b0)
            for p in sc.parts:
                tid += 1
                e = with_ranges(score, p, extract(score, p))
                if revoiced:
                    for n in e["notes"]:
                        n["voice"] = 0      # voices are re-assigned: not compared
                batch.append({"cid": tid, "events": evs.get(p.id, []), "part": e})
                ctx[tid] = (cid, p.id, sorted(feats))
        except Exception as ex:
            report("written_file.not_parseable", {"exc": repr(ex)}, exc=type(ex).__name__)
            continue
        try:
            x1 = load_musicxml(io.BytesIO(b0))
            fp1 = xmlfp.fp_score(x1, score)
            b1 = save_musicxml(x1)
            x2 = load_musicxml(io.BytesIO(b1))
            fp2 = xmlfp.fp_score(x2, score)
            b2 = save_musicxml(x2)
        except Exception as ex:
            report("round_trip.raises", {"exc": repr(ex)}, exc=type(ex).__name__)
            continue
        # a fermata on an inner barline (location right or not given) is written with both adjacent measures: predicted separately
        dup = True
        for q0, q1 in zip(fp0["parts"], fp1["parts"]):
            starts = set(m[0] for m in q0["measures"])
            pred = sorted(q0["barline_fermatas"] + [[t, "left"] for t, ref in q0["barline_fermatas"] if ref in (None, "right") and t in starts], key=repr)
            if sorted(q1["barline_fermatas"], key=repr) != pred:
                dup = False
        d = xmlfp.diff(fp0, fp1, limit=60)
        if revoiced:
            d = [x for x in d if not x[0].endswith("/voice")]
        by_kind = {}
        for pth, a, b in d:
            by_kind.setdefault(re.sub(r"/\d+", "", re.sub(r"/notes/[^/]+", "/notes", pth)), []).append((pth, str(a)[:160], str(b)[:160]))
        for kind, items in sorted(by_kind.items()):
            attrs = {}
            if kind == "/parts/barline_fermatas":
                attrs["only_duplicate_on_inner_barline"] = dup
            report("same_score." + kind.strip("/").replace("/", "."), {"differences": items[:4]}, **attrs)
        inner = any(ref in (None, "right") and t in set(m[0] for m in q0["measures"]) for q0 in fp0["parts"] for t, ref in q0["barline_fermatas"])
        d = xmlfp.diff(fp1, fp2)
        if d:
            report("same_score_second_generation", {"differences": [(p, str(a)[:80], str(b)[:80]) for p, a, b in d[:6]]}, fermata_on_inner_barline=inner)
        if b1 != b2:
            report("fixpoint.second_generation", {"first_difference": next((i for i, (x, y) in enumerate(zip(b1, b2)) if x != y), min(len(b1), len(b2)))},
                   fermata_on_inner_barline=inner)
        if b0 != b1:
            only_print = (not pages) and strip_initial_print(b1) == b0
            la, lb = b0.decode().split("\n"), b1.decode().split("\n")
            k = next((i for i, (x, y) in enumerate(zip(la, lb)) if x != y), min(len(la), len(lb)))
            report("fixpoint.first_generation", {"line": k, "written": la[k:k + 2], "rewritten": lb[k:k + 2]},
                   only_initial_print_added=only_print, score_has_page_and_system=pages, fermata_on_inner_barline=inner)
    # ---------------- fixture files: load, save, load again, save again
    import glob
    files = sorted(glob.glob(os.path.join(common.REPO, "tests", "data", "musicxml", "*.xml")) + glob.glob(os.path.join(common.REPO, "tests", "data", "musicxml", "*.musicxml")))
    if chk.tier == "quick":
        files = files[chk.seed % 3::3]
    nfix = 0
    for fn in files:
        name = os.path.basename(fn)
        chk.count(1, validated=1)
        nfix += 1

        def frep(clause, detail, **attrs):
            chk.violation("c2s", "fixture." + clause, dict(file=name, **detail), op="fixture", file=name, **attrs)
        try:
            x1 = load_musicxml(fn)
            fp1 = xmlfp.fp_score(x1, score)
            b1 = save_musicxml(x1)
            x2 = load_musicxml(io.BytesIO(b1))
            fp2 = xmlfp.fp_score(x2, score)
            b2 = save_musicxml(x2)
        except Exception as ex:
            frep("raises", {"exc": repr(ex)}, exc=type(ex).__name__)
            continue
        inner = any(ref in (None, "right") and t in set(m[0] for m in q["measures"]) for q in fp1["parts"] for t, ref in q["barline_fermatas"])
        dup_ids = any("DUPLICATE_ID" in r for q in fp1["parts"] for r in q["notes"].values())
        d = xmlfp.diff(fp1, fp2, limit=40)
        by_kind = {}
        for pth, a, b in d:
            by_kind.setdefault(re.sub(r"/\d+", "", re.sub(r"/notes/[^/]+", "/notes", pth)), []).append((pth, str(a)[:160], str(b)[:160]))
        for kind, items in sorted(by_kind.items()):
            frep("same_score." + kind.strip("/").replace("/", "."), {"differences": items[:4]}, fermata_on_inner_barline=inner, duplicate_note_ids=dup_ids)
        if b1 != b2:
            la, lb = b1.decode().split("\n"), b2.decode().split("\n")
            k = next((i for i, (x, y) in enumerate(zip(la, lb)) if x != y), min(len(la), len(lb)))
            frep("fixpoint", {"line": k, "written": la[k:k + 2], "rewritten": lb[k:k + 2]}, fermata_on_inner_barline=inner, duplicate_note_ids=dup_ids)
        try:
            evs = parse_events(b1)
            for p in x1.parts:
                if any(n.id is None for n in p.notes_tied) or dup_ids:
                    continue
                tid += 1
                batch.append({"cid": tid, "events": evs.get(p.id, []), "part": with_ranges(score, p, extract(score, p))})
                ctx[tid] = (name, p.id, ["fixture"])
                ctx[("b0", name)] = b1
        except Exception as ex:
            frep("written_file.not_parseable", {"exc": repr(ex)}, exc=type(ex).__name__)
    chk.part("fixtures", files=nfix)
    # ---------------- TLC: every written part as a trace
    nshards = 8
    jobs = []
    for k in range(nshards):
        if not batch[k::nshards]:
            continue
        path = os.path.join(tlc.workdir("c03/trace%d" % k), "batch.json")
        with open(path, "w") as f:
            json.dump(no_nulls(batch[k::nshards]), f)
        jobs.append(("c03/trace%d" % k, path))

    def run(a):
        return tlc.run("MusicXMLTrace", "MusicXMLTrace.cfg", a[0], workers=1, env={"TRACE_FILE": a[1]}, timeout=3000, heap="4g", expect_violation=True)
    with concurrent.futures.ThreadPoolExecutor(nshards) as ex:
        results = list(ex.map(run, jobs))
    verdicts, stuck = {}, {}
    for r in results:
        chk.add_mc("MusicXMLTrace (files written by save_musicxml)", r)
        if r.violated:
            chk.violation("c2s", "stream_invariant." + str(r.violated), {"trace": r.error_trace[:1500]}, op="stream")
        # (TLC wraps long tuples over several lines)
        for m in re.finditer(r'<<\s*"VERDICT",\s*(\d+),\s*\{(.*?)\},\s*\{(.*?)\}\s*>>', r.stdout, re.S):
            verdicts[int(m.group(1))] = ([c.strip().strip('"') for c in m.group(2).split(",") if c.strip()],
                                         [c.strip().strip('"') for c in m.group(3).split(",") if c.strip()])
        for m in re.finditer(r'<<\s*"STUCK",\s*(\d+),\s*(\d+)\s*>>', r.stdout, re.S):
            stuck[int(m.group(1))] = int(m.group(2))
    for rec in batch:
        t = rec["cid"]
        cid, pid, feats = ctx[t]
        chk.count(1, validated=1)
        if t in stuck:
            chk.violation("c2s", "stream.event_not_a_step", {"cid": cid, "part": pid, "event": rec["events"][stuck[t] - 1], "index": stuck[t]}, op="stream")
            continue
        if t not in verdicts:
            if not any(r.violated for r in results):
                chk.machinery("no verdict for written part %s of case %d" % (pid, cid))
            continue
        failing, broken = verdicts[t]
        for cl in failing:
            chk.violation("c2s", "stream." + cl, {"cid": cid, "part": pid, "features": feats, "rules_broken": broken},
                          replay={"events": rec["events"], "part": rec["part"], "xml": ctx[("b0", cid)].decode("utf8", "replace")[:20000]}, op="stream", rules=broken)
    chk.part("scores", n=ncase, written_parts=len(batch), **feats_all)
    if batch:
        chk.sample({"events_head": batch[0]["events"][:6]})
    chk.assumptions += ["every measure is filled by at least one voice (MusicXML has no measure length of its own)",
                        "chord members have equal durations and no voice needs polyphony (otherwise the exporter assigns new voices)",
                        "grace/main-note links and grace types are not compared (not listed by the property); a grace note precedes its chord",
                        "directions are built in the importer's normal form (wedges named crescendo/diminuendo, words through parse_direction)"]


def entry():
    chk = common.Check("C03")
    try:
        main(chk)
    except tlc.TLCError as ex:
        chk.machinery(str(ex))
    except Exception:
        import traceback
        chk.machinery("exception in check machinery:\n" + traceback.format_exc())
    sys.exit(chk.finish(rule="seeded random scores (1-3 parts, part groups, 1-3 measures, 1-3 voices, 1-2 staves, pickups, signature/clef/key changes, "
                             "ties, chords, grace notes, slurs, articulations, fingering, stems, fermatas, tempo, dynamics, wedges, words, dashes, repeats, endings); "
                             "every written part validated as a trace; every score counted as non-trivial", exhaustive=False))
