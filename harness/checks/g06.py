"""G06 — growth beyond the listed properties: fill_rests, measure-wise (FillRests.tla).

FillRestsCases.tla enumerates measures with one voice of up to three notes (overlaps, chords, notes reaching beyond the
barline), checks Tiles, GapsDisjointAndProper, GapsMaximal, GapsBehindSweep and CompleteVoiceNeedsNothing on the sweep
and prints the gaps of the voice; every scenario is replayed into partitura.score.fill_rests on a part with that measure
(grid step = an eighth), a second complete voice and a complete second measure: the rests of the voice must tile exactly
the gaps (one rest or several in a row), complete voices and measures get nothing, notes are untouched, and a second
call adds nothing.  The global mode (measurewise=False) is replayed too: it fills only the outer gaps of the voice, and
a voice that is silent in a measure gets one rest over it.

Not a listed property: not registered in MANIFEST.json, prints DEVIATION lines (never VIOLATION), writes growth/G06.json."""
import json
import os
import sys
import time

from .. import common, tlc


def tiles(rests, gaps):
    """do the rest spans, chained, cover exactly the gaps?"""
    rests = sorted(rests)
    merged = []
    for a, b in rests:
        if b <= a:
            return False
        if merged and merged[-1][1] == a:
            merged[-1][1] = b
        elif merged and a < merged[-1][1]:
            return False
        else:
            merged.append([a, b])
    return merged == sorted([list(g) for g in gaps])


def main():
    common.setup_repo_path()
    import partitura.score as S
    tier = common.tier()
    t0 = time.time()
    r = tlc.run("FillRestsCases", "FillRestsCases.%s.cfg" % tier, "g06/mc", workers=4, coverage=True, timeout=7000, heap="4g")
    if r.violated:
        print("MACHINERY-FAILURE growth=G06 FillRests.tla violates its own property %s" % r.violated)
        return 2
    cases = r.json_lines()
    r.stdout = ""
    deviations, first = {}, {}

    def dev(clause, case, got, want):
        deviations[clause] = deviations.get(clause, 0) + 1
        first.setdefault(clause, {"case": case, "got": got, "want": want})

    n = 0
    for c in cases:
        n += 1
        L = c["len"]
        gaps = sorted([int(g[0]), int(g[1])] for g in c["gaps"])
        sequential = all(c["notes"][k]["off"] <= c["notes"][k + 1]["on"] for k in range(len(c["notes"]) - 1))
        kind = "sequential_voice" if sequential else "overlapping_voice"
        for staves in (1, 2):
            tag = kind + (".second_staff_empty" if staves == 2 else "")
            cc = dict(c, staves=staves)
            try:
                part = S.Part("P1")
                part.set_quarter_duration(0, 2)
                if staves == 2:
                    part.add(S.Clef(staff=2, sign="F", line=4, octave_change=0), 0)
                part.add(S.TimeSignature(L, 8), 0)
                part.add(S.Measure(number=1), 0, L)
                part.add(S.Measure(number=2), L, 2 * L)
                for k, x in enumerate(c["notes"]):
                    part.add(S.Note(step="C", octave=4, voice=1, staff=1, id="a%d" % k), x["on"], x["off"])
                part.add(S.Note(step="E", octave=3, voice=2, staff=1, id="b0"), 0, L)
                part.add(S.Note(step="G", octave=4, voice=1, staff=1, id="c0"), L, 2 * L)
                part.add(S.Note(step="G", octave=3, voice=2, staff=1, id="c1"), L, 2 * L)
                before = sorted((x.id, x.start.t, x.end.t, x.voice) for x in part.notes)
                S.fill_rests(part)
                rests = [(x.start.t, x.end.t, x.voice, x.staff) for x in part.iter_all(S.Rest)]
                after = sorted((x.id, x.start.t, x.end.t, x.voice) for x in part.notes)
            except Exception as ex:
                dev("raises." + tag, cc, "%s: %s" % (type(ex).__name__, str(ex)[:200]), gaps)
                continue
            if after != before:
                dev("notes_changed", cc, after, before)
            v1 = [(a, b) for a, b, v, s in rests if v == 1 and s == 1 and a < L]
            if not tiles(v1, gaps):
                dev("rests_tile_the_gaps." + tag, cc, sorted(v1), gaps)
            other = [x for x in rests if not (x[2] == 1 and x[3] == 1 and x[0] < L) and x[3] == 1]
            if other:
                dev("rests_in_complete_voice_or_measure", cc, other, [])
            st2 = [(a, b) for a, b, v, s in rests if s == 2]
            if staves == 2:
                # the empty staff gets rests over each whole measure
                if not tiles([x for x in st2 if x[0] < L], [[0, L]]) or not tiles([x for x in st2 if x[0] >= L], [[L, 2 * L]]):
                    dev("empty_staff_rests_tile_the_measures.len%d" % L, cc, sorted(st2), [[0, L], [L, 2 * L]])
            elif st2:
                dev("rests_on_a_staff_that_does_not_exist", cc, st2, [])
            try:
                S.fill_rests(part)
                rests2 = [(x.start.t, x.end.t, x.voice, x.staff) for x in part.iter_all(S.Rest)]
                if sorted(rests2) != sorted(rests):
                    dev("second_call_adds_rests." + tag, cc, sorted(rests2), sorted(rests))
            except Exception as ex:
                dev("raises_second_call." + tag, cc, "%s: %s" % (type(ex).__name__, str(ex)[:200]), "no exception")
        # ---- the global mode (measurewise=False): only the time before the first and after the last note of the voice
        # in the measure is filled (one rest each), and a voice that is silent in a measure gets a rest over it
        outer = [g for g in gaps if g[0] == 0 or g[1] == L]
        try:
            part = S.Part("P1")
            part.set_quarter_duration(0, 2)
            part.add(S.TimeSignature(L, 8), 0)
            part.add(S.Measure(number=1), 0, L)
            part.add(S.Measure(number=2), L, 2 * L)
            for k, x in enumerate(c["notes"]):
                part.add(S.Note(step="C", octave=4, voice=1, staff=1, id="a%d" % k), x["on"], x["off"])
            part.add(S.Note(step="E", octave=3, voice=2, staff=1, id="b0"), 0, L)
            part.add(S.Note(step="G", octave=3, voice=2, staff=1, id="c1"), L, 2 * L)
            S.fill_rests(part, measurewise=False)
            rests = sorted((int(x.start.t), int(x.end.t), int(x.voice), int(x.staff)) for x in part.iter_all(S.Rest))
            want = sorted([(g[0], g[1], 1, 1) for g in outer] + [(L, 2 * L, 1, 1)])
            if rests != want:
                dev("global_mode.rests", c, rests, want)
        except Exception as ex:
            dev("global_mode.raises", c, "%s: %s" % (type(ex).__name__, str(ex)[:200]), outer)
    out = os.path.join(common.OUT, "growth")
    os.makedirs(out, exist_ok=True)
    ev = {"growth_id": "G06", "spec": "FillRests.tla / FillRestsCases.tla", "tier": tier,
          "tlc": [{"distinct_states": r.distinct, "states_generated": r.generated, "depth": r.depth, "wall_s": round(r.wall_s, 1),
                   "actions": {k: list(v) for k, v in r.coverage.items()}}],
          "scenarios_replayed": n, "deviations": deviations, "first_of_each": first, "wall_s": round(time.time() - t0, 1)}
    with open(os.path.join(out, "G06.json"), "w") as f:
        json.dump(ev, f, indent=1, default=str)
    for k, v in sorted(deviations.items()):
        print("DEVIATION growth=G06 clause=%s count=%d first=%s" % (k, v, json.dumps(first[k], default=str)[:700]))
    print("SUMMARY growth=G06 tier=%s states=%d scenarios=%d deviations=%d wall=%.1fs" % (tier, r.distinct, n, sum(deviations.values()), time.time() - t0))
    return 1 if deviations else 0


def entry():
    try:
        rc = main()
    except tlc.TLCError as ex:
        print("MACHINERY-FAILURE growth=G06 %s" % str(ex)[:1500])
        rc = 2
    except Exception:
        import traceback
        print("MACHINERY-FAILURE growth=G06\n" + traceback.format_exc())
        rc = 2
    sys.exit(rc)
