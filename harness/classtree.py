"""Generate ClassTree.tla from the live partitura.score module (so a change of the class hierarchy
changes the model)."""
import os
from . import tlc


def timed_classes():
    import partitura.score as score

    seen = []

    def rec(c):
        for s in c.__subclasses__():
            if s not in seen and s.__module__.startswith("partitura"):
                seen.append(s)
                rec(s)

    seen.append(score.TimedObject)
    rec(score.TimedObject)
    return seen


def generate(gen_dir=None):
    gen_dir = gen_dir or os.path.join(tlc.WORK, "gen")
    os.makedirs(gen_dir, exist_ok=True)
    cls = timed_classes()
    names = [c.__name__ for c in cls]
    # duplicate class names (score.py defines Cadence twice): keep the live binding only
    uniq = {}
    for c in cls:
        uniq[c.__name__] = c
    names = sorted(uniq)
    lines = ["---------------------------- MODULE ClassTree ----------------------------",
             "\\* GENERATED from the live partitura.score module by harness/classtree.py; do not edit.",
             "CT_Classes == {%s}" % ", ".join('"%s"' % n for n in names),
             "CT_Sub == [c \\in CT_Classes |->", "   CASE "]
    cases = []
    for n in names:
        subs = sorted(m for m in names if m != n and issubclass(uniq[m], uniq[n]))
        cases.append('c = "%s" -> {%s}' % (n, ", ".join('"%s"' % s for s in subs)))
    lines.append("\n     [] ".join(cases))
    lines.append("]")
    lines.append("=" * 77)
    path = os.path.join(gen_dir, "ClassTree.tla")
    with open(path, "w") as f:
        f.write("\n".join(lines) + "\n")
    return path, uniq
