"""Shared check skeleton: tiers/seeds, violations, known findings, replay files, evidence."""
import hashlib
import json
import os
import sys
import time
import traceback
import warnings

VERIF = os.path.dirname(os.path.dirname(os.path.abspath(__file__)))
OUT = os.environ.get("VERIF_OUT") or VERIF      # evidence/ and out/replay/ live here (scratch runs redirect it)
REPO = os.environ.get("VERIF_REPO", "/repo")
HOOK_GUARD = "PARTITURA_VERIF"
HOOK_SINK = "PARTITURA_VERIF_TRACE"


def setup_repo_path():
    """Import partitura from the repository's current working tree (never an installed copy)."""
    if sys.path[0] != REPO:
        sys.path.insert(0, REPO)
    warnings.filterwarnings("ignore")
    import partitura  # noqa

    got = os.path.dirname(os.path.dirname(os.path.abspath(partitura.__file__)))
    if os.path.realpath(got) != os.path.realpath(REPO):
        raise RuntimeError("partitura imported from %s, expected %s" % (got, REPO))
    return partitura


def tier():
    t = os.environ.get("VERIF_TIER", "quick")
    return t if t in ("quick", "thorough") else "quick"


def seed():
    try:
        return int(os.environ.get("VERIF_SEED", "0"))
    except ValueError:
        return 0


def load_findings():
    p = os.path.join(VERIF, "known_findings.json")
    if not os.path.exists(p):
        return []
    with open(p) as f:
        return json.load(f).get("findings", [])


def _match(entry, rec):
    """Every key of entry['match'] must equal (or, for lists, contain) the violation record's value."""
    for k, v in entry.get("match", {}).items():
        got = rec.get(k)
        if isinstance(v, list):
            if got not in v:
                return False
        elif got != v:
            return False
    return True


class Check(object):
    def __init__(self, pid, level="model_checking"):
        self.pid = pid
        self.level = level
        self.tier = tier()
        self.seed = seed()
        self.t0 = time.time()
        self.violations = []  # unknown violations (first of each class kept with replay)
        self.viol_classes = {}
        self.known_hits = {}
        self.findings = [f for f in load_findings() if f.get("property") == pid and f.get("status") == "known"]
        self.cov = {"states": 0, "transitions": 0, "traces_validated_against_impl": 0, "samples": [],
                    "evaluations": 0, "distinct_nontrivial": 0, "rule": "", "mc_runs": [], "parts": {}}
        self.assumptions = []
        self.machinery_errors = []
        self._nontrivial = set()

    # ---- coverage bookkeeping
    def add_mc(self, name, res, note=""):
        self.cov["states"] += res.distinct
        self.cov["transitions"] += res.generated
        self.cov["mc_runs"].append({"run": name, "distinct_states": res.distinct, "states_generated": res.generated,
                                    "depth": res.depth, "wall_s": round(res.wall_s, 2),
                                    "actions": {k: list(v) for k, v in res.coverage.items()
                                                if k not in ("Init",) and not k.islower()}, "note": note})

    def sample(self, obj, limit=6):
        if len(self.cov["samples"]) < limit:
            self.cov["samples"].append(obj)

    def count(self, n=1, validated=0):
        self.cov["evaluations"] += n
        self.cov["traces_validated_against_impl"] += validated

    def nontrivial(self, key):
        self._nontrivial.add(key if isinstance(key, (str, int, tuple)) else json.dumps(key, sort_keys=True))

    def part(self, name, **kw):
        d = self.cov["parts"].setdefault(name, {})
        for k, v in kw.items():
            if isinstance(v, (int, float)) and isinstance(d.get(k), (int, float)):
                d[k] += v
            else:
                d[k] = v

    # ---- violations
    def violation(self, check, clause, detail, replay=None, **attrs):
        """Record a violation. attrs are the fields known-finding entries can match on."""
        rec = {"property": self.pid, "check": check, "clause": clause}
        rec.update(attrs)
        for f in self.findings:
            if _match(f, rec):
                hit = self.known_hits.setdefault(f["id"], {"count": 0, "what": f.get("what", f["id"]), "first": None})
                hit["count"] += 1
                if hit["first"] is None:
                    hit["first"] = detail
                return "known"
        cls = (check, clause) + tuple(sorted((k, json.dumps(v, sort_keys=True, default=str)) for k, v in attrs.items()
                                             if k in ("op", "kind", "structure")))
        n = self.viol_classes.get(cls, 0)
        self.viol_classes[cls] = n + 1
        if n == 0:
            body = {"property": self.pid, "check": check, "clause": clause, "attrs": attrs, "detail": detail,
                    "replay": replay, "tier": self.tier, "seed": self.seed}
            h = hashlib.sha1(json.dumps(body, sort_keys=True, default=str).encode()).hexdigest()[:12]
            d = os.path.join(OUT, "out", "replay", self.pid)
            os.makedirs(d, exist_ok=True)
            path = os.path.join(d, "%s-%s-%s.json" % (check, clause.replace("/", "_").replace(" ", "_")[:40], h))
            with open(path, "w") as f:
                json.dump(body, f, indent=1, default=str)
            self.violations.append({"check": check, "clause": clause, "replay": path, "attrs": attrs})
            print("VIOLATION property=%s replay=%s" % (self.pid, path))
            print("  check=%s clause=%s %s" % (check, clause, json.dumps(attrs, default=str)[:300]))
            print("  detail: %s" % (json.dumps(detail, default=str)[:600]))
            sys.stdout.flush()
        return "new"

    def machinery(self, msg):
        self.machinery_errors.append(msg)
        print("MACHINERY-FAILURE property=%s %s" % (self.pid, msg[:2000]))
        sys.stdout.flush()

    # ---- finish
    def finish(self, rule, exhaustive=None, extra=None):
        # one line per listed finding of this property (whether or not this run, with its seed and tier, met the failing input)
        for f in self.findings:
            hit = self.known_hits.get(f["id"], {"count": 0})
            print("KNOWN-FINDING: property=%s %s [%s; reproduced %d time(s) in this run]" % (self.pid, f.get("what", f["id"]), f["id"], hit["count"]))
        cov = self.cov
        cov["rule"] = rule
        cov["distinct_nontrivial"] = len(self._nontrivial)
        if exhaustive is not None:
            cov["exhaustive"] = bool(exhaustive)
        cov["known_findings_reproduced"] = {k: v["count"] for k, v in self.known_hits.items()}
        cov["violation_classes"] = [{"check": k[0], "clause": k[1], "count": v} for k, v in self.viol_classes.items()]
        if extra:
            cov.update(extra)
        if cov["states"] == 0:
            del cov["states"], cov["transitions"]
        ev = {"property_id": self.pid, "tier": self.tier, "seed": self.seed, "level": self.level,
              "coverage": cov, "assumptions": self.assumptions, "wall_s": round(time.time() - self.t0, 2),
              "violations": sum(self.viol_classes.values())}
        if self.machinery_errors:
            ev["coverage"]["machinery_errors"] = self.machinery_errors[:5]
        os.makedirs(os.path.join(OUT, "evidence"), exist_ok=True)
        with open(os.path.join(OUT, "evidence", self.pid + ".json"), "w") as f:
            json.dump(ev, f, indent=1, default=str)
        print("SUMMARY property=%s tier=%s seed=%d evaluations=%d validated=%d nontrivial=%d violations=%d known=%d wall=%.1fs"
              % (self.pid, self.tier, self.seed, cov["evaluations"], cov["traces_validated_against_impl"],
                 cov["distinct_nontrivial"], ev["violations"], sum(v["count"] for v in self.known_hits.values()),
                 ev["wall_s"]))
        if self.violations:
            return 1
        if self.machinery_errors:
            return 2
        return 0


def run_check(pid, fn):
    """Run fn(check) with total error handling: an exception in the machinery is exit 2."""
    chk = Check(pid)
    try:
        fn(chk)
    except SystemExit:
        raise
    except Exception:
        chk.machinery("exception in check machinery:\n" + traceback.format_exc())
        try:
            chk.finish(rule="aborted by machinery failure")
        except Exception:
            pass
        return 2
    return None
