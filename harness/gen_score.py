"""Seeded generator of small but feature-rich parts / scores built through partitura's public API.

Every generated part is inside the domains the properties quantify over: all notes lie inside
measures, ties connect equal pitches, one divisions value per part (optionally a mid-piece change),
ids are unique."""
import random

STEPS = ["C", "D", "E", "F", "G", "A", "B"]
TS = [(4, 4), (3, 4), (2, 4), (6, 8), (2, 2), (5, 4), (9, 8)]


def bar_len(divs, beats, beat_type):
    x = divs * 4 * beats
    return x // beat_type if x % beat_type == 0 else None


def make_part(score, rng, pid="P1", divs=None, n_measures=None, voices=2, staves=1, grace=True, ties=True,
              chords=True, slurs=True, pickup=False, ts_change=False, rests=True, directions=False,
              alters=(-1, 0, 0, 0, 1), max_notes=40, key=None, clef=True, polyphony=False, no_voice=0.0, no_staff=0.0):
    divs = divs or rng.choice([1, 2, 4, 6, 12])
    while True:
        beats, beat_type = rng.choice(TS)
        bl = bar_len(divs, beats, beat_type)
        if bl:
            break
    n_measures = n_measures or rng.randint(2, 4)
    part = score.Part(pid, part_name="Part " + pid, quarter_duration=divs)
    part.add(score.TimeSignature(beats, beat_type), 0)
    if key is not False:
        part.add(score.KeySignature(rng.randint(-4, 4) if key is None else key, rng.choice(["major", "minor"])), 0)
    if clef:
        for s in range(1, staves + 1):
            part.add(score.Clef(s, "G" if s == 1 else "F", 2 if s == 1 else 4, 0), 0)
    # measures
    t = 0
    bounds = []
    cur_bl = bl
    for m in range(n_measures):
        length = cur_bl
        if m == 0 and pickup:
            length = rng.randint(1, max(1, cur_bl - 1))
        # (no signature change directly after a pickup: the bar the pickup belongs to would be ill-defined)
        if ts_change == "multi":
            # several changes between two signatures, so that the piece returns to an earlier one (A B A ...)
            if m == 0:
                cur_ts = (beats, beat_type)
                pool = [cur_ts]
                for _ in range(20):
                    b2, bt2 = rng.choice(TS)
                    if bar_len(divs, b2, bt2) and (b2, bt2) != cur_ts:
                        pool.append((b2, bt2))
                        break
            elif len(pool) > 1 and not (pickup and m == 1) and rng.random() < 0.6:
                cur_ts = pool[1] if cur_ts == pool[0] else pool[0]
                part.add(score.TimeSignature(*cur_ts), t)
                cur_bl = length = bar_len(divs, *cur_ts)
        elif ts_change and m == n_measures // 2 and m > 0 and not (pickup and m == 1):
            for _ in range(20):
                b2, bt2 = rng.choice(TS)
                l2 = bar_len(divs, b2, bt2)
                if l2 and (b2, bt2) != (beats, beat_type):
                    part.add(score.TimeSignature(b2, bt2), t)
                    cur_bl = length = l2
                    break
        part.add(score.Measure(number=m + 1, name=str(m + 1)), t, t + length)
        bounds.append((t, t + length))
        t += length
    end = t
    nid = [0]

    def new_id():
        nid[0] += 1
        return "%s_n%d" % (pid, nid[0])

    notes = []
    count = 0
    for v in range(1, voices + 1):
        staff = 1 if staves == 1 else (1 if v <= (voices + 1) // 2 else 2)
        for (ms, me) in bounds:
            pos = ms
            while pos < me and count < max_notes:
                room = me - pos
                dur = rng.choice([d for d in (1, 2, 3, 4, 6, 8, 12) if d <= room] or [room])
                if rests and rng.random() < 0.15:
                    part.add(score.Rest(id=new_id(), voice=v, staff=staff), pos, pos + dur)
                    pos += dur
                    continue
                n_ch = rng.choice([1, 1, 1, 2, 3]) if chords else 1
                used = set()
                for c in range(n_ch):
                    for _ in range(10):
                        st, al, oc = rng.choice(STEPS), rng.choice(alters), rng.randint(2, 6)
                        if (st, al, oc) not in used:
                            break
                    used.add((st, al, oc))
                    n = score.Note(step=st, octave=oc, alter=al if al != 0 else None, id=new_id(),
                                   voice=None if rng.random() < no_voice else v, staff=None if rng.random() < no_staff else staff)
                    part.add(n, pos, pos + dur)
                    notes.append(n)
                    count += 1
                    if grace and rng.random() < 0.08:
                        g = score.GraceNote(rng.choice(["grace", "acciaccatura", "appoggiatura"]), step=rng.choice(STEPS),
                                            octave=oc, alter=None, id=new_id(), voice=v, staff=staff)
                        part.add(g, pos, pos)
                        g.grace_next = n
                        n.grace_prev = g
                        notes.append(g)
                pos += dur
    if polyphony:
        # a sustained note under a moving line inside one voice (needs a second voice in MusicXML)
        ms, me = bounds[rng.randrange(len(bounds))]
        n = score.Note(step="B", octave=1, id=new_id(), voice=1, staff=1)
        part.add(n, ms, me)
        notes.append(n)
    # ties: consecutive notes of one voice with equal pitch and adjacent in time (force equality)
    if ties:
        by_voice = {}
        for n in notes:
            if isinstance(n, score.GraceNote):
                continue
            by_voice.setdefault(n.voice, []).append(n)
        for v, ns in by_voice.items():
            ns.sort(key=lambda n: (n.start.t, n.midi_pitch))
            for a in ns:
                if a.tie_next is not None or rng.random() > 0.2:
                    continue
                cands = [b for b in ns if b.start.t == a.end.t and b.tie_prev is None and b is not a]
                if not cands:
                    continue
                b = cands[0]
                # no other sounding note of that pitch may start there (ties pair by pitch)
                clash = [x for x in notes if x is not b and x is not a and not isinstance(x, score.GraceNote)
                         and x.start.t <= b.start.t < x.end.t and x.step == a.step and x.octave == a.octave and (x.alter or 0) == (a.alter or 0)]
                if clash:
                    continue
                b.step, b.alter, b.octave = a.step, a.alter, a.octave
                a.tie_next = b
                b.tie_prev = a
    if slurs and len(notes) >= 4:
        plain = [n for n in notes if not isinstance(n, score.GraceNote)]
        plain.sort(key=lambda n: n.start.t)
        if len(plain) >= 4:
            i = rng.randint(0, len(plain) - 3)
            j = rng.randint(i + 1, min(len(plain) - 1, i + 4))
            if plain[j].start.t > plain[i].start.t:
                sl = score.Slur(plain[i], plain[j])
                part.add(sl, plain[i].start.t, plain[j].end.t)
    if directions:
        part.add(score.ConstantLoudnessDirection("f", staff=1), 0)
        part.add(score.Words("dolce", staff=1), bounds[0][0])
        if len(bounds) > 1:
            part.add(score.IncreasingLoudnessDirection("cresc.", wedge=True, staff=1), bounds[0][0], bounds[1][0])
    return part


def make_score(score, rng, n_parts=None, **kw):
    n_parts = n_parts or rng.randint(1, 3)
    parts = [make_part(score, rng, pid="P%d" % (i + 1), **kw) for i in range(n_parts)]
    return score.Score(partlist=parts, id="S")
