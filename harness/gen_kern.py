"""Seeded generator of Humdrum **kern documents in the supported subset: the same abstract lines are serialised to text
(for load_kern) and handed to TLC (KernStream) as tokens."""
from fractions import Fraction

VALUES = [((1, 0), Fraction(4)), ((2, 0), Fraction(2)), ((2, 1), Fraction(3)), ((4, 0), Fraction(1)), ((4, 1), Fraction(3, 2)),
          ((8, 0), Fraction(1, 2)), ((8, 1), Fraction(3, 4)), ((16, 0), Fraction(1, 4)), ((4, 2), Fraction(7, 4))]
TRIPLETS = [(12, Fraction(1, 3)), (6, Fraction(2, 3)), (24, Fraction(1, 6))]
SHARPS, FLATS = "fcgdaeb", "beadgcf"
SIGN_INT = {"G": 0, "F": 1, "C": 2}


def pitch_text(step, alter, octave, natural=False):
    s = step.lower() * (octave - 3) if octave >= 4 else step.upper() * (4 - octave)
    return s + ("#" * alter if alter > 0 else "-" * (-alter) if alter < 0 else ("n" if natural else ""))


def fill(rng, length, triplets=True, dots=True, palette=None):
    """rhythm values filling `length` quarters exactly.  palette "coarse+triplets" (whole to quarter, undotted, and
    triplets) and "sixteenths" (quarter to sixteenth, undotted, no triplets) give two spines whose own grids are
    incommensurable: neither contains the other, only their least common multiple holds both."""
    out, rem = [], length
    while rem > 0:
        opts = [(v, d) for v, d in VALUES if d <= rem and (dots or v[1] == 0)]
        trip = [(r, d) for r, d in TRIPLETS if 3 * d <= rem] if triplets else []
        if palette == "coarse+triplets":
            # (no eighths unless nothing else fits: with eighths the spine's own grid already holds sixteenths)
            coarse = [(v, d) for v, d in opts if v[1] == 0 and v[0] in (1, 2, 4)]
            opts = coarse or [(v, d) for v, d in opts if v == (8, 0)]
            trip = [(r, d) for r, d in TRIPLETS if 3 * d <= rem and r in (12, 6)]
        elif palette == "sixteenths":
            opts = [(v, d) for v, d in opts if v[1] == 0 and v[0] in (4, 8, 16, 16)]
            trip = []
        if trip and rng.random() < (0.5 if palette else 0.25):
            r, d = rng.choice(trip)
            out += [((r, 0), d)] * 3
            rem -= 3 * d
            continue
        if not opts:
            raise ValueError("cannot fill %s" % rem)
        v, d = rng.choice(opts)
        out.append((v, d))
        rem -= d
    return out


def make_doc(rng, chords=True, ties="notes", grace=True, meter_change=True, pickup=True, same_part=False, splits=False):
    nsp = rng.choice([1, 2, 2, 3]) if not same_part else rng.choice([2, 2, 3])
    beats, bt = rng.choice([(4, 4), (3, 4), (2, 4), (6, 8), (2, 2), (3, 8)])
    nbars = rng.randint(1, 3)
    fifths = rng.randint(-4, 4)
    has_pickup = pickup and rng.random() < 0.3
    plain_lead = rng.random() < 0.6
    # in a part made of several spines: which of the first two spines (1 or 2; 0: neither) keeps to whole..eighth values and
    # triplets while the other keeps to quarter..sixteenth values, so that the part's divisions must hold both grids
    incommensurable = rng.choice([0, 1, 2]) if same_part else 0
    change_at = rng.randrange(1, nbars) if (meter_change and nbars > 1 and rng.random() < 0.3) else None
    # bar plan: (number or None for the pickup, length, meter change before it)
    plan = []
    cur = (beats, bt)
    if has_pickup:
        plan.append((None, Fraction(rng.randint(1, max(1, int(Fraction(4 * beats, bt) * 2) - 1)), 2), None))
    for b in range(nbars):
        ch = None
        if change_at == b:
            cur = rng.choice([m for m in [(4, 4), (3, 4), (2, 4), (6, 8)] if m != cur])
            ch = cur
        plan.append((b + 1, Fraction(4 * cur[0], cur[1]), ch))
    # events per spine: list over bars of list of events
    spines = []
    for j in range(nsp):
        bars = []
        for (num, length, ch) in plan:
            evs = []
            # (in a part made of several spines the first spine may be the only plain one: the divisions must come from all of them)
            plain_first = same_part and plain_lead and j == 0
            palette = None
            if incommensurable and j < 2:
                palette = "coarse+triplets" if j == incommensurable - 1 else "sixteenths"
            for (recip, dots), d in fill(rng, length, triplets=not plain_first, dots=not plain_first, palette=palette):
                kind = "rest" if rng.random() < 0.15 else ("chord" if chords and rng.random() < 0.2 else "note")
                pitches = []
                for _ in range(1 if kind != "chord" else rng.randint(2, 3)):
                    for _ in range(20):
                        p = (rng.choice("CDEFGAB"), rng.choice([-1, 0, 0, 0, 1]), rng.randint(2, 6))
                        if p not in pitches:
                            break
                    pitches.append(p)
                evs.append({"recip": recip, "dots": dots, "dur": d, "rest": kind == "rest", "pitches": pitches if kind != "rest" else [],
                            "ties": ["" for _ in pitches] if kind != "rest" else [], "grace": False})
                if grace and kind == "note" and rng.random() < 0.06:
                    evs.insert(len(evs) - 1, {"recip": 8, "dots": 0, "dur": Fraction(0), "rest": False,
                                              "pitches": [(rng.choice("CDEFGAB"), 0, rng.randint(3, 5))], "ties": [""], "grace": True})
            bars.append(evs)
        # ties between consecutive sounding events of the spine
        flat_all = [e for b in bars for e in b]
        flat = [e for e in flat_all if not e["grace"]]
        for a, b in zip(flat, flat[1:]):
            if a["rest"] or b["rest"] or rng.random() > 0.2:
                continue
            if flat_all[[id(x) for x in flat_all].index(id(a)) + 1] is not b:
                continue        # (no grace note inside a tie)
            if ties == "notes" and (len(a["pitches"]) > 1 or len(b["pitches"]) > 1):
                continue
            ia = rng.randrange(len(a["pitches"]))
            if a["ties"][ia] in ("[", "_"):
                continue
            p = a["pitches"][ia]
            if p in b["pitches"]:
                ib = b["pitches"].index(p)
            else:
                ib = 0
                b["pitches"][0] = p
                if len(set(b["pitches"])) != len(b["pitches"]):
                    continue
            if b["ties"][ib]:
                continue
            a["ties"][ia] = "_" if a["ties"][ia] == "]" else "["
            b["ties"][ib] = "]"
        spines.append(bars)
    # a spine split: for one bar one spine runs as two sub-spines
    split = None
    numbered = [bi for bi, (num, _, _) in enumerate(plan) if num is not None]
    if splits and numbered and rng.random() < 0.6:
        bi = rng.choice(numbered)
        j = rng.randrange(nsp)
        sub = []
        for (recip, dots), d in fill(rng, plan[bi][1]):
            rest = rng.random() < 0.2
            p = (rng.choice("CDEFGAB"), rng.choice([-1, 0, 0, 1]), rng.randint(2, 6))
            sub.append({"recip": recip, "dots": dots, "dur": d, "rest": rest, "pitches": [] if rest else [p], "ties": [] if rest else [""], "grace": False})
        split = (j, bi, sub)
    staffs = [nsp - j for j in range(nsp)]
    clefs = [("G", 2) if staffs[j] == 1 else rng.choice([("F", 4), ("C", 3), ("G", 2)]) for j in range(nsp)]
    # ---- lines
    lines = []      # abstract
    text = []

    def interp(toks, texts):
        lines.append({"kind": "interp", "number": "", "toks": toks})
        text.append("\t".join(texts))
    nul = {"kind": "null", "a": 0, "b": 0, "c": 0, "null": 1, "notes": []}
    text.append("\t".join(["**kern"] * nsp))
    if same_part:
        interp([dict(nul, kind="part", a=1) for j in range(nsp)], ["*part1"] * nsp)
    interp([dict(nul, kind="staff", a=staffs[j]) for j in range(nsp)], ["*staff%d" % staffs[j] for j in range(nsp)])
    interp([dict(nul, kind="clef", a=SIGN_INT[clefs[j][0]], b=clefs[j][1]) for j in range(nsp)], ["*clef%s%d" % clefs[j] for j in range(nsp)])
    ktxt = "*k[" + "".join(c + "#" for c in SHARPS[:max(fifths, 0)]) + "".join(c + "-" for c in FLATS[:max(-fifths, 0)]) + "]"
    interp([dict(nul, kind="key", a=fifths) for j in range(nsp)], [ktxt] * nsp)
    interp([dict(nul, kind="meter", a=beats, b=bt) for j in range(nsp)], ["*M%d/%d" % (beats, bt)] * nsp)
    for bi, (num, length, ch) in enumerate(plan):
        if num is not None:
            lines.append({"kind": "bar", "number": str(num), "toks": [dict(nul) for _ in range(nsp)]})
            text.append("\t".join(["=%d" % num] * nsp))
        if ch is not None:
            interp([dict(nul, kind="meter", a=ch[0], b=ch[1]) for j in range(nsp)], ["*M%d/%d" % ch] * nsp)
        # the columns of this bar: one per spine, two for a split spine
        cols = []
        for j in range(nsp):
            cols.append(spines[j][bi])
            if split is not None and split[0] == j and split[1] == bi:
                cols.append(split[2])
        if len(cols) > nsp:
            js = split[0]
            lines.append({"kind": "path", "number": "", "toks": [dict(nul, kind="split" if j == js else "null") for j in range(nsp)]})
            text.append("\t".join("*^" if j == js else "*" for j in range(nsp)))
        # events of this bar by onset; grace notes get a line of their own before the event they precede
        rows = {}
        for j in range(len(cols)):
            t = Fraction(0)
            k = 0
            for e in cols[j]:
                if e["grace"]:
                    rows.setdefault((t, 0, j, k), {})[j] = e
                    k += 1
                else:
                    rows.setdefault((t, 1, 0, 0), {})[j] = e
                    t += e["dur"]
                    k = 0
        for key in sorted(rows):
            toks, texts = [], []
            for j in range(len(cols)):
                e = rows[key].get(j)
                if e is None:
                    toks.append(dict(nul))
                    texts.append(".")
                    continue
                notes, subs = [], []
                rv = "%d%s" % (e["recip"], "." * e["dots"])
                if e["rest"]:
                    notes.append({"recip": e["recip"], "dots": e["dots"], "rest": 1, "step": "C", "alter": 0, "octave": 0, "tie": "", "grace": 0})
                    subs.append(rv + "r")
                for p, tie in zip(e["pitches"], e["ties"]):
                    notes.append({"recip": e["recip"], "dots": e["dots"], "rest": 0, "step": p[0], "alter": p[1], "octave": p[2], "tie": tie,
                                  "grace": 1 if e["grace"] else 0})
                    subs.append(("[" if tie == "[" else "") + rv + pitch_text(*p) + ("q" if e["grace"] else "") + (tie if tie in ("]", "_") else ""))
                toks.append({"kind": "null", "a": 0, "b": 0, "c": 0, "null": 0, "notes": notes})
                texts.append(" ".join(subs))
            lines.append({"kind": "data", "number": "", "toks": toks})
            text.append("\t".join(texts))
        if len(cols) > nsp:
            js = split[0]
            lines.append({"kind": "path", "number": "", "toks": [dict(nul, kind="join" if c in (js, js + 1) else "null") for c in range(len(cols))]})
            text.append("\t".join("*v" if c in (js, js + 1) else "*" for c in range(len(cols))))
    lines.append({"kind": "bar", "number": "", "toks": [dict(nul) for _ in range(nsp)]})
    text.append("\t".join(["=="] * nsp))
    text.append("\t".join(["*-"] * nsp))
    meta = {"nspines": nsp, "split": split is not None, "same_part": same_part, "incommensurable": incommensurable, "staffs": staffs, "pickup": has_pickup, "meter_change": change_at is not None, "nbars": nbars}
    return {"nspines": nsp, "lines": lines}, "\n".join(text) + "\n", meta


def parse_text(text):
    """Tokenise a **kern document (written by anyone) into the abstract lines KernStream reads; independent of partitura."""
    import re
    nul = {"kind": "null", "a": 0, "b": 0, "c": 0, "null": 1, "notes": []}
    lines, nsp = [], None
    for row in text.split("\n"):
        if not row.strip() or row.startswith("!"):
            continue
        toks = row.split("\t")
        if toks[0].startswith("**"):
            nsp = len(toks)
            continue
        if any(t.startswith("*") for t in toks) and all(t.startswith("*") or t == "." for t in toks):
            # (save_kern fills the other spines of an interpretation line with "." instead of "*": read as null interpretations)
            toks = ["*" if t == "." else t for t in toks]
            if toks[0] == "*-":
                continue
            if any(t in ("*^", "*v") for t in toks):
                lines.append({"kind": "path", "number": "", "toks": [dict(nul, kind="split" if t == "*^" else "join" if t == "*v" else "null") for t in toks]})
                continue
            out = []
            for t in toks:
                m = re.match(r"^\*staff(\d+)$", t)
                if m:
                    out.append(dict(nul, kind="staff", a=int(m.group(1))))
                    continue
                m = re.match(r"^\*clef([GFC])(\d)$", t)
                if m:
                    out.append(dict(nul, kind="clef", a=SIGN_INT[m.group(1)], b=int(m.group(2))))
                    continue
                m = re.match(r"^\*M(\d+)/(\d+)$", t)
                if m:
                    out.append(dict(nul, kind="meter", a=int(m.group(1)), b=int(m.group(2))))
                    continue
                m = re.match(r"^\*k\[(.*)\]$", t)
                if m:
                    out.append(dict(nul, kind="key", a=m.group(1).count("#") - m.group(1).count("-")))
                    continue
                out.append(dict(nul))
            lines.append({"kind": "interp", "number": "", "toks": out})
            continue
        if toks[0].startswith("="):
            m = re.search(r"(\d+)", toks[0])
            lines.append({"kind": "bar", "number": m.group(1) if m else "", "toks": [dict(nul) for _ in toks]})
            continue
        out = []
        for t in toks:
            if t == ".":
                out.append(dict(nul))
                continue
            notes = []
            for sub in t.split(" "):
                m = re.match(r"^([^0-9a-gA-Gr]*)(\d+)(\.*)([^a-gA-Gr]*)([a-gA-G]+|r)([#\-n]*)(.*)$", sub)
                if m is None:
                    notes.append({"recip": 0, "dots": 0, "rest": 1, "step": "C", "alter": 0, "octave": 0, "tie": "", "grace": 0, "unparsed": sub})
                    continue
                marks = m.group(1) + m.group(4) + m.group(7)
                tie = "_" if "_" in marks else "[" if "[" in marks else "]" if "]" in marks else ""
                grace = 1 if ("q" in marks or "p" in marks) else 0
                if m.group(5) == "r":
                    notes.append({"recip": int(m.group(2)), "dots": len(m.group(3)), "rest": 1, "step": "C", "alter": 0, "octave": 0, "tie": "", "grace": 0})
                    continue
                letters = m.group(5)
                octave = 3 + len(letters) if letters[0].islower() else 4 - len(letters)
                acc = m.group(6)
                notes.append({"recip": int(m.group(2)), "dots": len(m.group(3)), "rest": 0, "step": letters[0].upper(),
                              "alter": acc.count("#") - acc.count("-"), "octave": octave, "tie": tie, "grace": grace})
            out.append({"kind": "null", "a": 0, "b": 0, "c": 0, "null": 0, "notes": notes})
        lines.append({"kind": "data", "number": "", "toks": out})
    return {"nspines": nsp or 0, "lines": lines}
