------------------------------- MODULE Pitch -------------------------------
(***************************************************************************)
(* Twelve-tone and diatonic arithmetic from first principles (C12, C16,    *)
(* used by C05, C07, C17, C19): pitch spelling <-> MIDI pitch <-> note     *)
(* name, keys on the line of fifths, interval sizes, diatonic              *)
(* transposition.  Nothing here is copied from partitura's tables.         *)
(***************************************************************************)
EXTENDS Integers, Sequences, FiniteSets, TLC

StepNames == <<"C", "D", "E", "F", "G", "A", "B">>
BasePc == <<0, 2, 4, 5, 7, 9, 11>>        \* semitones above C of the natural steps
StepIdx(s) == CHOOSE i \in 1..7 : StepNames[i] = s

Midi(step, alter, octave) == (octave + 1) * 12 + BasePc[StepIdx(step)] + alter   \* C4 = 60

\* "sharp" default spelling of a MIDI pitch: the natural step at or below the pitch class
DefaultSpelling(m) ==
   LET pc == m % 12
       i == CHOOSE k \in 1..7 : BasePc[k] <= pc /\ (k = 7 \/ BasePc[k + 1] > pc)
   IN <<StepNames[i], pc - BasePc[i], (m \div 12) - 1>>

Rep(str, n) == IF n <= 0 THEN "" ELSE IF n = 1 THEN str ELSE IF n = 2 THEN str \o str ELSE str \o str \o str
\* canonical accidental text: x for a double sharp
AlterText(a) == IF a = 2 THEN "x" ELSE IF a > 0 THEN Rep("#", a) ELSE Rep("b", -a)
NoteName(step, alter, octave) == step \o AlterText(alter) \o ToString(octave)

\* accidental strings: every # is +1, every x +2, every b -1
AccChars == {"#", "x", "b"}
AccStrings == {""} \cup AccChars \cup {a \o b : a \in AccChars, b \in AccChars}
                 \cup {a \o b \o c : a \in AccChars, b \in AccChars, c \in AccChars}
CharVal(ch) == IF ch = "#" THEN 1 ELSE IF ch = "x" THEN 2 ELSE -1
\* canonical strings (those every reader must accept)
CanonicalAcc == {"", "#", "##", "###", "x", "b", "bb", "bbb"}
AccValue(acc) ==
   CASE acc = "" -> 0 [] acc = "#" -> 1 [] acc = "##" -> 2 [] acc = "###" -> 3 [] acc = "x" -> 2
     [] acc = "b" -> -1 [] acc = "bb" -> -2 [] acc = "bbb" -> -3 [] OTHER -> 99

(* ---- keys on the line of fifths ---- *)
FifthsLetters == <<"F", "C", "G", "D", "A", "E", "B">>   \* ascending fifths
\* name of the note k fifths above C (k may be negative)
NoteAtFifths(k) ==
   LET idx == (k + 1) % 7            \* position in FifthsLetters, 0-based
       acc == (k + 1 - idx) \div 7   \* number of sharps (negative: flats)
   IN FifthsLetters[idx + 1] \o (IF acc >= 0 THEN Rep("#", acc) ELSE Rep("b", -acc))
KeyName(fifths, minor) == IF minor THEN NoteAtFifths(fifths + 3) \o "m" ELSE NoteAtFifths(fifths)
ValidFifths == -7..7
\* pitch class of the tonic: each fifth is 7 semitones
TonicPc(fifths, minor) == ((fifths + (IF minor THEN 3 ELSE 0)) * 7) % 12

(* ---- intervals ---- *)
PerfectClass == {1, 4, 5}
MajorSemis == <<0, 2, 4, 5, 7, 9, 11>>        \* P1 M2 M3 P4 P5 M6 M7
Qualities(n) == IF n \in PerfectClass THEN {"dd", "d", "P", "A", "AA"} ELSE {"dd", "d", "m", "M", "A", "AA"}
QualityOffset(n, q) ==
   IF n \in PerfectClass
   THEN CASE q = "P" -> 0 [] q = "A" -> 1 [] q = "AA" -> 2 [] q = "d" -> -1 [] q = "dd" -> -2
   ELSE CASE q = "M" -> 0 [] q = "m" -> -1 [] q = "A" -> 1 [] q = "AA" -> 2 [] q = "d" -> -2 [] q = "dd" -> -3
IntervalSemitones(n, q) == MajorSemis[n] + QualityOffset(n, q)
IntervalClasses == {<<n, q>> : n \in 1..7, q \in {"dd", "d", "m", "M", "P", "A", "AA"}} \cap
                   {<<n, q>> \in (1..7) \X {"dd", "d", "m", "M", "P", "A", "AA"} : q \in Qualities(n)}

(* ---- diatonic transposition ---- *)
FloorDiv(a, b) == a \div b       \* TLA+ \div is floor division for positive b
Transpose(step, alter, octave, n, q, dir) ==
   LET i0 == StepIdx(step) - 1
       j == IF dir = "up" THEN i0 + (n - 1) ELSE i0 - (n - 1)
       newIdx == j % 7
       newOct == octave + FloorDiv(j, 7)
       newStep == StepNames[newIdx + 1]
       m == Midi(step, alter, octave) + (IF dir = "up" THEN 1 ELSE -1) * IntervalSemitones(n, q)
   IN <<newStep, m - Midi(newStep, 0, newOct), newOct>>
\* octave-free variant (chord roots): step and alteration only, direction up
TransposePc(step, alter, n, q) ==
   LET r == Transpose(step, alter, 4, n, q, "up") IN <<r[1], r[2]>>
StepPc(step, alter) == (BasePc[StepIdx(step)] + alter) % 12

(* ---- theorems of the arithmetic, checked by TLC when the module is loaded ---- *)
ASSUME MidiRoundTrip == \A m \in 0..127 : LET s == DefaultSpelling(m) IN Midi(s[1], s[2], s[3]) = m /\ s[2] \in {0, 1}
ASSUME C4Is60 == Midi("C", 0, 4) = 60 /\ Midi("A", 0, 4) = 69
ASSUME AccidentalIsSemitone == \A s \in 1..7, a \in -3..2 : Midi(StepNames[s], a + 1, 4) = Midi(StepNames[s], a, 4) + 1
ASSUME KeyBijection == \A f1 \in ValidFifths, f2 \in ValidFifths, m1 \in BOOLEAN, m2 \in BOOLEAN :
                          KeyName(f1, m1) = KeyName(f2, m2) => (f1 = f2 /\ m1 = m2)
ASSUME ThirtyKeys == Cardinality({KeyName(f, m) : f \in ValidFifths, m \in BOOLEAN}) = 30
ASSUME RelativeKeys == \A f \in ValidFifths : TonicPc(f, TRUE) = (TonicPc(f, FALSE) + 9) % 12
ASSUME ThirtyNineIntervals == Cardinality(IntervalClasses) = 39
ASSUME UpThenDownIsIdentity ==
   \A s \in 1..7, a \in -2..2, o \in 0..8, iv \in IntervalClasses :
      LET u == Transpose(StepNames[s], a, o, iv[1], iv[2], "up")
          d == Transpose(u[1], u[2], u[3], iv[1], iv[2], "down")
      IN d = <<StepNames[s], a, o>>
ASSUME MidiMovesBySemitones ==
   \A s \in 1..7, a \in -2..2, o \in 0..8, iv \in IntervalClasses, dir \in {"up", "down"} :
      LET r == Transpose(StepNames[s], a, o, iv[1], iv[2], dir)
      IN Midi(r[1], r[2], r[3]) = Midi(StepNames[s], a, o)
                                    + (IF dir = "up" THEN 1 ELSE -1) * IntervalSemitones(iv[1], iv[2])
ASSUME StepsMoveByNumber ==
   \A s \in 1..7, iv \in IntervalClasses :
      StepIdx(Transpose(StepNames[s], 0, 4, iv[1], iv[2], "up")[1]) - 1 = (s - 1 + iv[1] - 1) % 7
ASSUME ChordRootArithmeticAgrees ==
   \A s \in 1..7, a \in -2..2, iv \in IntervalClasses :
      LET r == TransposePc(StepNames[s], a, iv[1], iv[2])
      IN StepPc(r[1], r[2]) = (StepPc(StepNames[s], a) + IntervalSemitones(iv[1], iv[2])) % 12
=============================================================================
