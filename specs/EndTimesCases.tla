--------------------------- MODULE EndTimesCases ---------------------------
(* Scenario source for EndTimes.tla: every list of up to MaxObjs objects in start order on the grid 0..MaxT,
   each with or without an end; finished scans are printed and replayed into set_end_times (harness/checks/g03.py). *)
EXTENDS EndTimes, Json, IOUtils, TLC

CONSTANTS MaxT, MaxObjs
Obj == {[s |-> a, e |-> b] : a \in 0..MaxT, b \in {None} \cup (1..(MaxT + 1))}
Valid(o) == o.e = None \/ o.e > o.s
Lists == {f \in UNION {[1..n -> {o \in Obj : Valid(o)}] : n \in 0..MaxObjs} : \A k \in 2..Len(f) : f[k - 1].s <= f[k].s}
Init == \E f \in Lists : ScanInit([objs |-> f, last |-> MaxT + 2])
Next == ScanNext
Spec == Init /\ [][Next]_evars
Report == IF Done THEN PrintT(ToJson([objs |-> sc.objs, last |-> sc.last, ends |-> ends])) ELSE TRUE
=============================================================================
