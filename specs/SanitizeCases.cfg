SPECIFICATION Spec
CONSTRAINT Report
INVARIANT NothingIncompleteLeft
INVARIANT CompleteThingsStay
INVARIANT OnlyRepairs
CHECK_DEADLOCK FALSE
