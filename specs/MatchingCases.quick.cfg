SPECIFICATION Spec
CONSTANT MaxT = 2
CONSTANT MaxIn = 2
CONSTANT MaxTg = 2
CONSTRAINT Report
INVARIANT PairsValid
INVARIANT OneToOne
INVARIANT ClosestWins
INVARIANT ClaimedAreMatched
INVARIANT SameArrayMatchesItself
INVARIANT SameArrayWithDurations
CHECK_DEADLOCK FALSE
