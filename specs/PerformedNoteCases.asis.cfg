SPECIFICATION CSpec
CONSTANT Strict = FALSE
CONSTANT MaxT = 2
CONSTANT Depth = 3
CONSTRAINT Report
INVARIANT NeverNegative
PROPERTY RefusedChangesNothing
CHECK_DEADLOCK FALSE
