SPECIFICATION Spec
CONSTANT Divs = 1260
CONSTANT MaxRuns = 2
CONSTANT Lengths = {100, 126, 140, 180, 252, 280, 360, 504}
CONSTANT Counts = {1, 2, 5, 7, 9}
CONSTRAINT Report
INVARIANT TupletsDisjoint
INVARIANT MembersEquallyLong
INVARIANT InTheTimeOfTwo
INVARIANT NothingLeftOver
CHECK_DEADLOCK FALSE
