SPECIFICATION Spec
CONSTANT MaxT = 4
CONSTANT MaxRests = 4
CONSTRAINT Report
INVARIANT TimePreserved
INVARIANT SurvivorsKeepPlace
INVARIANT SameSilence
INVARIANT NothingLeftToJoin
CHECK_DEADLOCK FALSE
