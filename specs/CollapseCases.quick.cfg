SPECIFICATION Spec
CONSTANT MaxT = 4
CONSTANT MaxRests = 4
CONSTRAINT Report
INVARIANT TimePreserved
INVARIANT SurvivorsKeepPlace
INVARIANT SameSilence
INVARIANT NothingLeftToJoin
INVARIANT PrefixKeepsRowsApart
CHECK_DEADLOCK FALSE
