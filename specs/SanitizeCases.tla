---------------------------- MODULE SanitizeCases ----------------------------
(* Scenario source for Sanitize.tla: every combination of the conditions of the slur, the tuplet, the grace note and
   the tie.  Settled states are printed (one per scenario) and replayed into sanitize_part (harness/checks/g11.py). *)
EXTENDS Sanitize, Json, IOUtils, TLC
Span == {"none", "ok", "nostart", "noend"}
Init == \E s \in Span, tp \in Span, g \in {"none", "linked", "loose_same_voice", "loose_other_voice"}, ti \in {"none", "ok", "gap"} :
           SanInit([slur |-> s, tuplet |-> tp, grace |-> g, tie |-> ti])
Next == SanNext
Spec == Init /\ [][Next]_zvars
Report == IF Settled THEN PrintT(ToJson([given |-> sc, slur |-> slur, tuplet |-> tuplet, grace |-> grace, tie |-> tie])) ELSE TRUE
=============================================================================
