SPECIFICATION TSpec
CONSTRAINT Report
INVARIANT InvTies
INVARIANT InvBars
CHECK_DEADLOCK FALSE
