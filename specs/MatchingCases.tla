---------------------------- MODULE MatchingCases ----------------------------
(* Scenario source for Matching.tla: every pair of note arrays with up to MaxIn and MaxTg rows over two pitches,
   onsets 0..MaxT and durations 1..3, durations compared or not; finished runs are printed and replayed into
   match_note_arrays (harness/checks/g05.py). *)
EXTENDS Matching, Json, IOUtils, TLC

CONSTANTS MaxT, MaxIn, MaxTg
Rows == [p : {60, 61}, on : 0..MaxT, dur : 1..3]
Lists(n) == UNION {[1..m -> Rows] : m \in 1..n}
Init == \E a \in Lists(MaxIn), b \in Lists(MaxTg), d \in BOOLEAN : MatchInit([inp |-> a, tgt |-> b, dur |-> d])
Next == MatchNext
Spec == Init /\ [][Next]_mvars
Report == IF Done THEN PrintT(ToJson([inp |-> sc.inp, tgt |-> sc.tgt, dur |-> sc.dur, pairs |-> pairs])) ELSE TRUE
(* the order in which claimed inputs are settled does not matter: one outcome per scenario *)
=============================================================================
