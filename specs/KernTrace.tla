------------------------------ MODULE KernTrace ------------------------------
(* Batch interpretation of kern documents (C19): CASE_FILE holds a JSON array of documents (lines of tokens, produced by
   the harness' generator, which also serialises them to text); every line must be a step of the KernStream action of
   its kind; when a document is consumed TLC prints what it denotes (sounding notes with ties joined, rests, barlines,
   interpretations, the least divisions) and whether a rule of the representation was broken. *)
EXTENDS KernStream, Json, IOUtils, TLCExt, SequencesExt
Batch == TLCEval(JsonDeserialize(IOEnv.CASE_FILE))
VARIABLES tid, l
tvars == <<free, kcol, knotes, kopen, kbars, kattrs, kbad, tid, l>>
Doc == Batch[tid].lines
TInit == tid \in 1..Len(Batch) /\ l = 1 /\ KInit(Batch[tid].nspines)
TNext == /\ l <= Len(Doc) /\ l' = l + 1 /\ tid' = tid
         /\ \/ (Doc[l].kind = "data" /\ ReadData(Doc[l]))
            \/ (Doc[l].kind = "bar" /\ ReadBar(Doc[l]))
            \/ (Doc[l].kind = "interp" /\ ReadInterp(Doc[l]))
            \/ (Doc[l].kind = "path" /\ ReadPath(Doc[l]))
TSpec == TInit /\ [][TNext]_tvars
Done == l = Len(Doc) + 1
SeqOfSet(S) == SetToSeq(S)
Report == /\ (Done => PrintT(ToJson([cid |-> Batch[tid].cid, sounding |-> SeqOfSet(KSounding), rests |-> SeqOfSet(KRests), bars |-> kbars,
                                      attrs |-> kattrs, dens |-> SeqOfSet(KDens),
                                      bad |-> SeqOfSet(kbad \cup (IF KTiesContiguous THEN {} ELSE {"tie_across_a_gap"}) \cup (IF KBarsInOrder THEN {} ELSE {"barlines_out_of_order"})),
                                      aligned |-> Aligned])))
          /\ ((~Done /\ ~ENABLED TNext) => PrintT(<<"STUCK", Batch[tid].cid, l>>))
InvTies == KTiesContiguous
InvBars == KBarsInOrder
=============================================================================
