----------------------------- MODULE RubatoCases -----------------------------
(* Scenario source for Rubato.tla: up to MaxNotes notes (rows in any order) on the beat grid 0..MaxT, tempo and
   velocity as constants or step functions; finished runs are printed and replayed into
   performance_notearray_from_score_notearray with the tempo given as number, array and callable (harness/checks/g04.py). *)
EXTENDS Rubato, Json, IOUtils, TLC

CONSTANTS MaxT, MaxNotes
NoteRows == [on : 0..MaxT, dur : 1..2]
NoteLists == UNION {[1..n -> NoteRows] : n \in 1..MaxNotes}
Rows(V) == {<<[b |-> 0, v |-> x]>> : x \in V}
             \cup {<<[b |-> p, v |-> x]>> : p \in 1..MaxT, x \in V}
             \cup {<<[b |-> p, v |-> x], [b |-> q, v |-> y]>> : p \in 0..MaxT, q \in 0..MaxT, x \in V, y \in V} 
Increasing(r) == \A a \in 2..Len(r) : r[a - 1].b < r[a].b
Tempi == {r \in Rows({500, 1000}) : Increasing(r)}
Vels == {<<[b |-> 0, v |-> 64]>>, <<[b |-> 1, v |-> 40], [b |-> 2, v |-> 80]>>}
Init == \E f \in NoteLists, tp \in Tempi, vl \in Vels : PlayInit([notes |-> f, tempo |-> tp, vel |-> vl])
Next == PlayNext
Spec == Init /\ [][Next]_rvars
Report == IF Done THEN PrintT(ToJson([notes |-> sc.notes, tempo |-> sc.tempo, vel |-> sc.vel, out |-> out])) ELSE TRUE
=============================================================================
