SPECIFICATION Spec
CONSTANT Clamp = FALSE
CONSTANT MaxN = 3
CONSTANT MaxV = 3
CONSTANT MaxGap = 1

INVARIANT RunMaxIsMax
INVARIANT RecordsRise
INVARIANT RecordsAreTheRises
INVARIANT Monotone
INVARIANT RecordsKept
INVARIANT InvertibleBetweenRecords
INVARIANT AtLeastRunningMax
INVARIANT IncreasingUnchanged
INVARIANT WithinRange
CHECK_DEADLOCK FALSE
