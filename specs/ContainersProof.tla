--------------------------- MODULE ContainersProof ---------------------------
(***************************************************************************)
(* C20, unbounded and for every parameter value: a TLAPS proof that IndInv *)
(* of ContainersInd is inductive and implies the two safety properties,    *)
(* for any natural NParts and any set of iterators (Apalache discharges    *)
(* the same obligations for NParts = 3 and three iterators).               *)
(***************************************************************************)
EXTENDS ContainersInd, TLAPS

ASSUME NPartsNat == NParts \in Nat

TypeOK == /\ cur \in [Iters -> -1..(NParts + 1)]
          /\ yielded \in [Iters -> Seq(Int)]
Inv == TypeOK /\ IndInv

LEMMA InitInv == Init => Inv
  BY NPartsNat DEF Init, Inv, TypeOK, IndInv

LEMMA StepInv == Inv /\ [Next]_<<cur, yielded>> => Inv'
<1> SUFFICES ASSUME Inv, [Next]_<<cur, yielded>> PROVE Inv'
  OBVIOUS
<1>1. CASE UNCHANGED <<cur, yielded>>
  BY <1>1 DEF Inv, TypeOK, IndInv
<1>2. ASSUME NEW i \in Iters, Iter(i) PROVE Inv'
  <2>1. TypeOK'
    BY <1>2, NPartsNat DEF Inv, TypeOK, Iter
  <2>2. IndInv'
    BY <1>2, NPartsNat DEF Inv, TypeOK, IndInv, Iter
  <2> QED BY <2>1, <2>2 DEF Inv
<1>3. ASSUME NEW i \in Iters, NextOf(i) PROVE Inv'
  <2>1. CASE cur[i] < NParts
    <3>1. /\ yielded' = [yielded EXCEPT ![i] = Append(@, cur[i])]
          /\ cur' = [cur EXCEPT ![i] = @ + 1]
          /\ cur[i] >= 0
      BY <1>3, <2>1 DEF NextOf
    <3>2. cur[i] \in 0..(NParts - 1) /\ Len(yielded[i]) = cur[i]
      BY <3>1, <2>1, NPartsNat DEF Inv, TypeOK, IndInv
    <3>3. TypeOK'
      BY <3>1, <3>2, NPartsNat DEF Inv, TypeOK
    <3>4. IndInv'
      <4>1. cur' \in [Iters -> -1..(NParts + 1)]
        BY <3>3 DEF TypeOK
      <4>2. ASSUME NEW j \in Iters
            PROVE /\ Len(yielded'[j]) = (IF cur'[j] < 0 THEN 0 ELSE IF cur'[j] > NParts THEN NParts ELSE cur'[j])
                  /\ \A k \in 1..NParts : k <= Len(yielded'[j]) => yielded'[j][k] = k - 1
        <5>1. CASE j = i
          <6>1. yielded'[i] = Append(yielded[i], cur[i]) /\ cur'[i] = cur[i] + 1
            BY <3>1 DEF Inv, TypeOK
          <6>2. yielded[i] \in Seq(Int) /\ cur[i] \in Int
            BY <3>2 DEF Inv, TypeOK
          <6>3. Len(yielded'[i]) = cur[i] + 1
            BY <6>1, <6>2, <3>2
          <6>4. \A k \in 1..NParts : k <= Len(yielded'[i]) => yielded'[i][k] = k - 1
            <7> TAKE k \in 1..NParts
            <7> HAVE k <= Len(yielded'[i])
            <7>1. CASE k <= Len(yielded[i])
              BY <7>1, <6>1, <6>2 DEF Inv, IndInv
            <7>2. CASE k = Len(yielded[i]) + 1
              BY <7>2, <6>1, <6>2, <3>2
            <7> QED BY <7>1, <7>2, <6>3, <3>2, NPartsNat
          <6> QED BY <5>1, <6>1, <6>3, <6>4, <3>2, NPartsNat
        <5>2. CASE j # i
          <6>1. yielded'[j] = yielded[j] /\ cur'[j] = cur[j]
            BY <5>2, <3>1 DEF Inv, TypeOK
          <6> QED BY <6>1 DEF Inv, IndInv
        <5> QED BY <5>1, <5>2
      <4> QED BY <4>1, <4>2 DEF IndInv
    <3> QED BY <3>3, <3>4 DEF Inv
  <2>2. CASE ~(cur[i] < NParts)
    <3>1. /\ UNCHANGED yielded
          /\ cur' = [cur EXCEPT ![i] = NParts + 1]
          /\ cur[i] >= 0 /\ cur[i] <= NParts
      BY <1>3, <2>2 DEF NextOf
    <3>2. cur[i] = NParts /\ Len(yielded[i]) = NParts
      BY <3>1, <2>2, NPartsNat DEF Inv, TypeOK, IndInv
    <3>3. TypeOK'
      BY <3>1, NPartsNat DEF Inv, TypeOK
    <3>4. IndInv'
      <4>1. cur' \in [Iters -> -1..(NParts + 1)]
        BY <3>3 DEF TypeOK
      <4>2. ASSUME NEW j \in Iters
            PROVE /\ Len(yielded'[j]) = (IF cur'[j] < 0 THEN 0 ELSE IF cur'[j] > NParts THEN NParts ELSE cur'[j])
                  /\ \A k \in 1..NParts : k <= Len(yielded'[j]) => yielded'[j][k] = k - 1
        <5>1. CASE j = i
          <6>1. yielded'[i] = yielded[i] /\ cur'[i] = NParts + 1
            BY <3>1 DEF Inv, TypeOK
          <6> QED BY <5>1, <6>1, <3>2, NPartsNat DEF Inv, IndInv
        <5>2. CASE j # i
          <6>1. yielded'[j] = yielded[j] /\ cur'[j] = cur[j]
            BY <5>2, <3>1 DEF Inv, TypeOK
          <6> QED BY <6>1 DEF Inv, IndInv
        <5> QED BY <5>1, <5>2
      <4> QED BY <4>1, <4>2 DEF IndInv
    <3> QED BY <3>3, <3>4 DEF Inv
  <2> QED BY <2>1, <2>2
<1> QED BY <1>1, <1>2, <1>3 DEF Next

LEMMA InvSafe == Inv => Safety
<1> SUFFICES ASSUME Inv PROVE Safety
  OBVIOUS
<1>1. YieldsInOrder
  <2> SUFFICES ASSUME NEW i \in Iters, NEW k \in DOMAIN yielded[i] PROVE yielded[i][k] = k - 1
    BY DEF YieldsInOrder
  <2>1. yielded[i] \in Seq(Int) /\ cur[i] \in -1..(NParts + 1)
    BY DEF Inv, TypeOK
  <2>2. k \in 1..Len(yielded[i]) /\ Len(yielded[i]) <= NParts
    BY <2>1, NPartsNat DEF Inv, IndInv
  <2> QED BY <2>1, <2>2, NPartsNat DEF Inv, IndInv
<1>2. ExhaustedMeansAll
  BY NPartsNat DEF Inv, TypeOK, IndInv, ExhaustedMeansAll
<1> QED BY <1>1, <1>2 DEF Safety

THEOREM Correct == Spec => []Safety
<1>1. Spec => []Inv
  BY InitInv, StepInv, PTL DEF Spec
<1> QED BY <1>1, InvSafe, PTL
=============================================================================
