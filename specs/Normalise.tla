------------------------------ MODULE Normalise ------------------------------
(***************************************************************************)
(* C11: adding measures, tying notes and symbolic durations, as relational *)
(* post-conditions validated on recorded calls.                            *)
(*  kind "estimate": [dur, div, sym] - sym = <<>> (no single notated       *)
(*       value reported) or [type, dots, actual, normal]                   *)
(*  kind "measures": [T, first, q, ts (seq of <<t, beats, beat_type>>),    *)
(*       before, after (seq of <<start, end, number>>)]                    *)
(*  kind "ties": [q, measures, rows_before, rows_after (sounding notes     *)
(*       <<onset, duration, pitch>>), notes (after: [on, dur, pitch, voice,*)
(*       staff, next, prev, sym])]                                         *)
(***************************************************************************)
EXTENDS Durations, Sequences, Json, IOUtils, TLCExt, SequencesExt

Batch == TLCEval(JsonDeserialize(IOEnv.TRACE_FILE))
VARIABLE i

(* ---- symbolic durations ---- *)
SymValue(sym, div) == SymToNumeric(sym.type, sym.dots, sym.actual, sym.normal, div)
EstimateClauses(r) ==
   [converts_back |-> r.none = 1 \/ SymValue(r.sym, r.div) = <<r.dur, 1>>]

(* ---- adding measures ---- *)
SetOf(s) == {s[k] : k \in 1..Len(s)}
TsAt(r, t) == LET S == {e \in SetOf(r.ts) : e[1] <= t}
              IN IF S = {} THEN <<r.first, 4, 4>> ELSE CHOOSE e \in S : \A f \in S : f[1] <= e[1]
BarLen(r, t) == LET e == TsAt(r, t) IN R(e[2] * r.q * 4, e[3])
Covered(M, t) == \E m \in M : m[1] <= t /\ t < m[2]
NextCut(r, B, t) ==      \* first time after t where a bar starting at t must stop
   LET cuts == {e[1] : e \in {x \in SetOf(r.ts) : x[1] > t}} \cup {m[1] : m \in {x \in B : x[1] > t}} \cup {r.T}
   IN CHOOSE c \in cuts : \A d \in cuts : c <= d
MeasureClauses(r) ==
   LET B == SetOf(r.before)
       A == SetOf(r.after)
       New == {m \in A : \A b \in B : <<b[1], b[2]>> # <<m[1], m[2]>>}
       order(m) == Cardinality({n \in A : n[1] < m[1]}) + 1
   IN [existing_in_place   |-> \A b \in B : \E a \in A : a[1] = b[1] /\ a[2] = b[2],
       covers_everything   |-> \A t \in r.first..(r.T - 1) : Covered(A, t),
       no_overlap          |-> \A m, n \in A : m # n => (m[2] <= n[1] \/ n[2] <= m[1]),
       only_gaps_filled    |-> \A m \in New : \A t \in m[1]..(m[2] - 1) : ~Covered(B, t),
       bar_lengths         |-> \A m \in New :
                                  LET full == BarLen(r, m[1])
                                      cut == NextCut(r, B, m[1])
                                  IN \/ (IsInt(full) /\ m[2] = m[1] + Floor(full) /\ m[2] <= cut)
                                     \/ (m[2] = cut /\ RLess(RInt(cut - m[1]), full)),
       numbered_consecutively |-> \A m \in A : m[3] = order(m)]

(* ---- tying notes ---- *)
TieClauses(r) ==
   LET N == r.notes
       K == 1..Len(N)
       M == SetOf(r.measures)
   IN [sounding_unchanged   |-> ToSet(r.rows_before) = ToSet(r.rows_after) /\ Len(r.rows_before) = Len(r.rows_after),
       within_one_measure   |-> \A k \in K : N[k].dur > 0 =>
                                  \A m \in M : ~(N[k].on < m[1] /\ m[1] < N[k].on + N[k].dur),
       chains_contiguous    |-> \A k \in K : N[k].next # 0 =>
                                  (N[N[k].next].prev = k /\ N[N[k].next].on = N[k].on + N[k].dur),
       chains_same_pitch_voice_staff |-> \A k \in K : N[k].next # 0 =>
                                  (N[N[k].next].pitch = N[k].pitch /\ N[N[k].next].voice = N[k].voice /\ N[N[k].next].staff = N[k].staff),
       symbolic_matches_numeric |-> \A k \in K : (N[k].hassym = 1 /\ N[k].dur > 0) =>
                                  SymValue(N[k].sym, N[k].q) = <<N[k].dur, 1>>,
       no_exception         |-> r.err = ""]

Clauses(r) == CASE r.kind = "estimate" -> EstimateClauses(r)
                [] r.kind = "measures" -> MeasureClauses(r)
                [] r.kind = "ties" -> TieClauses(r)
Failing(r) == LET C == Clauses(r) IN {c \in DOMAIN C : ~C[c]}
Init == i \in 1..Len(Batch)
Next == UNCHANGED i
Spec == Init /\ [][Next]_i
Report == PrintT(<<"VERDICT", Batch[i].rid, IF Batch[i].err = "" THEN Failing(Batch[i]) ELSE {"no_exception"}>>)
=============================================================================
