---------------------------- MODULE AlignmentFiles ----------------------------
(***************************************************************************)
(* Growth beyond the listed properties: the plain alignment files          *)
(* (parangonada csv, ASAP tsv, Nakamura corresp).  An alignment is a sequence of entries -   *)
(* match(score id, performance id), deletion(score id), insertion          *)
(* (performance id) - as in MatchFile.tla.  Each format writes one row of  *)
(* fields per entry; reading a row gives an entry back.  The machine       *)
(* writes the alignment row by row and then reads the rows back one by     *)
(* one; what is read must be what was written, whatever the ids are        *)
(* (other than the words the formats reserve).                             *)
(***************************************************************************)
EXTENDS Integers, Sequences, FiniteSets

Reserved == {"undefined", "insertion", "deletion", "*"}

(* parangonada: idx, matchtype (0 match, 1 deletion, 2 insertion), partid, ppartid *)
PRow(k, e) == CASE e.label = "match" -> <<k - 1, 0, e.sid, e.pid>>
                [] e.label = "deletion" -> <<k - 1, 1, e.sid, "undefined">>
                [] e.label = "insertion" -> <<k - 1, 2, "undefined", e.pid>>
PEntry(r) == CASE r[2] = 0 -> [label |-> "match", sid |-> r[3], pid |-> r[4]]
               [] r[2] = 1 -> [label |-> "deletion", sid |-> r[3]]
               [] r[2] = 2 -> [label |-> "insertion", pid |-> r[4]]
(* ASAP: xml_id, midi_id (+ track, channel, pitch, onset of the performed note); "deletion" / "insertion" as marks *)
ARow(e) == CASE e.label = "match" -> <<e.sid, e.pid>>
             [] e.label = "deletion" -> <<e.sid, "deletion">>
             [] e.label = "insertion" -> <<"insertion", e.pid>>
AEntry(r) == IF r[1] = "insertion" THEN [label |-> "insertion", pid |-> r[2]]
             ELSE IF r[2] = "deletion" THEN [label |-> "deletion", sid |-> r[1]]
             ELSE [label |-> "match", sid |-> r[1], pid |-> r[2]]

(* Nakamura corresp (read only): performed-note id and score-note id, "*" where there is none *)
CRow(e) == CASE e.label = "match" -> <<e.pid, e.sid>>
             [] e.label = "deletion" -> <<"*", e.sid>>
             [] e.label = "insertion" -> <<e.pid, "*">>
CEntry(r) == IF r[1] = "*" THEN [label |-> "deletion", sid |-> r[2]]
             ELSE IF r[2] = "*" THEN [label |-> "insertion", pid |-> r[1]]
             ELSE [label |-> "match", sid |-> r[2], pid |-> r[1]]

VARIABLES al,      \* the alignment
          phase,   \* "write", "read", "done"
          k,       \* next entry / row
          prows, arows, crows,     \* rows written so far
          pback, aback, cback      \* entries read back so far
avars == <<al, phase, k, prows, arows, crows, pback, aback, cback>>

FilesInit(x) == al = x /\ phase = "write" /\ k = 1 /\ prows = <<>> /\ arows = <<>> /\ crows = <<>> /\ pback = <<>> /\ aback = <<>> /\ cback = <<>>
Write == /\ phase = "write" /\ k <= Len(al)
         /\ prows' = Append(prows, PRow(k, al[k])) /\ arows' = Append(arows, ARow(al[k])) /\ crows' = Append(crows, CRow(al[k]))
         /\ k' = k + 1 /\ UNCHANGED <<al, phase, pback, aback, cback>>
Close == phase = "write" /\ k > Len(al) /\ phase' = "read" /\ k' = 1 /\ UNCHANGED <<al, prows, arows, crows, pback, aback, cback>>
Read == /\ phase = "read" /\ k <= Len(prows)
        /\ pback' = Append(pback, PEntry(prows[k])) /\ aback' = Append(aback, AEntry(arows[k])) /\ cback' = Append(cback, CEntry(crows[k]))
        /\ k' = k + 1 /\ UNCHANGED <<al, phase, prows, arows, crows>>
Finish == phase = "read" /\ k > Len(prows) /\ phase' = "done" /\ UNCHANGED <<al, k, prows, arows, crows, pback, aback, cback>>
FilesNext == Write \/ Close \/ Read \/ Finish
Done == phase = "done"

(* Nakamura match (read only): one row per performed note (match or insertion, the score id "*" for an insertion);
   score notes that were not played are listed in comment lines ("//Missing") and come back as deletions after all rows *)
RECURSIVE Keep(_, _)
Keep(a, wantDeletion) == IF a = <<>> THEN <<>>
                         ELSE (IF (Head(a).label = "deletion") = wantDeletion THEN <<Head(a)>> ELSE <<>>) \o Keep(Tail(a), wantDeletion)
NBack(a) == Keep(a, FALSE) \o Keep(a, TRUE)
NakamuraOrder == Done => /\ Len(NBack(al)) = Len(al)
                         /\ \A j \in 1..Len(al) : \E m \in 1..Len(al) : NBack(al)[m] = al[j]

(* the parangonada directory holds the alignment twice: align.csv and zalign.csv (a second alignment to compare with,
   the first one again when none is given); each is written and read like the alignment above *)
ZAlignWritten(a, z, given) == IF given THEN z ELSE a

OneRowPerEntry == (phase # "write") => Len(prows) = Len(al) /\ Len(arows) = Len(al)
RowsNumbered == \A j \in 1..Len(prows) : prows[j][1] = j - 1
ReadBackIsPrefix == /\ pback = SubSeq(al, 1, Len(pback))
                    /\ aback = SubSeq(al, 1, Len(aback))
                    /\ cback = SubSeq(al, 1, Len(cback))
RoundTrip == Done => pback = al /\ aback = al /\ cback = al
=============================================================================
