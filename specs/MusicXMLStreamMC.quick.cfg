SPECIFICATION MSpec
CONSTANTS
  MaxEvents = 6
  MaxMeasures = 2
  Durs = {1, 2}
INVARIANT CursorInMeasure
INVARIANT CursorNotBeyondFurthest
INVARIANT MeasuresTile
INVARIANT NotesInsideTheirMeasure
INVARIANT OpenTiesPointAtStarts
INVARIANT ChainsAreContiguous
INVARIANT MeasureAsLongAsItsLongestVoice
INVARIANT NoRuleBroken
CHECK_DEADLOCK FALSE
