SPECIFICATION Spec
CONSTANT KeepStructure = TRUE
CONSTANT NParts = 2
CONSTANT Iters = {"a", "b"}
CONSTANT Fresh = {7, 8}
CONSTANT Depth = 6
INVARIANT StructureAgrees
INVARIANT LengthNeverChanges
INVARIANT OnePerPosition
INVARIANT YieldsAreParts
CHECK_DEADLOCK FALSE
