SPECIFICATION Spec
CONSTANT Source = "file"
CONSTRAINT Emit
INVARIANT InvMatched
INVARIANT InvTable
INVARIANT InvKnots
INVARIANT InvDecoded
CHECK_DEADLOCK FALSE
