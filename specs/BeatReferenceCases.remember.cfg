SPECIFICATION Spec
CONSTANT Remember = TRUE
CONSTANT Depth = 5

INVARIANT Exact
INVARIANT BeatsPositive
INVARIANT ResetGivesDefaults
INVARIANT NotatedIgnoresTables
INVARIANT SameSignatureSameBeats
CHECK_DEADLOCK FALSE
