SPECIFICATION Spec
CONSTANT MaxT = 5
CONSTANT MaxRests = 5
CONSTRAINT Report
INVARIANT TimePreserved
INVARIANT SurvivorsKeepPlace
INVARIANT SameSilence
INVARIANT NothingLeftToJoin
INVARIANT PrefixKeepsRowsApart
CHECK_DEADLOCK FALSE
