---------------------------- MODULE CollapseCases ----------------------------
(* Scenario source for Collapse.tla: every array of up to MaxRests rests in two voices on the grid 0..MaxT whose rests
   do not overlap within a voice, in onset order.  Settled states are printed and replayed into
   Part.rest_array(collapse=True) (harness/checks/g09.py). *)
EXTENDS Collapse, Json, IOUtils, TLC

CONSTANTS MaxT, MaxRests
Row(k, a, d, v) == [id |-> k, on |-> a, dur |-> d, voice |-> v]
Arrays == UNION {{f \in [1..n -> [on : 0..MaxT, dur : 1..2, voice : 1..2]] :
                    /\ \A k \in 2..n : f[k - 1].on <= f[k].on
                    /\ \A a, b \in 1..n : (a # b /\ f[a].voice = f[b].voice) => (f[a].on + f[a].dur <= f[b].on \/ f[b].on + f[b].dur <= f[a].on)}
                 : n \in 1..MaxRests}
Init == \E f \in Arrays : CollapseInit([k \in DOMAIN f |-> Row(k, f[k].on, f[k].dur, f[k].voice)])
Next == CollapseNext
Spec == Init /\ [][Next]_cvars
Report == IF Settled THEN PrintT(ToJson([given |-> sc, rows |-> rows])) ELSE TRUE
=============================================================================
