---------------------------- MODULE ObserverTrace ----------------------------
(***************************************************************************)
(* C20 (read-only observers, repeatability): validation of recorded call   *)
(* sequences.  The abstract state is the fingerprint of the argument's     *)
(* content and a memo of the results observed in that content.  An         *)
(* observer leaves the fingerprint unchanged and, called again in an       *)
(* unchanged state, gives the same result; only the operations documented  *)
(* as in-place may change the fingerprint (and then invalidate the memo).  *)
(***************************************************************************)
EXTENDS Integers, Sequences, FiniteSets, TLC, Json, IOUtils, TLCExt

Batch == TLCEval(JsonDeserialize(IOEnv.TRACE_FILE))
VARIABLES tid, l, fp, memo, fail
ovars == <<tid, l, fp, memo, fail>>
Tr(i) == Batch[i].events
Ev == Tr(tid)[l]
InPlaceOps == {"add_measures", "tie_notes", "find_tuplets", "fill_rests", "use_musical_beat", "use_notated_beat",
               "add_object", "remove_object", "merge_parts_inplace"}

(* A trace may start with results already observed (memo0: a sequence of [k, v]).  The harness uses this when it
   resumes a trace behind an event that only left Segment objects on the argument (the recorded finding: "nothing else
   changes"): what was observed before must still be observed afterwards, so a call that also rewrites the segments it
   finds - and thereby changes what later unfoldings return - is not hidden behind that finding. *)
Memo0(i) == LET m == Batch[i].memo0 IN
            [k \in {m[j].k : j \in 1..Len(m)} |-> m[CHOOSE j \in 1..Len(m) : m[j].k = k].v]
Init == tid \in 1..Len(Batch) /\ l = 1 /\ fp = Batch[tid].fp0 /\ memo = Memo0(tid) /\ fail = {}

Observe == /\ Ev.op \notin InPlaceOps
           /\ fp' = fp                                   \* the specification: observers do not change content
           /\ LET known == Ev.key \in DOMAIN memo IN
              /\ memo' = IF known THEN memo ELSE [k \in (DOMAIN memo) \cup {Ev.key} |-> IF k = Ev.key THEN Ev.result ELSE memo[k]]
              /\ fail' = (IF Ev.fp_before = fp THEN {} ELSE {"state_changed_between_calls"})
                           \cup (IF Ev.fp_after = Ev.fp_before THEN {} ELSE {"argument_modified"})
                           \cup (IF known /\ memo[Ev.key] # Ev.result THEN {"result_not_repeatable"} ELSE {})
              \* (whether a call may raise is the business of the property of that function, not of C20;
              \*  the error text is part of the result, so a call must at least fail repeatably)
InPlace == /\ Ev.op \in InPlaceOps
           /\ fp' = Ev.fp_after /\ memo' = <<>>
           /\ fail' = (IF Ev.fp_before = fp THEN {} ELSE {"state_changed_between_calls"})
Next == /\ l <= Len(Tr(tid)) /\ fail = {}
        /\ (Observe \/ InPlace)
        /\ l' = l + 1 /\ tid' = tid
Spec == Init /\ [][Next]_ovars
Report == /\ (fail # {} => PrintT(<<"FAIL", Batch[tid].tid, l - 1, fail>>))
          /\ ((fail = {} /\ l = Len(Tr(tid)) + 1) => PrintT(<<"ACCEPT", Batch[tid].tid>>))
=============================================================================
