SPECIFICATION MCSpec
CONSTANTS
  MaxLines = 3
  Recips = {2, 4}
  Dots = {0, 1}
INVARIANT KNoRuleBroken
INVARIANT KTiesContiguous
INVARIANT KBarsInOrder
INVARIANT ColumnsDescendFromSpines
INVARIANT NotesNotBeforeZero
INVARIANT OpenTiesPointAtNotes
CHECK_DEADLOCK FALSE
