----------------------------- MODULE Monotonize -----------------------------
(***************************************************************************)
(* Growth beyond the listed properties: monotonize_times                   *)
(* (partitura/utils/generic.py), the step the performance codec uses to    *)
(* turn the performed onsets of the score onsets into a time map that can  *)
(* be inverted.  The code is one running-maximum scan over s (a "record"   *)
(* is a position where the running maximum rises; the first position is    *)
(* one) followed by linear interpolation through the records at every x.   *)
(* Behind the last record the code as it is EXTRAPOLATES with the slope of *)
(* the last segment (the maximum that the docstring says is appended "to   *)
(* ensure monotonicity at the bounds" is masked out again); the constant   *)
(* Clamp selects that (FALSE) or the documented intent (TRUE: the maximum  *)
(* is held).  Exact rationals <<num, den>> (Rat.tla).                      *)
(***************************************************************************)
EXTENDS Rat, FiniteSets

CONSTANT Clamp

VARIABLES s,       \* the values: a sequence of integers
          x,       \* their positions: a strictly increasing sequence of integers of the same length
          i,       \* the next position the scan looks at (1..Len(s)+1)
          runmax,  \* the maximum of what the scan has seen (s[1] before it has seen anything)
          recs,    \* the positions where the running maximum rose, in order
          out      \* the result: <<>> while scanning, then a sequence of rationals
mvars == <<s, x, i, runmax, recs, out>>

N == Len(s)
MonoInit(s0, x0) == /\ s = s0 /\ x = x0 /\ i = 1 /\ runmax = s0[1] /\ recs = <<>> /\ out = <<>>

(* one step of the scan: np.maximum.accumulate and the mask "first, or the running maximum changed" *)
Scan == /\ i <= N
        /\ LET rises == i = 1 \/ s[i] > runmax
           IN /\ recs' = IF rises THEN Append(recs, i) ELSE recs
              /\ runmax' = IF rises THEN s[i] ELSE runmax
        /\ i' = i + 1
        /\ UNCHANGED <<s, x, out>>

(* the value of the piecewise linear function through the records at position k *)
Line(a, b, k) == \* through (x[a], s[a]) and (x[b], s[b]) at x[k]
   RAdd(RInt(s[a]), RMul(R(s[b] - s[a], x[b] - x[a]), RInt(x[k] - x[a])))
Seg(k) == \* the index j of the record segment recs[j]..recs[j+1] used for position k
   LET below == {j \in 1..(Len(recs) - 1) : recs[j] <= k}
   IN CHOOSE j \in below : \A h \in below : h <= j
Value(k) ==
   IF Len(recs) = 1 THEN RInt(s[recs[1]])
   ELSE IF Clamp /\ k > recs[Len(recs)] THEN RInt(s[recs[Len(recs)]])
   ELSE Line(recs[Seg(k)], recs[Seg(k) + 1], k)

Finish == /\ i = N + 1 /\ out = <<>>
          /\ out' = [k \in 1..N |-> Value(k)]
          /\ UNCHANGED <<s, x, i, runmax, recs>>

MonoNext == Scan \/ Finish
Done == out # <<>>

-----------------------------------------------------------------------------
RECURSIVE MaxUpTo(_)
MaxUpTo(k) == IF k = 1 THEN s[1] ELSE IF s[k] > MaxUpTo(k - 1) THEN s[k] ELSE MaxUpTo(k - 1)

(* the scan *)
RunMaxIsMax == i > 1 => runmax = MaxUpTo(i - 1)
RecordsRise == /\ (i > 1 => (Len(recs) >= 1 /\ recs[1] = 1))
               /\ \A j \in 1..(Len(recs) - 1) : recs[j] < recs[j + 1] /\ s[recs[j]] < s[recs[j + 1]]
RecordsAreTheRises == \A k \in 1..(i - 1) : (\E j \in 1..Len(recs) : recs[j] = k) <=> (k = 1 \/ s[k] > MaxUpTo(k - 1))

(* the result *)
Monotone == Done => \A k \in 1..(N - 1) : RLeq(out[k], out[k + 1])
RecordsKept == Done => \A j \in 1..Len(recs) : REq(out[recs[j]], RInt(s[recs[j]]))
(* between the first and the last record the result is strictly increasing: the map can be inverted there *)
InvertibleBetweenRecords == Done => \A k \in recs[1]..(recs[Len(recs)] - 1) : RLess(out[k], out[k + 1])
(* nothing is moved down: every value is at least the running maximum (hence at least the given value) *)
AtLeastRunningMax == Done => \A k \in 1..N : RLeq(RInt(MaxUpTo(k)), out[k])
(* a strictly increasing sequence is left as it is *)
IncreasingUnchanged == Done /\ (\A k \in 1..(N - 1) : s[k] < s[k + 1]) => \A k \in 1..N : REq(out[k], RInt(s[k]))
(* nothing above the largest given value - what "a subset of s, linearly interpolated" promises; refuted as is *)
WithinRange == Done => \A k \in 1..N : RLeq(out[k], RInt(MaxUpTo(N)))
=============================================================================
