SPECIFICATION Spec
CONSTANT MaxLen = 3
CONSTRAINT Report
INVARIANT OneRowPerEntry
INVARIANT RowsNumbered
INVARIANT ReadBackIsPrefix
INVARIANT RoundTrip
CHECK_DEADLOCK FALSE
