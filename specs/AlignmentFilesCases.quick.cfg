SPECIFICATION Spec
CONSTANT MaxLen = 3
CONSTRAINT Report
INVARIANT OneRowPerEntry
INVARIANT RowsNumbered
INVARIANT ReadBackIsPrefix
INVARIANT RoundTrip
INVARIANT NakamuraOrder
CHECK_DEADLOCK FALSE
