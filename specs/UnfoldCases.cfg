SPECIFICATION Spec
CONSTRAINT Emit
INVARIANT BarsInRange
INVARIANT JumpsJustified
INVARIANT NoStructureIsIdentity
CHECK_DEADLOCK FALSE
