--------------------------- MODULE PianoRollCases ---------------------------
EXTENDS PianoRoll, Json, IOUtils, TLCExt, SequencesExt
CONSTANT Source
VARIABLE c      \* the case: [notes, o, cid]
Opt(td, oo, sep, pm, tm, piano, rsil, et, bin, hv, hc) ==
   [td |-> td, onset_only |-> oo, sep |-> sep, pm |-> pm, tm |-> tm, piano |-> piano, rsil |-> rsil, et |-> et,
    binary |-> bin, hasvel |-> hv, hasch |-> hc]
SmallNotes == [p : {59, 60}, on : {0, 1, 3}, dur : {0, 1, 2, 3}, vel : {30, 90}, ch : {0}]
EnumCases == {[notes |-> <<a, b>>, o |-> Opt(td, oo, sep, -1, 0, 0, 1, -1, bin, hv, 0), cid |-> 0] :
                 a \in SmallNotes, b \in SmallNotes, td \in {1, 2}, oo \in {0, 1}, sep \in {0, 1}, bin \in {0, 1}, hv \in {0, 1}}
NShards == 16
Shard == IF "SHARD" \in DOMAIN IOEnv THEN CHOOSE k \in 0..(NShards - 1) : ToString(k) = IOEnv.SHARD ELSE -1
Small == IF "SMALL" \in DOMAIN IOEnv THEN 1 ELSE 0
KeyOf(x) == x.notes[1].on + 3 * x.notes[1].dur + 5 * x.notes[2].on + 7 * x.notes[2].dur + x.notes[1].p + x.notes[2].vel
FileCases == IF Source = "file" THEN TLCEval(JsonDeserialize(IOEnv.CASE_FILE)) ELSE <<>>
Init == c \in (IF Source = "enum"
               THEN {x \in EnumCases : (Shard = -1 \/ KeyOf(x) % NShards = Shard) /\ (Small = 0 \/ (x.notes[1].dur + 2 * x.notes[2].on + 3 * x.notes[2].dur + x.o.td + x.o.sep + x.o.binary) % 7 = 0)}
               ELSE {FileCases[i] : i \in 1..Len(FileCases)})
Next == UNCHANGED c
Spec == Init /\ [][Next]_c
K == Kept(c.notes, c.o)
Expect ==
   IF Len(K) = 0 THEN [raises |-> 1]
   ELSE IF EndTooEarly(K, c.o) THEN [raises |-> 1]
   ELSE [raises |-> 0, rows |-> NRows(K, c.o), cols |-> NCols(K, c.o), cells |-> Cells(K, c.o), idx |-> IndexRows(K, c.o),
         pc |-> {<<pc, col, FoldValue(Cells(K, c.o), pc, col)>> : pc \in 0..11, col \in {x[2] : x \in Cells(K, c.o)}}]
Emit == PrintT(ToJson([in |-> c, out |-> Expect]))
InvCovered == Len(K) = 0 \/ CellsExactlyCovered(K, c.o)
InvVisible == Len(K) = 0 \/ EveryNoteVisibleHasACell(K, c.o)
InvOneFrame == Len(K) = 0 \/ NeverLessThanOneFrame(K, c.o)
InvShape == Len(K) = 0 \/ WithinShape(K, c.o)
=============================================================================
