------------------------------ MODULE KernStream ------------------------------
(***************************************************************************)
(* What a Humdrum **kern document denotes (C19): an interpreter written    *)
(* from the representation's own rules.  A document is a sequence of       *)
(* lines; every line has one token per spine:                              *)
(*   data   a token is null (".") or a sequence of notes (a chord) with    *)
(*          reciprocal duration recip (4 = quarter, 12 = triplet eighth),  *)
(*          dots, rest or pitch (step, alter, octave), a tie mark          *)
(*          ("[" opens, "_" continues, "]" closes) and the grace flag;     *)
(*   bar    a barline with its number in every spine;                      *)
(*   interp a tandem interpretation per spine: clef, meter, key, staff;     *)
(*   path   spine-path indicators: "split" (star-caret) turns a spine into  *)
(*          two sub-spines, adjacent "join" tokens (star-v) merge into one. *)
(* All spines share one clock.  A data line sounds at the moment the       *)
(* spines holding a token on it become free; a token keeps its spine busy  *)
(* for 4/recip * (2 - 2^-dots) quarters (nothing for a grace note); a null *)
(* token means the spine is still busy.  A barline or interpretation takes *)
(* effect when every spine is free.  Ties join a note to the next note of  *)
(* the same pitch in the same spine.  One action per line kind.            *)
(***************************************************************************)
EXTENDS Rat, Sequences, FiniteSets, TLC

VARIABLES free,      \* per column: the time it becomes free (quarters)
          kcol,      \* per column: <<top-level spine it descends from, number of the sub-spine>>
          knotes,    \* placed notes
          kopen,     \* per spine: open ties <<pitch, note index>>
          kbars,     \* barlines [at, number]
          kattrs,    \* interpretations [spine, kind, at, a, b, c]
          kbad       \* names of violated rules
kvars == <<free, kcol, knotes, kopen, kbars, kattrs, kbad>>

KZero == <<0, 1>>
RMinSet(S) == CHOOSE x \in S : \A y \in S : RLeq(x, y)
RMaxSet(S) == CHOOSE x \in S : \A y \in S : RLeq(y, x)
RECURSIVE Pow2N(_)
Pow2N(k) == IF k = 0 THEN 1 ELSE 2 * Pow2N(k - 1)
(* duration of a value with reciprocal r and d dots, in quarters: 4/r * (2 - 1/2^d) *)
KDur(r, d) == RMul(R(4, r), R(2 * Pow2N(d) - 1, Pow2N(d)))
KInit(nspines) == /\ free = [i \in 1..nspines |-> KZero] /\ kcol = [i \in 1..nspines |-> <<i, 1>>] /\ knotes = <<>> /\ kopen = [i \in 1..nspines |-> <<>>]
                  /\ kbars = <<>> /\ kattrs = <<>> /\ kbad = {}
NSp == Len(free)
AllFreeAt == RMaxSet({free[i] : i \in 1..NSp})
Aligned == \A i, j \in 1..NSp : free[i] = free[j]

OpenAt(sp, k) == IF \E i \in 1..Len(kopen[sp]) : kopen[sp][i][1] = k THEN (CHOOSE i \in 1..Len(kopen[sp]) : kopen[sp][i][1] = k) ELSE 0
Drop(s, i) == [j \in 1..(Len(s) - 1) |-> IF j < i THEN s[j] ELSE s[j + 1]]

(* the notes of one token, placed one after the other (F accumulates <<knotes, open ties of the spine, bad>>) *)
PlaceToken(sp, tok, T, acc0) ==
   LET F[k \in 0..Len(tok.notes)] ==
          IF k = 0 THEN acc0
          ELSE LET acc == F[k - 1]
                   x == tok.notes[k]
                   key == <<x.step, x.alter, x.octave>>
                   opn == acc[2]
                   oi == IF \E i \in 1..Len(opn) : opn[i][1] = key THEN (CHOOSE i \in 1..Len(opn) : opn[i][1] = key) ELSE 0
                   closes == x.tie \in {"]", "_"}
                   opens == x.tie \in {"[", "_"}
                   prev == IF closes /\ oi # 0 THEN opn[oi][2] ELSE 0
                   opn1 == IF closes /\ oi # 0 THEN Drop(opn, oi) ELSE opn
                   n == [spine |-> kcol[sp][1], sub |-> kcol[sp][2], on |-> T, dur |-> IF x.grace = 1 THEN KZero ELSE KDur(x.recip, x.dots), rest |-> x.rest,
                         step |-> x.step, alter |-> x.alter, octave |-> x.octave, grace |-> x.grace, prev |-> prev]
               IN <<Append(acc[1], n),
                    IF opens /\ x.rest = 0 THEN Append(opn1, <<key, Len(acc[1]) + 1>>) ELSE opn1,
                    acc[3] \cup (IF closes /\ oi = 0 THEN {"tie_end_without_start"} ELSE {})
                           \cup (IF x.recip < 1 THEN {"reciprocal_not_positive"} ELSE {})>>
   IN F[Len(tok.notes)]
TokDur(tok) == IF tok.notes[1].grace = 1 THEN KZero ELSE KDur(tok.notes[1].recip, tok.notes[1].dots)

ReadData(line) ==
   LET holders == {i \in 1..NSp : line.toks[i].null = 0}
       T == RMinSet({free[i] : i \in holders})
       G[i \in 0..NSp] == IF i = 0 THEN <<knotes, kopen, kbad>>
                          ELSE IF i \in holders
                               THEN LET r == PlaceToken(i, line.toks[i], T, <<G[i - 1][1], G[i - 1][2][i], G[i - 1][3]>>)
                                    IN <<r[1], [G[i - 1][2] EXCEPT ![i] = r[2]], r[3]>>
                               ELSE G[i - 1]
   IN /\ holders # {}
      /\ knotes' = G[NSp][1]
      /\ kopen' = G[NSp][2]
      /\ free' = [i \in 1..NSp |-> IF i \in holders THEN RAdd(T, TokDur(line.toks[i])) ELSE free[i]]
      /\ kbad' = G[NSp][3]
                   \cup (IF \E i \in holders : free[i] # T THEN {"token_while_spine_busy"} ELSE {})
                   \* (a line of grace notes takes no time: the other spines hold null tokens whatever their state)
                   \cup (IF (\E h \in holders : TokDur(line.toks[h]) # KZero) /\ (\E i \in (1..NSp) \ holders : RLeq(free[i], T))
                         THEN {"null_token_while_spine_free"} ELSE {})
                   \cup (IF \E i \in holders : \E k \in 2..Len(line.toks[i].notes) :
                              KDur(line.toks[i].notes[k].recip, line.toks[i].notes[k].dots) # KDur(line.toks[i].notes[1].recip, line.toks[i].notes[1].dots)
                         THEN {"chord_of_unequal_durations"} ELSE {})
      /\ UNCHANGED <<kbars, kattrs, kcol>>
ReadBar(line) ==
   /\ kbars' = Append(kbars, [at |-> AllFreeAt, number |-> line.number])
   /\ kbad' = kbad \cup (IF Aligned THEN {} ELSE {"barline_while_a_spine_is_busy"})
   /\ UNCHANGED <<free, kcol, knotes, kopen, kattrs>>
ReadInterp(line) ==
   /\ kattrs' = kattrs \o SelectSeq([i \in 1..NSp |-> [spine |-> kcol[i][1], kind |-> line.toks[i].kind, at |-> AllFreeAt,
                                                         a |-> line.toks[i].a, b |-> line.toks[i].b, c |-> line.toks[i].c]],
                                     LAMBDA x : x.kind # "null")
   /\ UNCHANGED <<free, kcol, knotes, kopen, kbars, kbad>>
(* spine paths: the columns after the line, as <<first old column, last old column>> (a split column appears twice,
   a run of joins once); a new sub-spine gets the lowest number its top-level spine is not using *)
NewCols(line) ==
   LET F[i \in 0..NSp] ==
          IF i = 0 THEN <<>>
          ELSE IF line.toks[i].kind = "split" THEN F[i - 1] \o << <<i, i, 0>>, <<i, i, 1>> >>
          ELSE IF line.toks[i].kind = "join" /\ i > 1 /\ line.toks[i - 1].kind = "join"
               THEN [F[i - 1] EXCEPT ![Len(F[i - 1])] = <<F[i - 1][Len(F[i - 1])][1], i, 0>>]
          ELSE Append(F[i - 1], <<i, i, 0>>)
   IN F[NSp]
FreshSub(top) == LET used == {kcol[i][2] : i \in {j \in 1..NSp : kcol[j][1] = top}} IN CHOOSE k \in 1..(NSp + 1) : k \notin used /\ \A m \in 1..(k - 1) : m \in used
ReadPath(line) ==
   LET nc == NewCols(line) IN
   /\ free' = [c \in 1..Len(nc) |-> free[nc[c][1]]]
   /\ kcol' = [c \in 1..Len(nc) |-> IF nc[c][3] = 1 THEN <<kcol[nc[c][1]][1], FreshSub(kcol[nc[c][1]][1])>> ELSE kcol[nc[c][1]]]
   /\ kopen' = [c \in 1..Len(nc) |-> IF nc[c][3] = 1 THEN <<>>
                                      ELSE IF nc[c][2] > nc[c][1] THEN kopen[nc[c][1]] \o kopen[nc[c][2]] ELSE kopen[nc[c][1]]]
   /\ kbad' = kbad \cup (IF \E c \in 1..Len(nc) : nc[c][2] > nc[c][1] /\ (\E i \in nc[c][1]..nc[c][2] : free[i] # free[nc[c][1]] \/ kcol[i][1] # kcol[nc[c][1]][1])
                         THEN {"join_of_spines_that_are_not_aligned"} ELSE {})
                   \cup (IF Aligned THEN {} ELSE {"spine_path_while_a_spine_is_busy"})
   /\ UNCHANGED <<knotes, kbars, kattrs>>

(* ---- what the document denotes ---- *)
KNext(i) == IF \E j \in 1..Len(knotes) : knotes[j].prev = i THEN (CHOOSE j \in 1..Len(knotes) : knotes[j].prev = i) ELSE 0
RECURSIVE KChain(_)
KChain(i) == IF KNext(i) = 0 THEN knotes[i].dur ELSE RAdd(knotes[i].dur, KChain(KNext(i)))
KSounding == {[spine |-> knotes[i].spine, sub |-> knotes[i].sub, on |-> knotes[i].on, dur |-> KChain(i), step |-> knotes[i].step, alter |-> knotes[i].alter,
               octave |-> knotes[i].octave, grace |-> knotes[i].grace] : i \in {j \in 1..Len(knotes) : knotes[j].rest = 0 /\ knotes[j].prev = 0}}
KRests == {[spine |-> knotes[i].spine, sub |-> knotes[i].sub, on |-> knotes[i].on, dur |-> knotes[i].dur] : i \in {j \in 1..Len(knotes) : knotes[j].rest = 1}}
(* the smallest number of divisions per quarter that represents every duration and position exactly *)
KDens == {knotes[i].dur[2] : i \in 1..Len(knotes)} \cup {knotes[i].on[2] : i \in 1..Len(knotes)}
(* ---- rules ---- *)
KNoRuleBroken == kbad = {}
KTiesContiguous == \A i \in 1..Len(knotes) : knotes[i].prev # 0 => REq(RAdd(knotes[knotes[i].prev].on, knotes[knotes[i].prev].dur), knotes[i].on)
KBarsInOrder == \A i \in 1..(Len(kbars) - 1) : RLeq(kbars[i].at, kbars[i + 1].at)
=============================================================================
