SPECIFICATION Spec
CONSTANTS
  ObjPool = {"o1", "o2", "o3", "o4"}
  ClassOf <- MC_ClassOf
  Sub <- MC_Sub
  MaxT = 5
  Quarters = {1, 2, 3}
  MaxReq = 2
CONSTRAINT Bounded
ACTION_CONSTRAINT EmitEdge
