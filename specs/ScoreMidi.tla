------------------------------ MODULE ScoreMidi ------------------------------
(***************************************************************************)
(* C04: what a score must be written as in MIDI, on top of NoteArray       *)
(* (sounding notes, exact quarter map) and MidiStream (what the written    *)
(* file denotes).  A case: parts (cfg, notes, group, tempos), mode 0..5,   *)
(* policy ("shift" / "pad_bar" / "time_sig_change"), minppq, velocity, and *)
(* the written file (ppq_written, tracks).                                 *)
(***************************************************************************)
EXTENDS NoteArray, MidiStream

AllDivs(parts) == UNION {{e[2] : e \in parts[i].cfg.qtab} : i \in 1..Len(parts)}
RECURSIVE LcmSet(_)
LcmSet(S) == IF S = {} THEN 1 ELSE LET x == CHOOSE y \in S : TRUE IN Lcm(x, LcmSet(S \ {x}))
RECURSIVE DoubleUntil(_, _)
DoubleUntil(p, m) == IF p >= m THEN p ELSE DoubleUntil(2 * p, m)
Ppq(parts, minppq) == DoubleUntil(LcmSet(AllDivs(parts)), minppq)
\* Derived data of a case, computed once: quarter maps per part, interpreted tracks, ppq, first time point
Derive(c) ==
   LET qs == [i \in 1..Len(c.parts) |-> MapSeq(c.parts[i].cfg, "quarter")]
       firsts == {qs[i][1] : i \in 1..Len(c.parts)}
       firstq == CHOOSE x \in firsts : \A y \in firsts : RLeq(x, y)
       firstp == CHOOSE i \in 1..Len(c.parts) : qs[i][1] = firstq
       ftp == IF ~RLess(firstq, <<0, 1>>) THEN <<0, 1>>
              ELSE IF c.policy = "pad_bar"
                   THEN LET e == TimeSigAt(c.parts[firstp].cfg, 0) IN R(-(4 * e[2]), e[3])
                   ELSE firstq
   IN [qs |-> qs, ftp |-> ftp, ppq |-> Ppq(c.parts, c.minppq),
       tr |-> [t \in 1..Len(c.tracks) |-> Track(c.tracks, t)]]
TickR(d, i, t) == RMul(RInt(d.ppq), RSub(d.qs[i][t + 1], d.ftp))
\* (track, channel) keys per mode: what must coincide / differ, not the numbers themselves
GroupOf(parts, i) == IF parts[i].group = 0 THEN <<"part", i>> ELSE <<"group", parts[i].group>>
TrackKey(parts, mode, i, v) ==
   CASE mode = 0 -> <<"p", i>> [] mode = 1 -> GroupOf(parts, i) [] mode = 2 -> <<"all">> [] mode = 3 -> <<"p", i>>
     [] mode = 4 -> <<"all">> [] mode = 5 -> <<"pv", i, v>>
ChanKey(parts, mode, i, v) ==
   CASE mode = 0 -> <<"v", v>> [] mode = 1 -> <<"p", i>> [] mode = 2 -> <<"p", i>> [] OTHER -> <<"one">>
\* grouping after reading the file back with the same mode (part key, voice key)
ImportPart(parts, mode, i, v) ==
   CASE mode = 0 -> TrackKey(parts, 0, i, v) [] mode = 1 -> <<GroupOf(parts, i), i>> [] mode = 2 -> <<"all">>
     [] mode = 3 -> <<"p", i>> [] mode = 4 -> <<"all">> [] mode = 5 -> <<"pv", i, v>>
ImportVoice(parts, mode, i, v) == CASE mode = 0 -> <<"v", v>> [] OTHER -> <<"one">>
\* the sounding notes with their expected ticks
Sounding(c, d) ==
   UNION {{ LET n == c.parts[i].notes[k]
                dur == DurTied(c.parts[i].notes, k)
            IN [pitch |-> Midi(n.step, n.alter, n.octave),
                on |-> TickR(d, i, n.on), off |-> TickR(d, i, n.on + dur),
                tkey |-> TrackKey(c.parts, c.mode, i, n.voice), ckey |-> ChanKey(c.parts, c.mode, i, n.voice),
                ipart |-> ImportPart(c.parts, c.mode, i, n.voice), ivoice |-> ImportVoice(c.parts, c.mode, i, n.voice), id |-> n.id]
           : k \in Heads(c.parts[i].notes, 0)} : i \in 1..Len(c.parts)}
Image(w, n) == w.pitch = n.pitch /\ IsInt(n.on) /\ IsInt(n.off) /\ w.on = Floor(n.on) /\ w.off = Floor(n.off)
\* S: Sounding(c, d);  W: the written notes;  every sounding note has its own pitch, so images are found by pitch
Clauses(c, d, S, W) ==
   LET img(n) == {w \in W : w.pitch = n.pitch}
   IN [ppq_is_lcm          |-> c.ppq_written = d.ppq,
       ticks_integral      |-> \A n \in S : IsInt(n.on) /\ IsInt(n.off),
       every_note_written  |-> \A n \in S : Cardinality(img(n)) = 1 /\ \A w \in img(n) : Image(w, n),
       nothing_else_written |-> \A w \in W : \E n \in S : n.pitch = w.pitch,
       velocity_used       |-> \A w \in W : w.vel = c.velocity,
       no_hanging_notes    |-> \A t \in 1..Len(c.tracks) : d.tr[t].snd = {},
       track_mapping       |-> \A n1, n2 \in S : \A w1 \in img(n1), w2 \in img(n2) : (n1.tkey = n2.tkey) <=> (w1.track = w2.track),
       channel_mapping     |-> \A n1, n2 \in S : \A w1 \in img(n1), w2 \in img(n2) :
                                  n1.tkey = n2.tkey => ((n1.ckey = n2.ckey) <=> (w1.ch = w2.ch))]
\* expected positions of meta events (ticks), per kind
MetaTicks(d, i, E) == {<<Floor(TickR(d, i, e[1])), e>> : e \in E}
=============================================================================
