SPECIFICATION Spec
CONSTANTS
  ObjPool = {"o1", "o2"}
  ClassOf <- MC_ClassOf
  Sub <- MC_Sub
  MaxT = 2
  Quarters = {1, 2}
  MaxReq = 1
CONSTRAINT Bounded
VIEW View
INVARIANT TypeOK
INVARIANT NonNegative
INVARIANT BackRefs
INVARIANT StartBeforeEnd
INVARIANT LinksConsistent
INVARIANT QueriesExact
INVARIANT NeighbourQueriesPartition
PROPERTY RemoveCleansUp
PROPERTY NoOrphans
PROPERTY PointsOnlyAppearOnRequest
PROPERTY SetQuarterLocal
PROPERTY QuarterTableOnlyBySetQuarter
PROPERTY RefinesLocal
