SPECIFICATION Spec
CONSTANT Remember = FALSE
CONSTANT Depth = 3

INVARIANT Exact
INVARIANT BeatsPositive
INVARIANT ResetGivesDefaults
INVARIANT NotatedIgnoresTables
INVARIANT SameSignatureSameBeats
CHECK_DEADLOCK FALSE
