------------------------------- MODULE MeiLayer -------------------------------
(***************************************************************************)
(* What the <music> of an MEI document denotes (C19): an interpreter       *)
(* written from the encoding's own rules.  The document is the sequence of *)
(* its elements in document order:                                         *)
(*   staffdef(n, clef, key, meter)   meter(count, unit)  (a new scoreDef)  *)
(*   measure(n, left, right) staff(n) layer(n) ... endlayer ... endmeasure *)
(*   ending_start(n) ... ending_end          (a bracket around measures)   *)
(*   note / chord / rest / space (dur, dots), mrest, tuplet_start(num,     *)
(*   numbase) ... tuplet_end, tie(startid, endid); notes carry pname,      *)
(*   accid, oct, the grace flag and a @tie attribute (i, m, t).            *)
(* Every layer starts at the start of its measure; an event lasts          *)
(*   4/dur * (2 - 2^-dots) * numbase/num quarters (nothing for a grace     *)
(* note, a whole bar of the meter in force for mRest); the notes of a      *)
(* chord sound together; a measure ends where its longest layer ends.      *)
(* Ties (elements or attributes) join a note to a later note of the same   *)
(* pitch.  A left barline "rptstart" opens a repeat where the measure       *)
(* starts, a right barline "rptend" closes it where the measure ends; an   *)
(* ending spans the measures it contains.  One action per element kind.    *)
(***************************************************************************)
EXTENDS Rat, Sequences, FiniteSets, TLC

VARIABLES mpos,      \* cursor of the current layer (quarters)
          mbar,      \* start of the current measure
          mfar,      \* furthest point reached in the current measure
          mtup,      \* tuplet ratio in force <<num, numbase>> or <<1, 1>>
          mstaff, mlayer,
          meter,     \* <<count, unit>> in force
          mnotes,    \* placed notes and rests
          mties,     \* pairs <<from id, to id>>
          mopen,     \* open @tie attributes: <<staff, pitch, note id>>
          mmeasures, \* [n, start, end]
          mdefs,     \* staff definitions and meter changes with their position
          mrep,      \* repeats [from, to]; to = <<-1, 1>> while open
          mend,      \* endings [n, from, to]
          mright,    \* right barline of the measure being read
          mbad
mvars == <<mpos, mbar, mfar, mtup, mstaff, mlayer, meter, mnotes, mties, mopen, mmeasures, mdefs, mrep, mend, mright, mbad>>

MZero == <<0, 1>>
RECURSIVE P2(_)
P2(k) == IF k = 0 THEN 1 ELSE 2 * P2(k - 1)
MDur(dur, dots) == RMul(RMul(R(4, dur), R(2 * P2(dots) - 1, P2(dots))), R(mtup[2], mtup[1]))
MMax(a, b) == IF RLess(a, b) THEN b ELSE a
MInit == /\ mpos = MZero /\ mbar = MZero /\ mfar = MZero /\ mtup = <<1, 1>> /\ mstaff = 0 /\ mlayer = 0 /\ meter = <<4, 4>>
         /\ mnotes = <<>> /\ mties = <<>> /\ mopen = <<>> /\ mmeasures = <<>> /\ mdefs = <<>> /\ mrep = <<>> /\ mend = <<>> /\ mright = "" /\ mbad = {}

StaffDef(e) == /\ mdefs' = Append(mdefs, [kind |-> "staffdef", n |-> e.n, at |-> mfar, shape |-> e.s, line |-> e.a, sig |-> e.b, count |-> e.c, unit |-> e.d])
               /\ meter' = <<e.c, e.d>>
               /\ UNCHANGED <<mpos, mbar, mfar, mtup, mstaff, mlayer, mnotes, mties, mopen, mmeasures, mbad, mrep, mend, mright>>
Meter(e) == /\ mdefs' = Append(mdefs, [kind |-> "meter", n |-> 0, at |-> mfar, shape |-> "", line |-> 0, sig |-> 0, count |-> e.c, unit |-> e.d])
            /\ meter' = <<e.c, e.d>>
            /\ UNCHANGED <<mpos, mbar, mfar, mtup, mstaff, mlayer, mnotes, mties, mopen, mmeasures, mbad, mrep, mend, mright>>
Open == <<-1, 1>>
OpenRep == IF \E i \in 1..Len(mrep) : mrep[i].to = Open THEN (CHOOSE i \in 1..Len(mrep) : mrep[i].to = Open) ELSE 0
Measure(e) == /\ mbar' = mfar /\ mpos' = mfar
              /\ mmeasures' = Append(mmeasures, [n |-> e.s, start |-> mfar, end |-> mfar])
              /\ mright' = e.id2
              /\ mrep' = IF e.id = "rptstart" THEN Append(mrep, [from |-> mfar, to |-> Open]) ELSE mrep
              /\ mbad' = mbad \cup (IF e.id = "rptstart" /\ OpenRep # 0 THEN {"repeat_start_inside_a_repeat"} ELSE {})
              /\ UNCHANGED <<mfar, mtup, mstaff, mlayer, meter, mnotes, mties, mopen, mdefs, mend>>
EndMeasureM == /\ mmeasures' = [mmeasures EXCEPT ![Len(mmeasures)].end = mfar]
               /\ mrep' = IF mright = "rptend"
                          THEN (IF OpenRep # 0 THEN [mrep EXCEPT ![OpenRep].to = mfar] ELSE Append(mrep, [from |-> MZero, to |-> mfar]))
                          ELSE mrep
               /\ UNCHANGED <<mpos, mbar, mfar, mtup, mstaff, mlayer, meter, mnotes, mties, mopen, mdefs, mend, mright, mbad>>
EndingStart(e) == /\ mend' = Append(mend, [n |-> e.n, from |-> mfar, to |-> Open])
                  /\ UNCHANGED <<mpos, mbar, mfar, mtup, mstaff, mlayer, meter, mnotes, mties, mopen, mmeasures, mdefs, mrep, mright, mbad>>
EndingEnd == /\ mend' = [mend EXCEPT ![Len(mend)].to = mfar]
             /\ UNCHANGED <<mpos, mbar, mfar, mtup, mstaff, mlayer, meter, mnotes, mties, mopen, mmeasures, mdefs, mrep, mright, mbad>>
Staff(e) == mstaff' = e.n /\ UNCHANGED <<mpos, mbar, mfar, mtup, mlayer, meter, mnotes, mties, mopen, mmeasures, mdefs, mbad, mrep, mend, mright>>
Layer(e) == /\ mlayer' = e.n /\ mpos' = mbar /\ mtup' = <<1, 1>>
            /\ UNCHANGED <<mbar, mfar, mstaff, meter, mnotes, mties, mopen, mmeasures, mdefs, mbad, mrep, mend, mright>>
EndLayer == /\ mbad' = mbad \cup (IF mtup # <<1, 1>> THEN {"tuplet_not_closed"} ELSE {})
            /\ UNCHANGED <<mpos, mbar, mfar, mtup, mstaff, mlayer, meter, mnotes, mties, mopen, mmeasures, mdefs, mrep, mend, mright>>
TupletStart(e) == mtup' = <<e.a, e.b>> /\ UNCHANGED <<mpos, mbar, mfar, mstaff, mlayer, meter, mnotes, mties, mopen, mmeasures, mdefs, mbad, mrep, mend, mright>>
TupletEnd == mtup' = <<1, 1>> /\ UNCHANGED <<mpos, mbar, mfar, mstaff, mlayer, meter, mnotes, mties, mopen, mmeasures, mdefs, mbad, mrep, mend, mright>>
Advance(d) == /\ mpos' = RAdd(mpos, d) /\ mfar' = MMax(mfar, RAdd(mpos, d))
(* notes of a note / chord element; @tie attributes are resolved against the open ones of the same staff and pitch *)
Sound(e) ==
   LET grace == e.notes[1].grace = 1
       d == IF grace THEN MZero ELSE MDur(e.a, e.b)
       F[k \in 0..Len(e.notes)] ==
          IF k = 0 THEN <<mnotes, mties, mopen, mbad>>
          ELSE LET acc == F[k - 1]
                   x == e.notes[k]
                   key == <<mstaff, x.pname, x.accid, x.oct>>
                   opn == acc[3]
                   oi == IF \E i \in 1..Len(opn) : opn[i][1] = key THEN (CHOOSE i \in 1..Len(opn) : opn[i][1] = key) ELSE 0
                   closes == x.tie \in {"m", "t"}
                   opens == x.tie \in {"i", "m"}
                   opn1 == IF closes /\ oi # 0 THEN [j \in 1..(Len(opn) - 1) |-> IF j < oi THEN opn[j] ELSE opn[j + 1]] ELSE opn
               IN <<Append(acc[1], [id |-> x.id, staff |-> mstaff, layer |-> mlayer, on |-> mpos, dur |-> d, rest |-> 0,
                                    step |-> x.pname, alter |-> x.accid, octave |-> x.oct, grace |-> x.grace]),
                    IF closes /\ oi # 0 THEN Append(acc[2], <<opn[oi][2], x.id>>) ELSE acc[2],
                    IF opens THEN Append(opn1, <<key, x.id>>) ELSE opn1,
                    acc[4] \cup (IF closes /\ oi = 0 THEN {"tie_end_without_start"} ELSE {})>>
       r == F[Len(e.notes)]
   IN /\ mnotes' = r[1] /\ mties' = r[2] /\ mopen' = r[3] /\ mbad' = r[4]
      /\ Advance(d)
      /\ UNCHANGED <<mbar, mtup, mstaff, mlayer, meter, mmeasures, mdefs, mrep, mend, mright>>
Silent(e, isRest) ==
   LET d == MDur(e.a, e.b) IN
   /\ mnotes' = IF isRest THEN Append(mnotes, [id |-> e.id, staff |-> mstaff, layer |-> mlayer, on |-> mpos, dur |-> d, rest |-> 1,
                                               step |-> "C", alter |-> 0, octave |-> 0, grace |-> 0]) ELSE mnotes
   /\ Advance(d)
   /\ UNCHANGED <<mbar, mtup, mstaff, mlayer, meter, mties, mopen, mmeasures, mdefs, mbad, mrep, mend, mright>>
MRest(e) ==
   LET d == R(4 * meter[1], meter[2]) IN
   /\ mnotes' = Append(mnotes, [id |-> e.id, staff |-> mstaff, layer |-> mlayer, on |-> mpos, dur |-> d, rest |-> 1,
                                step |-> "C", alter |-> 0, octave |-> 0, grace |-> 0])
   /\ Advance(d)
   /\ UNCHANGED <<mbar, mtup, mstaff, mlayer, meter, mties, mopen, mmeasures, mdefs, mbad, mrep, mend, mright>>
TieEl(e) == /\ mties' = Append(mties, <<e.id, e.id2>>)
            /\ UNCHANGED <<mpos, mbar, mfar, mtup, mstaff, mlayer, meter, mnotes, mopen, mmeasures, mdefs, mbad, mrep, mend, mright>>

(* ---- denotation ---- *)
Idx(id) == CHOOSE i \in 1..Len(mnotes) : mnotes[i].id = id
HasPrev(id) == \E k \in 1..Len(mties) : mties[k][2] = id
NextId(id) == IF \E k \in 1..Len(mties) : mties[k][1] = id THEN mties[CHOOSE k \in 1..Len(mties) : mties[k][1] = id][2] ELSE ""
RECURSIVE MChain(_)
MChain(id) == IF NextId(id) = "" THEN mnotes[Idx(id)].dur ELSE RAdd(mnotes[Idx(id)].dur, MChain(NextId(id)))
MSounding == {[id |-> mnotes[i].id, staff |-> mnotes[i].staff, layer |-> mnotes[i].layer, on |-> mnotes[i].on, dur |-> MChain(mnotes[i].id),
               step |-> mnotes[i].step, alter |-> mnotes[i].alter, octave |-> mnotes[i].octave, grace |-> mnotes[i].grace]
              : i \in {j \in 1..Len(mnotes) : mnotes[j].rest = 0 /\ ~HasPrev(mnotes[j].id)}}
MRests == {[staff |-> mnotes[i].staff, layer |-> mnotes[i].layer, on |-> mnotes[i].on, dur |-> mnotes[i].dur] : i \in {j \in 1..Len(mnotes) : mnotes[j].rest = 1}}
MDens == {mnotes[i].dur[2] : i \in 1..Len(mnotes)} \cup {mnotes[i].on[2] : i \in 1..Len(mnotes)}
(* ---- rules ---- *)
MTiesJoinEqualPitches == \A k \in 1..Len(mties) :
   LET a == mnotes[Idx(mties[k][1])]  b == mnotes[Idx(mties[k][2])] IN
   a.step = b.step /\ a.alter = b.alter /\ a.octave = b.octave /\ REq(RAdd(a.on, a.dur), b.on)
MCursorInMeasure == RLeq(mbar, mpos) /\ RLeq(mpos, mfar)
MMeasuresTile == \A i \in 1..(Len(mmeasures) - 1) : mmeasures[i].end = mmeasures[i + 1].start
=============================================================================
