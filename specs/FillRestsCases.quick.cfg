SPECIFICATION Spec
CONSTANT Lens = {4, 5, 6}
CONSTANT MaxNotes = 3
CONSTRAINT Report
INVARIANT Tiles
INVARIANT GapsDisjointAndProper
INVARIANT GapsMaximal
INVARIANT GapsBehindSweep
INVARIANT CompleteVoiceNeedsNothing
CHECK_DEADLOCK FALSE
