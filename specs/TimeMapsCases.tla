--------------------------- MODULE TimeMapsCases ---------------------------
(* Configurations for C02 / C10 / C05 and the values of every map, computed by TLC.
   Source "enum": TLC enumerates a bounded configuration space exhaustively.
   Source "file": configurations recorded by the harness (larger, seeded random) are read from
   IOEnv.CASE_FILE and TLC serves as the oracle for them. *)
EXTENDS TimeMaps, Json, IOUtils, TLCExt, SequencesExt

CONSTANT Source      \* "c02", "c10" or "file"
VARIABLES p, m      \* configuration and its maps (computed once per state)

TSsmall == {<<2, 4, 2>>, <<3, 4, 3>>, <<6, 8, 2>>, <<4, 4, 4>>, <<2, 2, 2>>}   \* beats, beat_type, default musical beats
Mk(T, qt, ts, ks, cl, ms, mus, ns) ==
   [T |-> T, qtab |-> qt, ts |-> ts, ks |-> ks, clefs |-> cl, measures |-> ms, musical |-> mus, nstaves |-> ns]

\* ---- C02: division changes x signature changes x first-measure lengths x beat mode (T = 8)
QTabs8 == {{<<0, q0>>} : q0 \in {1, 2, 3}}
           \cup {{<<0, q0>>, <<t, q1>>} : q0 \in {1, 2, 3}, t \in {2, 3, 4, 6}, q1 \in {1, 2, 3, 4}}
TSs8 == {{}} \cup {{<<0, a[1], a[2], a[3]>>} : a \in TSsmall}
          \cup {{<<0, a[1], a[2], a[3]>>, <<t, b[1], b[2], b[3]>>} : a \in TSsmall, b \in TSsmall, t \in {3, 4, 6}}
M1s8 == {{}} \cup {{<<0, e, 1>>} : e \in {1, 2, 3, 4, 6, 8}}
C02Configs == {Mk(8, qt, ts, {}, {}, m1, mus, 1) : qt \in QTabs8, ts \in TSs8, m1 \in M1s8, mus \in {0, 1}}

\* ---- C10: measures tiling 0..T, signatures / keys / clefs at various places
Tilings == { {<<0, 4, 1>>, <<4, 8, 2>>, <<8, 12, 3>>}, {<<0, 1, 0>>, <<1, 5, 1>>, <<5, 9, 2>>, <<9, 12, 3>>},
             {<<0, 2, 1>>, <<2, 6, 2>>, <<6, 12, 3>>}, {<<0, 6, 1>>, <<6, 12, 2>>}, {<<0, 12, 1>>},
             {<<0, 3, 1>>, <<3, 6, 2>>, <<6, 9, 3>>, <<9, 12, 4>>}, {<<0, 4, 7>>, <<4, 8, 7>>, <<8, 12, 9>>}, {} }
TS12 == {{}, {<<0, 4, 4, 4>>}, {<<0, 3, 4, 3>>}, {<<0, 4, 4, 4>>, <<8, 3, 4, 3>>}, {<<4, 4, 4, 4>>}, {<<0, 2, 4, 2>>, <<4, 6, 8, 2>>},
         {<<2, 3, 4, 3>>, <<6, 2, 4, 2>>}, {<<0, 6, 8, 2>>}}
KS12 == {{}, {<<0, 2, 1>>}, {<<0, -3, -1>>, <<6, 4, 1>>}, {<<5, 1, 1>>}, {<<3, -7, -1>>, <<9, 7, 1>>}, {<<0, 0, 1>>, <<4, 0, -1>>}}
CL12 == {{}, {<<0, 1, 0, 2, 0>>}, {<<0, 1, 0, 2, 0>>, <<0, 2, 1, 4, 0>>}, {<<0, 1, 0, 2, 0>>, <<6, 1, 1, 4, 0>>},
         {<<4, 2, 2, 3, 0>>}, {<<0, 1, 0, 2, -1>>, <<3, 2, 1, 4, 0>>, <<9, 2, 0, 2, 1>>}}
NStaves(cl) == IF cl = {} THEN 1 ELSE MaxOf({c[2] : c \in cl})
C10Configs == {Mk(12, {<<0, q>>}, ts, ks, cl, ms, 0, NStaves(cl)) : q \in {1, 2}, ts \in TS12, ks \in KS12, cl \in CL12, ms \in Tilings}

\* ---- configurations from a file (sequence of records with sequences instead of sets)
FileCases == IF Source = "file" THEN JsonDeserialize(IOEnv.CASE_FILE) ELSE <<>>
FromFile(r) == [T |-> r.T, qtab |-> ToSet(r.qtab), ts |-> ToSet(r.ts), ks |-> ToSet(r.ks), clefs |-> ToSet(r.clefs),
                measures |-> ToSet(r.measures), musical |-> r.musical, nstaves |-> r.nstaves, cid |-> r.cid]

NShards == 16
Shard == IF "SHARD" \in DOMAIN IOEnv THEN CHOOSE k \in 0..(NShards - 1) : ToString(k) = IOEnv.SHARD ELSE -1
RECURSIVE SumT(_)
SumT(S) == IF S = {} THEN 0 ELSE LET e == CHOOSE x \in S : TRUE IN e[1] + e[2] + SumT(S \ {e})
KeyOf(c) == SumT(c.qtab) + SumT(c.ts) + SumT(c.measures) + SumT(c.ks) + SumT(c.clefs) + c.musical
InShard(c) == Shard = -1 \/ KeyOf(c) % NShards = Shard
Sub8 == IF "SMALL" \in DOMAIN IOEnv THEN 1 ELSE 0      \* quick tier: a sub-family of the C02 space
Init == /\ p \in (IF Source = "c02"
                  THEN {c \in C02Configs : InShard(c) /\ (Sub8 = 0 \/ (KeyOf(c) % 8 = 0))}
                  ELSE IF Source = "c10" THEN {c \in C10Configs : InShard(c)}
                  ELSE {FromFile(FileCases[i]) : i \in 1..Len(FileCases)})
        /\ m = [q |-> MapSeq(p, "quarter"), b |-> MapSeq(p, "beat")]
Next == UNCHANGED <<p, m>>
Spec == Init /\ [][Next]_<<p, m>>

AsSeq(S) == SetToSeq(S)
Expect(c) ==
   [qmap |-> m.q,
    bmap |-> m.b,
    qdur |-> [t \in 1..(c.T + 1) |-> QAt(c, t - 1)],
    tsmap |-> [t \in 1..(c.T + 1) |-> LET e == TimeSigAt(c, t - 1) IN <<e[2], e[3], e[4]>>],
    ksmap |-> [t \in 1..(c.T + 1) |-> LET e == KeySigAt(c, t - 1) IN <<e[2], e[3]>>],
    clefmap |-> [t \in 1..(c.T + 1) |-> [s \in 1..c.nstaves |-> LET e == ClefAt(c, s, t - 1) IN <<e[2], e[3], e[4], e[5]>>]],
    inside |-> [t \in 1..(c.T + 1) |-> IF c.measures # {} /\ MeasureMapsDefined(c) /\ InsideSomeMeasure(c, t - 1) THEN 1 ELSE 0],
    mmap |-> [t \in 1..(c.T + 1) |-> IF c.measures = {} THEN <<0, c.T>> ELSE MeasureMap(c, t - 1)],
    mnum |-> [t \in 1..(c.T + 1) |-> IF c.measures = {} THEN 1 ELSE MeasureNumberMap(c, t - 1)],
    mpos |-> [t \in 1..(c.T + 1) |-> IF c.measures = {} THEN <<0, 0>> ELSE MetricalPos(c, t - 1)],
    pickup_beats |-> RSub(<<0, 1>>, m.b[1]), pickup_quarters |-> RSub(<<0, 1>>, m.q[1])]
Plain(c) == [T |-> c.T, qtab |-> AsSeq(c.qtab), ts |-> AsSeq(c.ts), ks |-> AsSeq(c.ks), clefs |-> AsSeq(c.clefs),
             measures |-> AsSeq(c.measures), musical |-> c.musical, nstaves |-> c.nstaves,
             cid |-> IF "cid" \in DOMAIN c THEN c.cid ELSE 0]
Emit == PrintT(ToJson([cfg |-> Plain(p), out |-> Expect(p)]))

InvMonotone == Monotone(p, m.q, m.b)
InvZero == ZeroPlacement(p, m.q, m.b)
InvSegmentLaw == SegmentLaw(p, m.q, m.b)
InvMeasures == MeasuresCoverPositions(p)
InvMetrical == MetricalPosInRange(p)
=============================================================================
