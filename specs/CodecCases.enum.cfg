SPECIFICATION Spec
CONSTANT Source = "enum"
CONSTRAINT Emit
INVARIANT InvMatched
INVARIANT InvTable
INVARIANT InvKnots
INVARIANT InvDecoded
CHECK_DEADLOCK FALSE
