----------------------------- MODULE PitchCases -----------------------------
(* Case generation for C12 / C16: TLC enumerates the quantifier's input space and prints every case
   together with the value the arithmetic of Pitch / Durations gives (or REJECT). *)
EXTENDS Pitch, Durations, Json

CONSTANT Kinds     \* which case kinds to generate
VARIABLE c
Steps7 == {StepNames[i] : i \in 1..7}
Modes == {"major", "minor", "none", "null", "int1", "int-1", "dorian", "Major", "min"}
ModeMinor(m) == m \in {"minor", "int-1"}
ModeKnown(m) == m \in {"major", "minor", "none", "null", "int1", "int-1"}
TupletRatios == {<<1, 1>>, <<3, 2>>, <<5, 4>>, <<6, 4>>, <<7, 4>>, <<2, 3>>, <<4, 3>>, <<7, 8>>, <<9, 8>>}

CasesOf(k) ==
   CASE k = "ps2midi" -> [kind : {k}, step : Steps7, alter : -3..3, octave : -1..9]
     [] k = "midi2ps" -> [kind : {k}, midi : 0..127]
     [] k = "notename" -> [kind : {k}, step : Steps7, acc : AccStrings, octave : 0..10]
     [] k = "name_of" -> [kind : {k}, step : Steps7, alter : -3..3, octave : 0..9]
     [] k = "key" -> [kind : {k}, fifths : -12..12, mode : Modes]
     [] k = "keyname" -> [kind : {k}, fifths : ValidFifths, minor : BOOLEAN]
     [] k = "interval" -> [kind : {k}, iv : IntervalClasses]
     [] k = "transpose" -> [kind : {k}, step : Steps7, alter : -2..2, octave : 0..8, iv : IntervalClasses, dir : {"up", "down"}]
     [] k = "step2pc" -> [kind : {k}, step : Steps7, alter : -3..3]
     [] k = "symdur" -> [kind : {k}, type : TypeSet, dots : 0..3, ratio : TupletRatios, divs : {1, 4, 6, 12, 480, 960}]
     [] k = "tempo" -> [kind : {k}, unit : UnitLabels, dots : 0..3, bpm : {30, 48, 60, 100, 132, 144}]
     [] k = "ticks" -> [kind : {k}, num : {0, 1, 3, 5, 7, 63, 100, 257, 1001, 1999}, dexp : 0..4,
                        ppq : {1, 24, 96, 220, 480}, mpqk : {250, 333, 500, 750, 1000}]
     [] k = "secs" -> [kind : {k}, ticks : {0, 1, 7, 100, 479, 480, 1921, 100000}, ppq : {1, 24, 96, 220, 480, 960},
                       mpqk : {250, 333, 500, 750, 1000}]
     [] k = "freq" -> [kind : {k}, octs : -5..5]

Expect(x) ==
   CASE x.kind = "ps2midi" -> [midi |-> Midi(x.step, x.alter, x.octave)]
     [] x.kind = "midi2ps" -> [spelling |-> DefaultSpelling(x.midi)]
     [] x.kind = "notename" -> [name |-> x.step \o x.acc \o ToString(x.octave),
                                must_accept |-> x.acc \in CanonicalAcc,
                                alter |-> IF x.acc \in CanonicalAcc THEN AccValue(x.acc) ELSE 99,
                                midi |-> IF x.acc \in CanonicalAcc THEN Midi(x.step, AccValue(x.acc), x.octave) ELSE -1]
     [] x.kind = "name_of" -> [name |-> NoteName(x.step, x.alter, x.octave)]
     [] x.kind = "key" -> [name |-> IF x.fifths \in ValidFifths /\ ModeKnown(x.mode)
                                    THEN KeyName(x.fifths, ModeMinor(x.mode)) ELSE "REJECT",
                           modeint |-> IF ModeKnown(x.mode) THEN (IF ModeMinor(x.mode) THEN -1 ELSE 1) ELSE 0]
     [] x.kind = "keyname" -> [name |-> KeyName(x.fifths, x.minor), tonic_pc |-> TonicPc(x.fifths, x.minor)]
     [] x.kind = "interval" -> [semitones |-> IntervalSemitones(x.iv[1], x.iv[2])]
     [] x.kind = "transpose" -> [res |-> Transpose(x.step, x.alter, x.octave, x.iv[1], x.iv[2], x.dir),
                                 pc |-> TransposePc(x.step, x.alter, x.iv[1], x.iv[2])]
     [] x.kind = "step2pc" -> [pc |-> StepPc(x.step, x.alter)]
     [] x.kind = "symdur" -> [numeric |-> SymToNumeric(x.type, x.dots, x.ratio[1], x.ratio[2], x.divs),
                              mult |-> R(x.ratio[2], x.ratio[1])]
     [] x.kind = "tempo" -> [qtempo |-> QuarterTempo(x.unit, x.dots, x.bpm),
                             mpq |-> MicrosecondsPerQuarter(x.unit, x.dots, x.bpm)]
     [] x.kind = "ticks" -> [ticks |-> SecondsToTicks(R(x.num, Pow2(x.dexp)), x.ppq, x.mpqk)]
     [] x.kind = "secs" -> [sec |-> TicksToSeconds(x.ticks, x.ppq, x.mpqk)]
     [] x.kind = "freq" -> [midi |-> 69 + 12 * x.octs,
                            hz |-> IF x.octs >= 0 THEN R(440 * Pow2(x.octs), 1) ELSE R(440, Pow2(-x.octs))]

Init == \E k \in Kinds : c \in CasesOf(k)
Next == UNCHANGED c
Spec == Init /\ [][Next]_c
Emit == PrintT(ToJson([in |-> c, out |-> Expect(c)]))

\* properties of the case space evaluated in every state
TransposeInvertible ==
   c.kind = "transpose" =>
      LET r == Transpose(c.step, c.alter, c.octave, c.iv[1], c.iv[2], c.dir)
          back == Transpose(r[1], r[2], r[3], c.iv[1], c.iv[2], IF c.dir = "up" THEN "down" ELSE "up")
      IN back = <<c.step, c.alter, c.octave>>
NameParsesBack ==
   c.kind = "name_of" => LET nm == NoteName(c.step, c.alter, c.octave) IN Len(nm) >= 2
KeysRejectedOutside == c.kind = "key" => (Expect(c).name = "REJECT" <=> ~(c.fifths \in ValidFifths /\ ModeKnown(c.mode)))
TicksMonotone == c.kind = "ticks" =>
                   SecondsToTicks(R(c.num, Pow2(c.dexp)), c.ppq, c.mpqk) <= SecondsToTicks(R(c.num + 1, Pow2(c.dexp)), c.ppq, c.mpqk)
=============================================================================
