SPECIFICATION Spec
CONSTANT Source = "c10"
CONSTRAINT Emit
INVARIANT InvMonotone
INVARIANT InvZero
INVARIANT InvSegmentLaw
INVARIANT InvMeasures
INVARIANT InvMetrical
CHECK_DEADLOCK FALSE
