----------------------------- MODULE ShiftCases -----------------------------
(* Scenario source for Shift.tla: every part with up to two notes and up to three pedal controls (ordered in time,
   equal times allowed) and one program change on the grid 0..MaxT.  Finished runs are printed with the expected
   controls in force, notes and programs, and replayed into remove_silence_from_performed_part (harness/checks/g02.py). *)
EXTENDS Shift, Json, IOUtils, TLC

CONSTANTS MaxT, MaxCtrl
Spans == {<<a, b>> \in (0..MaxT) \X (0..MaxT) : a <= b}
NoteLists == UNION {[1..n -> Spans] : n \in 1..2}
Ctl == [t : 0..MaxT, v : {0, 100}]
CtlLists == {c \in UNION {[1..n -> Ctl] : n \in 0..MaxCtrl} : \A k \in 2..Len(c) : c[k - 1].t <= c[k].t}
Notes(f) == [k \in DOMAIN f |-> [id |-> k, on |-> f[k][1], off |-> f[k][2]]]

Init == \E f \in NoteLists, c \in CtlLists, p \in 0..MaxT : ShiftInit([notes |-> Notes(f), ctrls |-> c, progs |-> <<p>>])
Next == ShiftNext
Spec == Init /\ [][Next]_hvars

(* a second part for the same performance: the same notes one grid step later *)
Later == [k \in 1..Len(sc.notes) |-> [sc.notes[k] EXCEPT !.on = @ + 1, !.off = @ + 1]]
PartsStayTogether == StayTogether(<<sc.notes, Later>>) /\ StayTogether(<<Later, sc.notes>>)

Report ==
   IF Done
   THEN PrintT(ToJson([notes |-> sc.notes, ctrls |-> sc.ctrls, progs |-> sc.progs, start |-> Start,
                       new_notes |-> notes, new_ctrls |-> ctrls, new_progs |-> progs,
                       force |-> [u \in 1..(Horizon + 1) |-> InForce(sc.ctrls, u - 1 + Start)],
                       together |-> ShiftedTogether(<<Later, sc.notes>>)]))
   ELSE TRUE
=============================================================================
