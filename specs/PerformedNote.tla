---------------------------- MODULE PerformedNote ----------------------------
(***************************************************************************)
(* Growth beyond the listed properties: the time fields of a PerformedNote *)
(* (note_on, note_off, sound_off) behind its validating item assignment.   *)
(* The validators say what is meant: 0 <= note_on <= note_off <= sound_off.*)
(* An assignment is one action: it is refused (ValueError, nothing         *)
(* changes) or accepted.  Strict = FALSE is the class as it is: a new      *)
(* note_on is only checked against 0 and a new note_off only against       *)
(* note_on - TLC refutes Ordered in two steps.  Strict = TRUE checks a new *)
(* value against both neighbours and keeps Ordered.                        *)
(***************************************************************************)
EXTENDS Integers, Sequences

CONSTANTS Strict, MaxT, Depth
VARIABLES on, off, snd,   \* the three times
          hist            \* the assignments so far: <<[key, v, ok]..>>
pvars == <<on, off, snd, hist>>

Accepts(key, v) ==
   CASE key = "note_on" -> v >= 0 /\ (Strict => v <= off)
     [] key = "note_off" -> v >= 0 /\ v >= on /\ (Strict => v <= snd)
     [] key = "sound_off" -> v >= 0 /\ v >= off
Assign(key, v) ==
   /\ Len(hist) < Depth
   /\ hist' = Append(hist, [key |-> key, v |-> v, ok |-> Accepts(key, v)])
   /\ IF Accepts(key, v)
      THEN /\ on' = (IF key = "note_on" THEN v ELSE on)
           /\ off' = (IF key = "note_off" THEN v ELSE off)
           /\ snd' = (IF key = "sound_off" THEN v ELSE snd)
      ELSE UNCHANGED <<on, off, snd>>
PInit == /\ on \in 0..MaxT /\ off \in on..MaxT /\ snd \in off..MaxT /\ hist = <<>>
PNext == \E key \in {"note_on", "note_off", "sound_off"}, v \in (-1)..MaxT : Assign(key, v)
Spec == PInit /\ [][PNext]_pvars

Ordered == 0 <= on /\ on <= off /\ off <= snd
NeverNegative == on >= 0 /\ off >= 0 /\ snd >= 0
RefusedChangesNothing == [][(Len(hist') > Len(hist) /\ ~hist'[Len(hist')].ok) => UNCHANGED <<on, off, snd>>]_pvars
=============================================================================
