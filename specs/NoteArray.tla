------------------------------ MODULE NoteArray ------------------------------
(***************************************************************************)
(* C05: the note array as a function of the score.  A part is a TimeMaps   *)
(* configuration plus notes: records                                       *)
(*  [id, step, alter, octave, on, dur, next, prev, grace, gtype, voice,    *)
(*   staff, rest]   (next / prev: index of the tied neighbour or 0;        *)
(*   staff 0 = not stated; voice -1 (C05) or 0 = not stated; rest = 1).    *)
(* One row per sounding note = head of a tie chain; grace notes are kept   *)
(* with zero duration; every column is what the score states at the onset. *)
(***************************************************************************)
EXTENDS TimeMaps, Pitch, Sequences

RECURSIVE DurTied(_, _)
DurTied(ns, k) == ns[k].dur + (IF ns[k].next = 0 THEN 0 ELSE DurTied(ns, ns[k].next))
Heads(ns, wantRest) == {k \in 1..Len(ns) : ns[k].prev = 0 /\ ns[k].rest = wantRest}
MaxVoice(ns, wantRest) == LET S == {ns[k].voice : k \in Heads(ns, wantRest)} IN IF S = {} THEN 0 ELSE MaxOf(S)
Row(p, ns, k, mult, prefix, wantRest, qs, bs) ==
   LET n == ns[k]
       d == DurTied(ns, k)
       ksg == KeySigAt(p, n.on)
       tsg == TimeSigAt(p, n.on)
       mp == IF p.measures # {} /\ MeasureMapsDefined(p) /\ InsideSomeMeasure(p, n.on) THEN MetricalPos(p, n.on) ELSE <<-1, -1>>
   IN [id |-> prefix \o n.id, onset_div |-> n.on * mult, duration_div |-> d * mult,
       pitch |-> IF n.rest = 1 THEN 0 ELSE Midi(n.step, n.alter, n.octave),
       voice |-> n.voice,        \* -1 (0 where no check states voice 0) = the score states no voice (the table may then hold any filler)
       staff |-> n.staff, step |-> n.step, alter |-> n.alter, octave |-> n.octave,
       is_grace |-> n.grace, grace_type |-> n.gtype,
       onset_quarter |-> qs[n.on + 1], duration_quarter |-> RSub(qs[n.on + d + 1], qs[n.on + 1]),
       onset_beat |-> bs[n.on + 1], duration_beat |-> RSub(bs[n.on + d + 1], bs[n.on + 1]),
       ks |-> <<ksg[2], ksg[3]>>, ts |-> <<tsg[2], tsg[3], tsg[4]>>, mpos |-> mp,
       divs_pq |-> QAt(p, 0) * mult]
PartRows(p, ns, mult, prefix, wantRest) ==
   LET qs == MapSeq(p, "quarter")
       bs == MapSeq(p, "beat")
   IN {Row(p, ns, k, mult, prefix, wantRest, qs, bs) : k \in Heads(ns, wantRest)}
\* score level: divisions rescaled to the least common multiple, ids prefixed with the part number on request
Digits(i) == IF i < 10 THEN "0" \o ToString(i) ELSE ToString(i)
ScoreRows(parts, uniqueIds) ==
   \* "their least common multiple": of the part arrays that are united - a part without a sounding note has no rows
   \* and therefore no divisions in the union (it contributes 1)
   LET L == LcmSeq([i \in 1..Len(parts) |-> IF Heads(parts[i].notes, 0) = {} THEN 1 ELSE QAt(parts[i].cfg, 0)])
   IN UNION {PartRows(parts[i].cfg, parts[i].notes, IF Heads(parts[i].notes, 0) = {} THEN 1 ELSE L \div QAt(parts[i].cfg, 0),
                      IF uniqueIds = 1 /\ Len(parts) > 1 THEN "P" \o Digits(i - 1) \o "_" ELSE "", 0) : i \in 1..Len(parts)}
(* ---- properties ---- *)
OneRowPerSoundingNote(ns, rows) == Cardinality(rows) = Cardinality(Heads(ns, 0))
TieChainsCoverEveryNote(ns) ==
   \A k \in 1..Len(ns) : ns[k].next # 0 => (ns[ns[k].next].prev = k /\ ns[ns[k].next].on = ns[k].on + ns[k].dur)
GraceHasZeroDuration(ns) == \A k \in 1..Len(ns) : ns[k].grace = 1 => ns[k].dur = 0
=============================================================================
