--------------------------- MODULE MusicXMLStreamMC ---------------------------
(***************************************************************************)
(* Model checking of the MusicXML stream machine itself: a writer that     *)
(* obeys the format (never backs up before the measure start, closes every *)
(* measure, ties only equal pitches that are not already tied) emits       *)
(* events nondeterministically from a small alphabet; TLC explores every   *)
(* document up to a bound and checks the machine's invariants:             *)
(*   CursorInMeasure, CursorNotBeyondFurthest, MeasuresTile,               *)
(*   NotesInsideTheirMeasure, OpenTiesPointAtStarts, NoRuleBroken, and at  *)
(*   the end of a measure that the measure is as long as its longest voice.*)
(***************************************************************************)
EXTENDS MusicXMLStream
CONSTANTS MaxEvents, MaxMeasures, Durs
Pitches == {<<"C", 0, 4>>, <<"D", 1, 4>>}

VARIABLES n, inMeasure
mvars == <<pos, divs, mstart, maxpos, lastOn, open, notes, measures, attrs, ropen, rclosed, bad, n, inMeasure>>

E(kind) == [ev |-> kind]
NoteEv(d, chord, grace, rest, p, ts, te) ==
   [ev |-> "note", id |-> "x", dur |-> d, chord |-> chord, grace |-> grace, rest |-> rest, step |-> p[1], alter |-> p[2], octave |-> p[3],
    voice |-> 1, staff |-> 1, tie_stop |-> ts, tie_start |-> te, type |-> "", dots |-> 0, ranges |-> <<>>]
MInit == SInit /\ n = 0 /\ inMeasure = FALSE
Count == n' = n + 1
MStart == /\ ~inMeasure /\ Len(measures) < MaxMeasures
          /\ StartMeasure([number |-> "m"]) /\ inMeasure' = TRUE /\ Count
MEnd == /\ inMeasure /\ EndMeasure /\ inMeasure' = FALSE /\ Count
MDivs == /\ inMeasure /\ \E d \in {1, 2, 3} : Divisions([d |-> d]) /\ UNCHANGED inMeasure /\ Count
MNote == /\ inMeasure /\ divs >= 1
         /\ \E d \in Durs, chord \in {0, 1}, grace \in {0, 1}, rest \in {0, 1}, p \in Pitches, ts \in {0, 1}, te \in {0, 1} :
               /\ (chord = 1 => (Len(notes) > 0 /\ rest = 0))
               /\ (rest = 1 => (ts = 0 /\ te = 0 /\ grace = 0))
               /\ (grace = 1 => (ts = 0 /\ te = 0))
               \* the writer's discipline for ties
               /\ (ts = 1 => (OpenIdx(<<p[1], p[2], p[3]>>) # 0
                              /\ LET q == notes[open[OpenIdx(<<p[1], p[2], p[3]>>)][2]] IN
                                 REq(RAdd(q.on, q.dur), IF chord = 1 THEN lastOn ELSE pos)))
               /\ (te = 1 => (ts = 1 \/ OpenIdx(<<p[1], p[2], p[3]>>) = 0))
               /\ Note(NoteEv(d, chord, grace, rest, p, ts, te))
         /\ UNCHANGED inMeasure /\ Count
MBackup == /\ inMeasure /\ divs >= 1
           /\ \E d \in Durs : RLeq(mstart, RSub(pos, Q(d))) /\ Backup([d |-> d])
           /\ UNCHANGED inMeasure /\ Count
MForward == /\ inMeasure /\ divs >= 1 /\ \E d \in Durs : Forward([d |-> d]) /\ UNCHANGED inMeasure /\ Count
MNext == n < MaxEvents /\ (MStart \/ MEnd \/ MDivs \/ MNote \/ MBackup \/ MForward)
MSpec == MInit /\ [][MNext]_mvars

CursorNotBeyondFurthest == RLeq(pos, maxpos)
NotesInsideTheirMeasure ==
   \A i \in 1..Len(notes) : \E m \in 1..Len(measures) :
      RLeq(measures[m].start, notes[i].on) /\ (m = Len(measures) \/ RLeq(RAdd(notes[i].on, notes[i].dur), measures[m].end))
OpenTiesPointAtStarts == \A i \in 1..Len(open) : open[i][2] \in 1..Len(notes) /\ notes[open[i][2]].rest = 0
ChainsAreContiguous == \A i \in 1..Len(notes) : notes[i].prev # 0 =>
                          REq(RAdd(notes[notes[i].prev].on, notes[notes[i].prev].dur), notes[i].on)
MeasureAsLongAsItsLongestVoice ==
   (~inMeasure /\ Len(measures) > 0) =>
      LET m == measures[Len(measures)] IN
      \A i \in 1..Len(notes) : RLeq(m.start, notes[i].on) => RLeq(RAdd(notes[i].on, notes[i].dur), m.end)
=============================================================================
