------------------------------ MODULE EndTimes ------------------------------
(***************************************************************************)
(* Growth beyond the listed properties: set_end_times (run by the MusicXML *)
(* importer) gives pages, systems and constant loudness / tempo /          *)
(* articulation directions that have no end the start of the next object   *)
(* of the same class that starts later, and the end of the part when there *)
(* is none.  The machine is the scan of _set_end_times: objects of one     *)
(* class in timeline order, an accumulator of objects waiting for an end,  *)
(* and the start time of the group being collected.                        *)
(***************************************************************************)
EXTENDS Integers, Sequences, FiniteSets

None == -1
VARIABLES sc,      \* [objs |-> <<[s, e]..>> in timeline order (e = None when missing), last |-> end of the part]
          i,       \* next object
          acc,     \* indices waiting for an end
          cur,     \* start of the group being collected (None before the first object)
          ends     \* current end of every object
evars == <<sc, i, acc, cur, ends>>
N == Len(sc.objs)

ScanInit(x) == /\ sc = x /\ i = 1 /\ acc = {} /\ cur = None
               /\ ends = [k \in 1..Len(x.objs) |-> x.objs[k].e]
Visit == /\ i <= N
         /\ LET o == sc.objs[i] IN
              IF o.s = cur
              THEN /\ acc' = (IF ends[i] = None THEN acc \cup {i} ELSE acc)
                   /\ UNCHANGED <<ends, cur>>
              ELSE /\ ends' = [k \in 1..N |-> IF k \in acc THEN o.s ELSE ends[k]]
                   /\ acc' = (IF ends[i] = None THEN {i} ELSE {})
                   /\ cur' = o.s
         /\ i' = i + 1 /\ UNCHANGED sc
Flush == /\ i = N + 1
         /\ ends' = [k \in 1..N |-> IF k \in acc THEN sc.last ELSE ends[k]]
         /\ acc' = {} /\ i' = N + 2 /\ UNCHANGED <<sc, cur>>
ScanNext == Visit \/ Flush
Done == i = N + 2

(* the meaning *)
LaterStarts(k) == {sc.objs[j].s : j \in {m \in 1..N : sc.objs[m].s > sc.objs[k].s}}
Meant(k) == IF sc.objs[k].e # None THEN sc.objs[k].e
            ELSE IF LaterStarts(k) = {} THEN sc.last
            ELSE CHOOSE x \in LaterStarts(k) : \A y \in LaterStarts(k) : x <= y

ScanGivesMeaning == Done => \A k \in 1..N : ends[k] = Meant(k)
EveryoneEnds == Done => \A k \in 1..N : ends[k] # None /\ ends[k] >= sc.objs[k].s
GivenEndsKept == \A k \in 1..N : sc.objs[k].e # None => ends[k] = sc.objs[k].e
WaitingHaveNoEnd == \A k \in acc : ends[k] = None /\ sc.objs[k].s = cur
(* objects without an end never overlap a later group of their class *)
NoOverlapOfFilled == Done => \A k, j \in 1..N : (sc.objs[k].e = None /\ sc.objs[j].s > sc.objs[k].s) => ends[k] <= sc.objs[j].s
=============================================================================
