------------------------------ MODULE MidiCases ------------------------------
(* C06 / C04: for every recorded MIDI file (a track list) TLC prints what the file denotes (MidiStream) and, when
   the file was written from a performance, the ticks that performance must have been written at. *)
EXTENDS MidiStream, Json, IOUtils, TLCExt, SequencesExt
VARIABLE c
FileCases == TLCEval(JsonDeserialize(IOEnv.CASE_FILE))
Init == c \in {FileCases[i] : i \in 1..Len(FileCases)}
Next == UNCHANGED c
Spec == Init /\ [][Next]_c
T == AllTempos(c.tracks)
Sec(u) == Seconds(T, u, c.ppq, c.defmpqk)
Denote ==
   [t \in 1..Len(c.tracks) |->
      LET r == Track(c.tracks, t) IN
      [notes |-> {[pitch |-> n.pitch, ch |-> n.ch, track |-> n.track, on |-> n.on, off |-> n.off, vel |-> n.vel,
                   on_sec |-> Sec(n.on), off_sec |-> Sec(n.off)] : n \in r.notes},
       ccs |-> [k \in 1..Len(r.ccs) |-> [tick |-> r.ccs[k].tick, number |-> r.ccs[k].number, value |-> r.ccs[k].value,
                                         ch |-> r.ccs[k].ch, sec |-> Sec(r.ccs[k].tick)]],
       pcs |-> [k \in 1..Len(r.pcs) |-> [tick |-> r.pcs[k].tick, program |-> r.pcs[k].program, ch |-> r.pcs[k].ch, sec |-> Sec(r.pcs[k].tick)]],
       tss |-> [k \in 1..Len(r.tss) |-> [tick |-> r.tss[k].tick, beats |-> r.tss[k].beats, beat_type |-> r.tss[k].beat_type, sec |-> Sec(r.tss[k].tick)]],
       kss |-> [k \in 1..Len(r.kss) |-> [tick |-> r.kss[k].tick, name |-> r.kss[k].name, sec |-> Sec(r.kss[k].tick)]],
       metas |-> [k \in 1..Len(r.metas) |-> [tick |-> r.metas[k].tick, what |-> r.metas[k].what, sec |-> Sec(r.metas[k].tick)]],
       hanging |-> Cardinality(r.snd)]]
\* ticks at which the events of the source performance must appear (times given as <<num, den>> seconds)
ExpectTicks == IF "times" \in DOMAIN c THEN [k \in 1..Len(c.times) |-> TickOf(<<c.times[k][1], c.times[k][2]>>, c.ppq, c.wmpqk)] ELSE <<>>
Emit == PrintT(ToJson([cid |-> c.cid, denote |-> Denote, expect_ticks |-> ExpectTicks]))
InvWellFormed == NotesWellFormed(c.tracks)
InvNoLoss == NoHangingLoss(c.tracks)
=============================================================================
