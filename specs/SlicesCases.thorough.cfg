SPECIFICATION Spec
CONSTANT MaxT = 4
CONSTANT MaxNotes = 3
CONSTANT NShards = 8
CONSTRAINT Report
INVARIANT ScanIsFilter
INVARIANT OrderedScanIsWhole
INVARIANT InsideWindow
INVARIANT ArrayAgreesWithPart
INVARIANT UnclippedRowsUntouched
INVARIANT WholeWindowIsIdentity
INVARIANT WindowsCompose
INVARIANT WindowsAddUp
CHECK_DEADLOCK FALSE
