---------------------------- MODULE MatchFileCases ----------------------------
(* Sources: "ids" - TLC enumerates short line sequences over two score ids and two performance ids with the expected
   result of the duplicate-id resolution; "file" - recorded save_match inputs for which TLC computes what loading must
   return (score rows in beats, performed notes in ticks and seconds, pedal events, alignment). *)
EXTENDS MatchFile, NoteArray, Json, IOUtils, TLCExt, SequencesExt
CONSTANT Source
VARIABLE c
Kinds == {"match", "deletion", "insertion", "ornament"}
Line(k, s, p) == [kind |-> k, sid |-> IF k = "insertion" THEN "" ELSE s, pid |-> IF k = "deletion" THEN "" ELSE p, idx |-> 0, tid |-> 0, tied |-> FALSE]
Lines1 == {Line(k, s, p) : k \in Kinds, s \in {"n1", "n2"}, p \in {"n7", "n8"}}
           \cup {[Line("deletion", s, "") EXCEPT !.tied = TRUE] : s \in {"n1", "n2"}}
(* a line equal to an earlier one in kind and ids either repeats its text exactly (tid of the earlier line) or differs in other fields *)
WithTids(s) == {t \in [1..Len(s) -> 1..Len(s)] : \A i \in 1..Len(s) : t[i] <= i /\ (t[i] < i => (t[t[i]] = t[i] /\ s[t[i]] = s[i]))}
Tidded(s) == {[i \in 1..Len(s) |-> [s[i] EXCEPT !.tid = t[i]]] : t \in WithTids(s)}
Raw3 == {<<a>> : a \in Lines1} \cup {<<a, b>> : a \in Lines1, b \in Lines1} \cup {<<a, b, d>> : a \in Lines1, b \in Lines1, d \in Lines1}
SeqsUpTo3 == UNION {Tidded(s) : s \in Raw3}
Small == IF "SMALL" \in DOMAIN IOEnv THEN 1 ELSE 0
KeyOfSeq(s) == Len(s) + Cardinality({i \in 1..Len(s) : s[i].kind = "match"}) * 3 + Cardinality({i \in 1..Len(s) : s[i].sid = "n1"})
FileCases == IF Source = "file" THEN TLCEval(JsonDeserialize(IOEnv.CASE_FILE)) ELSE <<>>
Cfg(r) == [T |-> r.T, qtab |-> ToSet(r.qtab), ts |-> ToSet(r.ts), ks |-> ToSet(r.ks), clefs |-> ToSet(r.clefs),
           measures |-> ToSet(r.measures), musical |-> r.musical, nstaves |-> r.nstaves]
Init == c \in (IF Source = "ids" THEN {[kind |-> "ids", lines |-> s] : s \in {x \in SeqsUpTo3 : Small = 0 \/ Len(x) < 3 \/ KeyOfSeq(x) % 5 = 0}}
               ELSE {FileCases[i] : i \in 1..Len(FileCases)})
Next == UNCHANGED c
Spec == Init /\ [][Next]_c
RoundHE(num, den) == RoundHalfEven(<<num, den>>)
Expect ==
   IF c.kind \in {"ids", "lines"}
   THEN LET v == Load(c.lines) IN [kept |-> [i \in 1..Len(v) |-> v[i].idx], alignment |-> AlignmentOf(v)]
   ELSE [rows |-> PartRows(Cfg(c.part.cfg), c.part.notes, 1, "", 0),
         ticks |-> [k \in 1..Len(c.times) |-> RoundHalfEven(RDiv(RMul(RInt(1000 * c.ppq), <<c.times[k][1], c.times[k][2]>>), RInt(c.mpqk)))]]
Emit == PrintT(ToJson([cid |-> IF c.kind = "ids" THEN 0 ELSE c.cid, in |-> IF c.kind = "ids" THEN c.lines ELSE <<>>, out |-> Expect]))
IsLines == c.kind \in {"ids", "lines"}
InvKeeps == IsLines => KeepsMatches(c.lines)
InvNothingElse == IsLines => NothingElseLost(c.lines)
InvOrder == IsLines => OrderKept(c.lines)
InvNoDup == IsLines => NoDuplicates(c.lines)
InvResolved == IsLines => ConflictsResolved(c.lines)
InvIdem == IsLines => Idempotent(c.lines)
=============================================================================
