SPECIFICATION Spec
CONSTANT MaxT = 3
CONSTANT MaxNotes = 4
CONSTRAINT Report
INVARIANT StartsAtZero
INVARIANT OrderKept
INVARIANT TempoRecovered
INVARIANT LegatoKept
INVARIANT ConstantTempoIsLinear
INVARIANT VelocitiesFromRows
CHECK_DEADLOCK FALSE
