SPECIFICATION Spec
CONSTANT KeepStructure = FALSE
CONSTANT NParts = 2
CONSTANT Iters = {"a", "b"}
CONSTANT Fresh = {7, 8}
CONSTANT Depth = 5
INVARIANT StructureAgrees
CHECK_DEADLOCK FALSE
