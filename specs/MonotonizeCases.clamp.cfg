SPECIFICATION Spec
CONSTANT Clamp = TRUE
CONSTANT MaxN = 5
CONSTANT MaxV = 4
CONSTANT MaxGap = 2

INVARIANT RunMaxIsMax
INVARIANT RecordsRise
INVARIANT RecordsAreTheRises
INVARIANT Monotone
INVARIANT RecordsKept
INVARIANT InvertibleBetweenRecords
INVARIANT AtLeastRunningMax
INVARIANT IncreasingUnchanged
INVARIANT WithinRange
CHECK_DEADLOCK FALSE
