---------------------------- MODULE BeatReference ----------------------------
(***************************************************************************)
(* Growth beyond the listed properties: the beat reference of a part       *)
(* (Part.use_musical_beat, Part.use_notated_beat,                          *)
(* Part.set_musical_beat_per_ts, TimeSignature.musical_beats).             *)
(* State: the flag (musical or notated beats), the time signatures in      *)
(* timeline order with their number of musical beats, and - only in the    *)
(* variant Remember = TRUE - the user's table.  The class as it is         *)
(* (Remember = FALSE) applies a table to the time signatures present at    *)
(* the moment of the call and forgets it; a time signature added later     *)
(* gets the default.  Time signature k starts at (k-1) * Span divisions;   *)
(* the part has Q divisions per quarter.                                   *)
(***************************************************************************)
EXTENDS Integers, Sequences, FiniteSets

CONSTANTS Remember, Depth
Q == 12
Span == 72                      \* six quarters
Kinds == <<<<6, 8>>, <<3, 4>>, <<9, 8>>>>
Default(b) == IF b = 6 THEN 2 ELSE IF b = 9 THEN 3 ELSE IF b = 12 THEN 4 ELSE b
(* user tables: functions from kind indices to musical beats *)
Empty == [k \in {} |-> 0]
Tables == <<Empty, [k \in {1} |-> 3], [k \in {1, 2} |-> IF k = 1 THEN 6 ELSE 1]>>

VARIABLES flag,   \* TRUE: musical beats are the reference
          tss,    \* <<[kind, mb]..>>
          user,   \* the table remembered (Remember = TRUE only)
          hist    \* the calls made: <<[op, arg, eff]..>>
bvars == <<flag, tss, user, hist>>

BInit == flag = FALSE /\ tss = <<>> /\ user = Empty /\ hist = <<>>

MbFor(tbl, kind) == IF kind \in DOMAIN tbl THEN tbl[kind] ELSE Default(Kinds[kind][1])
SetAll(tbl) == tss' = [k \in DOMAIN tss |-> [tss[k] EXCEPT !.mb = MbFor(tbl, tss[k].kind)]]
Log(op, arg, eff) == hist' = Append(hist, [op |-> op, arg |-> arg, eff |-> eff])

(* part.add(TimeSignature(beats, beat_type), start): the constructor gives the default *)
AddTS(kind) == /\ tss' = Append(tss, [kind |-> kind, mb |-> IF Remember THEN MbFor(user, kind) ELSE Default(Kinds[kind][1])])
               /\ UNCHANGED <<flag, user>> /\ Log("add", kind, TRUE)
(* use_musical_beat(table): refused with a warning when already on; the table is applied only when it is not empty *)
UseMusical(t) == /\ IF ~flag
                    THEN /\ flag' = TRUE
                         /\ IF Tables[t] # Empty THEN SetAll(Tables[t]) /\ user' = Tables[t] ELSE UNCHANGED <<tss, user>>
                    ELSE UNCHANGED <<flag, tss, user>>
                 /\ Log("musical", t, ~flag)
(* use_notated_beat(): refused with a warning when already off; otherwise every time signature back to its default *)
UseNotated == /\ IF flag THEN flag' = FALSE /\ SetAll(Empty) /\ user' = Empty ELSE UNCHANGED <<flag, tss, user>>
              /\ Log("notated", 0, flag)
(* set_musical_beat_per_ts(table): every time signature gets the table's value or its default; the flag stays *)
SetPerTs(t) == SetAll(Tables[t]) /\ user' = Tables[t] /\ UNCHANGED flag /\ Log("set", t, TRUE)

BNext == /\ Len(hist) < Depth
         /\ \/ \E k \in 1..Len(Kinds) : AddTS(k)
            \/ \E t \in 1..Len(Tables) : UseMusical(t) \/ SetPerTs(t)
            \/ UseNotated
-----------------------------------------------------------------------------
(* what beat_map and time_signature_map use *)
Eff(k) == IF flag THEN tss[k].mb ELSE Kinds[tss[k].kind][1]
SegNum(k) == 6 * Kinds[tss[k].kind][2] * Eff(k)
SegDen(k) == 4 * Kinds[tss[k].kind][1]
SegBeats(k) == SegNum(k) \div SegDen(k)            \* beats in the Span of time signature k
RECURSIVE BeatAt(_)
BeatAt(k) == IF k = 0 THEN 0 ELSE BeatAt(k - 1) + SegBeats(k)   \* beat position at the end of time signature k

Exact == \A k \in DOMAIN tss : SegNum(k) % SegDen(k) = 0
BeatsPositive == \A k \in DOMAIN tss : tss[k].mb >= 1
(* a call that is refused changes nothing *)
LastEffective == Len(hist) > 0 /\ hist[Len(hist)].eff
ResetGivesDefaults == (Len(hist) > 0 /\ hist[Len(hist)].op = "notated" /\ hist[Len(hist)].eff)
                         => \A k \in DOMAIN tss : tss[k].mb = Default(Kinds[tss[k].kind][1])
(* with notated beats the tables have no influence on the beat positions *)
NotatedIgnoresTables == ~flag => \A k \in DOMAIN tss : SegBeats(k) = (6 * Kinds[tss[k].kind][2]) \div 4
(* equal time signatures count the same number of beats - refuted for the class as it is *)
SameSignatureSameBeats == \A a, b \in DOMAIN tss : tss[a].kind = tss[b].kind => tss[a].mb = tss[b].mb
=============================================================================
