SPECIFICATION Spec
CONSTANTS
  NParts = 3
  Iters = {"a", "b", "c"}
ACTION_CONSTRAINT EmitEdge
