SPECIFICATION TSpec
CONSTANTS
  LTimes = {}
  LQuarters = {}
CONSTRAINT Report
CHECK_DEADLOCK FALSE
