------------------------------- MODULE Beaming -------------------------------
(***************************************************************************)
(* Growth beyond the listed properties: infer_beaming.  One voice in 4/4   *)
(* on a grid of sixteenths (a beat is 4 steps).  A note is short when it   *)
(* lasts an eighth or less; a short note opens a beam when it starts on a  *)
(* beat, closes one when it ends on a beat, and otherwise continues one    *)
(* (or opens one off the beat when none is open).  The machine is the scan *)
(* of the code: the notes of the voice in time order, the open beam (if    *)
(* any) with the notes collected for it, and the start of the group, which *)
(* is given up when the next note starts more than a beat after it.        *)
(*                                                                         *)
(* LongNotesBreak = TRUE is the repaired scan: a note too long to be       *)
(* beamed gives up the open beam.  With FALSE (the scan as found) TLC      *)
(* refutes BeamedNotesAreNeighbours.                                       *)
(***************************************************************************)
EXTENDS Integers, Sequences, FiniteSets

CONSTANT LongNotesBreak
Beat == 4
None == -1
VARIABLES sc,        \* the voice: <<[on, dur]..>>, ordered, not overlapping
          i,         \* next note
          isOpen,    \* a beam is open
          group,     \* indices collected for the open beam
          from,      \* start of the group (prev_start of the code)
          beams      \* closed beams: set of sequences of note indices
bvars == <<sc, i, isOpen, group, from, beams>>
N == Len(sc)
Short(k) == sc[k].dur <= 2
OnBeat(u) == u % Beat = 0
Opens(k) == Short(k) /\ OnBeat(sc[k].on)
Closes(k) == Short(k) /\ OnBeat(sc[k].on + sc[k].dur)
Between(k) == Short(k) /\ ~Opens(k) /\ ~Closes(k)

ScanInit(x) == sc = x /\ i = 1 /\ isOpen = FALSE /\ group = <<>> /\ from = 0 /\ beams = {}
Visit ==
   /\ i <= N
   /\ LET far == sc[i].on - from > Beat                 \* more than a beat after the start of the group
          o == IF far THEN FALSE ELSE isOpen
          g == IF far THEN <<>> ELSE group
          f == IF far THEN sc[i].on ELSE from
      IN CASE Opens(i) -> /\ isOpen' = TRUE /\ group' = <<i>> /\ from' = sc[i].on /\ UNCHANGED beams
           [] Closes(i) /\ ~Opens(i) ->
                 /\ beams' = (IF o /\ Len(g) >= 1 THEN beams \cup {Append(g, i)} ELSE beams)
                 /\ isOpen' = FALSE /\ group' = <<>> /\ from' = f
           [] Between(i) -> /\ isOpen' = TRUE /\ group' = Append(IF o THEN g ELSE <<>>, i)
                            /\ from' = (IF o THEN f ELSE sc[i].on) /\ UNCHANGED beams
           [] OTHER -> IF LongNotesBreak
                       THEN isOpen' = FALSE /\ group' = <<>> /\ from' = f /\ UNCHANGED beams
                       ELSE isOpen' = o /\ group' = g /\ from' = f /\ UNCHANGED beams
   /\ i' = i + 1 /\ UNCHANGED sc
ScanNext == Visit
Done == i > N

(* ---- what a beam must be ---- *)
Members(b) == {b[k] : k \in 1..Len(b)}
AtLeastTwoNotes == \A b \in beams : Len(b) >= 2
OnlyShortNotes == \A b \in beams : \A k \in Members(b) : Short(k)
BeamsDisjoint == \A a, b \in beams : a # b => Members(a) \cap Members(b) = {}
(* the notes under a beam are neighbours in the voice: no note of the voice between them is left out *)
BeamedNotesAreNeighbours == \A b \in beams : \A k \in 1..N : (b[1] < k /\ k < b[Len(b)]) => k \in Members(b)
(* a beam closes on a beat *)
ClosesOnBeat == \A b \in beams : OnBeat(sc[b[Len(b)]].on + sc[b[Len(b)]].dur)
GroupIsOpen == (group # <<>>) => isOpen
=============================================================================
