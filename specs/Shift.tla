------------------------------- MODULE Shift -------------------------------
(***************************************************************************)
(* Growth beyond the listed properties: removing the silence before the    *)
(* first note of a performed part (remove_silence_from_performed_part,     *)
(* used by load_performance).  The function works in place in three        *)
(* phases - controls, notes, programs - which are the three actions here.  *)
(*                                                                         *)
(* Meaning: time is counted from the first note-on.  A control keeps its   *)
(* value and moves with the notes; controls before the first note are      *)
(* replaced by one control at 0 carrying the value then in force (if any); *)
(* programs before the first note move to 0.  So at every moment t >= 0    *)
(* the value in force for a controller is what was in force at t + start   *)
(* before - in particular "no value yet" stays "no value yet" - and doing  *)
(* it twice changes nothing more.  The parts of one performance are        *)
(* shifted by the first note of the whole performance (load_performance).  *)
(***************************************************************************)
EXTENDS Integers, Sequences, FiniteSets

None == -1
Max2(a, b) == IF a >= b THEN a ELSE b
MaxOf(S) == CHOOSE x \in S : \A y \in S : y <= x
MinOf(S) == CHOOSE x \in S : \A y \in S : x <= y

(* value in force at time u: the last control (in list order) that is not later than u *)
InForce(cs, u) == LET idx == {k \in 1..Len(cs) : cs[k].t <= u}
                  IN IF idx = {} THEN None ELSE cs[MaxOf(idx)].v
StartOf(ns) == MinOf({ns[k].on : k \in 1..Len(ns)})
Keep(cs, start) == LET F[k \in 0..Len(cs)] == IF k = 0 THEN <<>>
                                              ELSE IF cs[k].t >= start THEN Append(F[k - 1], [t |-> cs[k].t - start, v |-> cs[k].v]) ELSE F[k - 1]
                   IN F[Len(cs)]
NewControls(cs, start) ==
   LET before == \E k \in 1..Len(cs) : cs[k].t < start
       at == \E k \in 1..Len(cs) : cs[k].t = start
   IN (IF before /\ ~at THEN <<[t |-> 0, v |-> InForce(cs, start)]>> ELSE <<>>) \o Keep(cs, start)
NewNotes(ns, start) == [k \in 1..Len(ns) |-> [id |-> ns[k].id, on |-> ns[k].on - start, off |-> ns[k].off - start]]
NewPrograms(ps, start) == [k \in 1..Len(ps) |-> Max2(ps[k] - start, 0)]

(* the parts of one performance stay together: all are shifted by the first note of the performance *)
PerformanceStart(ps) == MinOf({StartOf(ps[k]) : k \in 1..Len(ps)})
ShiftedTogether(ps) == [k \in 1..Len(ps) |-> NewNotes(ps[k], PerformanceStart(ps))]
StayTogether(ps) ==
   LET q == ShiftedTogether(ps) IN
   /\ \A i, j \in 1..Len(ps) : \A a \in 1..Len(ps[i]), b \in 1..Len(ps[j]) : q[i][a].on - q[j][b].on = ps[i][a].on - ps[j][b].on
   /\ \A i \in 1..Len(ps) : \A a \in 1..Len(ps[i]) : q[i][a].on >= 0 /\ q[i][a].off - q[i][a].on = ps[i][a].off - ps[i][a].on
   /\ \E i \in 1..Len(ps) : StartOf(q[i]) = 0

VARIABLES sc,      \* the part before: [notes, ctrls, progs]
          phase,   \* "start", "controls", "notes", "done"
          notes, ctrls, progs
hvars == <<sc, phase, notes, ctrls, progs>>
Start == StartOf(sc.notes)

ShiftInit(x) == sc = x /\ phase = "start" /\ notes = x.notes /\ ctrls = x.ctrls /\ progs = x.progs
ShiftControls == phase = "start" /\ phase' = "controls" /\ ctrls' = NewControls(sc.ctrls, Start) /\ UNCHANGED <<sc, notes, progs>>
ShiftNotes == phase = "controls" /\ phase' = "notes" /\ notes' = NewNotes(sc.notes, Start) /\ UNCHANGED <<sc, ctrls, progs>>
ShiftPrograms == phase = "notes" /\ phase' = "done" /\ progs' = NewPrograms(sc.progs, Start) /\ UNCHANGED <<sc, notes, ctrls>>
ShiftNext == ShiftControls \/ ShiftNotes \/ ShiftPrograms
Done == phase = "done"

Horizon == MaxOf({sc.notes[k].off : k \in 1..Len(sc.notes)} \cup {sc.ctrls[k].t : k \in 1..Len(sc.ctrls)} \cup {0})
(* the controller sounds as before, from the first note on *)
ControlsPreserved == phase # "start" => \A u \in 0..Horizon : InForce(ctrls, u) = InForce(sc.ctrls, u + Start)
ControlsOrderedFromZero == phase # "start" => \A k \in 1..Len(ctrls) : ctrls[k].t >= 0 /\ (k > 1 => ctrls[k - 1].t <= ctrls[k].t)
AtMostOneControlAdded == Len(ctrls) <= Len(sc.ctrls) + 1
FirstNoteAtZero == Done => StartOf(notes) = 0
DurationsKept == Done => \A k \in 1..Len(notes) : notes[k].off - notes[k].on = sc.notes[k].off - sc.notes[k].on
ProgramsFromZero == Done => \A k \in 1..Len(progs) : progs[k] >= 0 /\ (sc.progs[k] >= Start => progs[k] = sc.progs[k] - Start)
(* a second removal finds nothing to remove *)
Idempotent == Done => /\ NewControls(ctrls, StartOf(notes)) = ctrls
                      /\ NewNotes(notes, StartOf(notes)) = notes
                      /\ NewPrograms(progs, StartOf(notes)) = progs
=============================================================================
