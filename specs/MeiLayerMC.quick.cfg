SPECIFICATION MCSpec
CONSTANTS
  MaxEvents = 7
  Durs = {2, 4}
INVARIANT MCursorInMeasure
INVARIANT MMeasuresTile
INVARIANT MTiesJoinEqualPitches
INVARIANT MeasureAsLongAsLongestLayer
INVARIANT NoRuleBrokenM
INVARIANT RepeatsWellFormed
CHECK_DEADLOCK FALSE
