SPECIFICATION Spec
CONSTANT Kinds = {"ps2midi", "midi2ps", "notename", "name_of", "key", "keyname", "interval", "step2pc", "symdur", "tempo", "ticks", "secs", "freq"}
CONSTRAINT Emit
INVARIANT NameParsesBack
INVARIANT KeysRejectedOutside
INVARIANT TicksMonotone
CHECK_DEADLOCK FALSE
