---------------------------- MODULE MusicXMLStream ----------------------------
(***************************************************************************)
(* What the <part> of a partwise MusicXML document denotes (C03): an       *)
(* interpreter written from the format's own rules, independent of         *)
(* partitura's reader.  The document is a sequence of events               *)
(*   measure(number) ... endmeasure                                        *)
(*   divisions(d)                 the unit of all following durations      *)
(*   note(dur, chord, grace, rest, pitch, voice, staff, tie stop/start, id)*)
(*   backup(d) / forward(d)                                                *)
(*   time / key / clef            attributes, in force from the cursor on  *)
(*   range(kind, number, type)    start / stop of a slur or tuplet (on a   *)
(*                                note) or of a wedge, dashes or pedal (a  *)
(*                                direction at the cursor)                 *)
(* A cursor pos (in quarters, exact) starts each measure where the longest *)
(* voice of the previous one ended; a note sounds at the cursor and moves  *)
(* it by its duration, a chord note sounds where the previous note began   *)
(* and does not move it, a grace note has no duration, backup/forward move *)
(* the cursor.  A tie stop is paired with the open tie start of the same   *)
(* pitch.  The measure ends at the furthest point reached.  A range is     *)
(* identified by kind and number while it is open: a start on a number that *)
(* is open, or a second stop, breaks the format (a stop may precede its     *)
(* start in document order when the range begins in a later voice).        *)
(* One action per event kind; Trace specifications drive it event by event.*)
(***************************************************************************)
EXTENDS Rat, Sequences, FiniteSets, TLC

VARIABLES pos,        \* cursor, in quarters
          divs,       \* divisions per quarter in force
          mstart,     \* start of the current measure
          maxpos,     \* furthest point reached in the current measure
          lastOn,     \* onset of the last note that was not a chord member
          open,       \* pitch -> index of the note with an open tie start (0 = none)
          notes,      \* placed notes
          measures,   \* [number, name, start, end]
          attrs,      \* signatures and clefs with the position they take effect
          ropen,      \* open ranges <<kind, number, position, note id>>
          rclosed,    \* closed ranges [kind, from, to, fromid, toid]
          bad         \* names of violated format rules
svars == <<pos, divs, mstart, maxpos, lastOn, open, notes, measures, attrs, ropen, rclosed, bad>>

Zero == <<0, 1>>
RMax(a, b) == IF RLess(a, b) THEN b ELSE a
Q(d) == R(d, IF divs < 1 THEN 1 ELSE divs)     \* a duration in divisions as quarters (divs = 0: none declared yet)
PitchKey(e) == <<e.step, e.alter, e.octave>>
SInit == /\ pos = Zero /\ divs = 0 /\ mstart = Zero /\ maxpos = Zero /\ lastOn = Zero
         /\ open = <<>> /\ notes = <<>> /\ measures = <<>> /\ attrs = <<>> /\ ropen = <<>> /\ rclosed = <<>> /\ bad = {}

OpenIdx(k) == IF \E i \in 1..Len(open) : open[i][1] = k THEN (CHOOSE i \in 1..Len(open) : open[i][1] = k) ELSE 0
Without(s, i) == [j \in 1..(Len(s) - 1) |-> IF j < i THEN s[j] ELSE s[j + 1]]

StartMeasure(e) ==
   /\ mstart' = pos /\ maxpos' = pos /\ lastOn' = pos
   /\ measures' = Append(measures, [number |-> e.number, start |-> pos, end |-> pos])
   /\ UNCHANGED <<pos, divs, open, notes, attrs, ropen, rclosed, bad>>
EndMeasure ==
   /\ pos' = maxpos
   /\ measures' = [measures EXCEPT ![Len(measures)].end = maxpos]
   /\ UNCHANGED <<divs, mstart, maxpos, lastOn, open, notes, attrs, ropen, rclosed, bad>>
Divisions(e) ==
   /\ divs' = e.d
   /\ bad' = bad \cup (IF e.d < 1 THEN {"divisions_not_positive"} ELSE {})
   /\ UNCHANGED <<pos, mstart, maxpos, lastOn, open, notes, measures, attrs, ropen, rclosed>>
(* the range marks rs (stops first, as a reader processes them) applied at position at on behalf of note id; an entry of
   ropen is <<kind, number, position, note id, what>> with what = "start" or - when the stop comes first in document order,
   as it does for a slur that begins in a voice written later - "stop" *)
ApplyRanges(rs, at, id) ==
   LET F[k \in 0..Len(rs)] ==
          IF k = 0 THEN <<ropen, rclosed, {}>>
          ELSE LET acc == F[k - 1]
                   r == rs[k]
                   oi == IF \E i \in 1..Len(acc[1]) : acc[1][i][1] = r.kind /\ acc[1][i][2] = r.number
                         THEN (CHOOSE i \in 1..Len(acc[1]) : acc[1][i][1] = r.kind /\ acc[1][i][2] = r.number) ELSE 0
               IN IF oi = 0 THEN <<Append(acc[1], <<r.kind, r.number, at, id, r.type>>), acc[2], acc[3]>>
                  ELSE IF acc[1][oi][5] = r.type
                       THEN <<acc[1], acc[2], acc[3] \cup {IF r.type = "start" THEN "range_started_on_a_number_that_is_open" ELSE "range_stopped_twice"}>>
                  ELSE IF r.type = "stop"
                       THEN <<Without(acc[1], oi), Append(acc[2], [kind |-> r.kind, from |-> acc[1][oi][3], to |-> at, fromid |-> acc[1][oi][4], toid |-> id]), acc[3]>>
                       ELSE <<Without(acc[1], oi), Append(acc[2], [kind |-> r.kind, from |-> at, to |-> acc[1][oi][3], fromid |-> id, toid |-> acc[1][oi][4]]), acc[3]>>
   IN F[Len(rs)]
Note(e) ==
   LET on == IF e.chord = 1 THEN lastOn ELSE pos
       rg == ApplyRanges(e.ranges, on, e.id)
       d == IF e.grace = 1 THEN Zero ELSE Q(e.dur)
       k == PitchKey(e)
       oi == OpenIdx(k)
       stopOk == e.tie_stop = 0 \/ oi # 0
       prev == IF e.tie_stop = 1 /\ oi # 0 THEN open[oi][2] ELSE 0
       open1 == IF e.tie_stop = 1 /\ oi # 0 THEN Without(open, oi) ELSE open
       startClash == e.tie_start = 1 /\ (\E i \in 1..Len(open1) : open1[i][1] = k)
       n == [id |-> e.id, on |-> on, dur |-> d, step |-> e.step, alter |-> e.alter, octave |-> e.octave, rest |-> e.rest,
             grace |-> e.grace, voice |-> e.voice, staff |-> e.staff, prev |-> prev, type |-> e.type, dots |-> e.dots]
   IN /\ notes' = Append(notes, n)
      /\ open' = IF e.tie_start = 1 /\ ~startClash THEN Append(open1, <<k, Len(notes) + 1>>) ELSE open1
      /\ pos' = IF e.chord = 1 \/ e.grace = 1 THEN pos ELSE RAdd(pos, d)
      /\ lastOn' = IF e.chord = 1 THEN lastOn ELSE pos
      /\ maxpos' = RMax(maxpos, RAdd(on, d))
      /\ ropen' = rg[1] /\ rclosed' = rg[2]
      /\ bad' = bad \cup rg[3] \cup (IF stopOk THEN {} ELSE {"tie_stop_without_start"})
                    \cup (IF startClash THEN {"tie_start_while_same_pitch_open"} ELSE {})
                    \cup (IF e.chord = 1 /\ Len(notes) = 0 THEN {"chord_without_previous_note"} ELSE {})
                    \cup (IF divs < 1 /\ e.grace = 0 THEN {"duration_before_any_divisions"} ELSE {})
                    \cup (IF prev # 0 /\ ~REq(RAdd(notes[prev].on, notes[prev].dur), on) THEN {"tie_across_a_gap"} ELSE {})
      /\ UNCHANGED <<divs, mstart, measures, attrs>>
Backup(e) ==
   /\ pos' = RSub(pos, Q(e.d))
   /\ bad' = bad \cup (IF RLess(RSub(pos, Q(e.d)), mstart) THEN {"backup_before_measure_start"} ELSE {})
   /\ UNCHANGED <<divs, mstart, maxpos, lastOn, open, notes, measures, attrs, ropen, rclosed>>
Forward(e) ==
   /\ pos' = RAdd(pos, Q(e.d))
   /\ maxpos' = RMax(maxpos, RAdd(pos, Q(e.d)))
   /\ UNCHANGED <<divs, mstart, lastOn, open, notes, measures, attrs, ropen, rclosed, bad>>
Direction(e) ==
   LET rg == ApplyRanges(e.ranges, pos, "") IN
   /\ ropen' = rg[1] /\ rclosed' = rg[2] /\ bad' = bad \cup rg[3]
   /\ UNCHANGED <<pos, divs, mstart, maxpos, lastOn, open, notes, measures, attrs>>
Attr(e) ==
   /\ attrs' = Append(attrs, [kind |-> e.kind, at |-> pos, a |-> e.a, b |-> e.b, c |-> e.c])
   /\ UNCHANGED <<pos, divs, mstart, maxpos, lastOn, open, notes, measures, ropen, rclosed, bad>>

(* ---- what the document denotes ---- *)
NextOf(i) == IF \E j \in 1..Len(notes) : notes[j].prev = i THEN (CHOOSE j \in 1..Len(notes) : notes[j].prev = i) ELSE 0
RECURSIVE ChainDur(_)
ChainDur(i) == IF NextOf(i) = 0 THEN notes[i].dur ELSE RAdd(notes[i].dur, ChainDur(NextOf(i)))
Sounding == {[id |-> notes[i].id, on |-> notes[i].on, dur |-> ChainDur(i), step |-> notes[i].step, alter |-> notes[i].alter,
              octave |-> notes[i].octave, grace |-> notes[i].grace] : i \in {j \in 1..Len(notes) : notes[j].rest = 0 /\ notes[j].prev = 0}}
(* ---- rules of the format, invariants of every document partitura writes ---- *)
CursorInMeasure == RLeq(mstart, pos)
MeasuresTile == \A i \in 1..(Len(measures) - 1) : measures[i].end = measures[i + 1].start
NoRuleBroken == bad = {}
=============================================================================
