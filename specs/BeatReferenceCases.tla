------------------------- MODULE BeatReferenceCases -------------------------
(* Every behaviour of BeatReference.tla up to length Depth, printed with the calls made and the state reached (flag,
   musical beats of every time signature, beat position at the end of every time signature), replayed into a real
   Part (harness/checks/g16.py). *)
EXTENDS BeatReference, Json, IOUtils, TLC
Spec == BInit /\ [][BNext]_bvars
Report == IF Len(hist) > 0
          THEN PrintT(ToJson([hist |-> hist, flag |-> flag, mb |-> [k \in DOMAIN tss |-> tss[k].mb],
                              kinds |-> [k \in DOMAIN tss |-> Kinds[tss[k].kind]],
                              eff |-> [k \in DOMAIN tss |-> Eff(k)],
                              beat |-> [k \in DOMAIN tss |-> BeatAt(k)]]))
          ELSE TRUE
=============================================================================
