--------------------------- MODULE MonotonizeCases ---------------------------
(* Scenario source for Monotonize.tla: every sequence of 1..MaxN values in 0..MaxV at positions that are the indices
   0, 1, 2, .. (the default of monotonize_times) or positions with gaps of 1..MaxGap.  Finished scans are printed and
   replayed into partitura.utils.generic.monotonize_times (harness/checks/g15.py). *)
EXTENDS Monotonize, Json, IOUtils, TLC

CONSTANTS MaxN, MaxV, MaxGap
RECURSIVE Positions(_, _)
Positions(g, k) == IF k = 1 THEN 0 ELSE Positions(g, k - 1) + g[k - 1]
Init == \E n \in 1..MaxN : \E s0 \in [1..n -> 0..MaxV] : \E g \in [1..(n - 1) -> 1..MaxGap] :
           MonoInit(s0, [k \in 1..n |-> Positions(g, k)])
Next == MonoNext
Spec == Init /\ [][Next]_mvars
Report == IF Done THEN PrintT(ToJson([s |-> s, x |-> x, recs |-> recs, out |-> out])) ELSE TRUE
=============================================================================
