------------------------------- MODULE Rubato -------------------------------
(***************************************************************************)
(* Growth beyond the listed properties: performing a score note array      *)
(* under a tempo (performance_notearray_from_score_notearray, behind       *)
(* performance_from_part).  The tempo is a constant or a step function of  *)
(* score time (an array of (beat, tempo) rows, "previous" interpolation,   *)
(* the first row also applies before it); velocities likewise.  Times are  *)
(* integers: score time in beats, beat periods and performed times in      *)
(* milliseconds (the harness passes bpm = 60000 / period).                 *)
(*                                                                         *)
(* The machine walks over the distinct score onsets in increasing order    *)
(* with a clock, as the code does with a cumulative sum: every note of the *)
(* onset gets the clock, then the clock advances by the inter-onset        *)
(* interval times the beat period in force at the onset left.              *)
(***************************************************************************)
EXTENDS Integers, Sequences, FiniteSets

MaxOf(S) == CHOOSE x \in S : \A y \in S : y <= x
MinOf(S) == CHOOSE x \in S : \A y \in S : x <= y
(* step function given by rows [b, v] in increasing b: the last row not after u, the first row before all *)
StepAt(rows, u) == LET idx == {k \in 1..Len(rows) : rows[k].b <= u}
                   IN IF idx = {} THEN rows[1].v ELSE rows[MaxOf(idx)].v

VARIABLES sc,     \* [notes |-> <<[on, dur]..>>, tempo |-> rows (period in ms), vel |-> rows]
          k,      \* index of the next distinct onset
          clock,  \* performed time of that onset
          out     \* per note: [on, dur, vel] in ms, or the empty record while not reached
rvars == <<sc, k, clock, out>>
N == Len(sc.notes)
OnsetSet == {sc.notes[j].on : j \in 1..N}
Onsets == LET F[m \in 0..Cardinality(OnsetSet)] ==
                 IF m = 0 THEN <<>> ELSE Append(F[m - 1], MinOf(OnsetSet \ {F[m - 1][q] : q \in 1..(m - 1)}))
          IN F[Cardinality(OnsetSet)]
Period(u) == StepAt(sc.tempo, u)
Unset == [on |-> -1, dur |-> -1, vel |-> -1]

PlayInit(x) == sc = x /\ k = 1 /\ clock = 0 /\ out = [j \in 1..Len(x.notes) |-> Unset]
Play == /\ k <= Len(Onsets)
        /\ LET u == Onsets[k] IN
             /\ out' = [j \in 1..N |-> IF sc.notes[j].on = u
                                       THEN [on |-> clock, dur |-> Period(u) * sc.notes[j].dur, vel |-> StepAt(sc.vel, u)]
                                       ELSE out[j]]
             /\ clock' = IF k < Len(Onsets) THEN clock + (Onsets[k + 1] - u) * Period(u) ELSE clock
        /\ k' = k + 1 /\ UNCHANGED sc
PlayNext == Play
Done == k > Len(Onsets)

(* ---- properties ---- *)
Reached(j) == out[j] # Unset
(* the first onset is played at 0 and score order is kept *)
StartsAtZero == \A j \in 1..N : (Reached(j) /\ sc.notes[j].on = Onsets[1]) => out[j].on = 0
OrderKept == \A i, j \in 1..N : (Reached(i) /\ Reached(j)) =>
                /\ (sc.notes[i].on < sc.notes[j].on => out[i].on < out[j].on)
                /\ (sc.notes[i].on = sc.notes[j].on => out[i].on = out[j].on)
(* the tempo can be read back from consecutive onsets *)
TempoRecovered == Done => \A m \in 1..(Len(Onsets) - 1) :
                     \A i, j \in 1..N : (sc.notes[i].on = Onsets[m] /\ sc.notes[j].on = Onsets[m + 1])
                                          => out[j].on - out[i].on = (Onsets[m + 1] - Onsets[m]) * Period(Onsets[m])
(* a note that lasts exactly until the next onset is played exactly until the next onset (no gap, no overlap) *)
LegatoKept == Done => \A i, j \in 1..N :
                 (\E m \in 1..(Len(Onsets) - 1) : sc.notes[i].on = Onsets[m] /\ sc.notes[j].on = Onsets[m + 1]
                                                    /\ sc.notes[i].on + sc.notes[i].dur = sc.notes[j].on)
                   => out[i].on + out[i].dur = out[j].on
(* under one tempo everything is proportional *)
ConstantTempoIsLinear == (Done /\ \A a, b \in 1..Len(sc.tempo) : sc.tempo[a].v = sc.tempo[b].v) =>
                            \A j \in 1..N : /\ out[j].on = (sc.notes[j].on - Onsets[1]) * sc.tempo[1].v
                                            /\ out[j].dur = sc.notes[j].dur * sc.tempo[1].v
VelocitiesFromRows == \A j \in 1..N : Reached(j) => \E r \in 1..Len(sc.vel) : out[j].vel = sc.vel[r].v
=============================================================================
