------------------------------- MODULE Tuplets -------------------------------
(***************************************************************************)
(* Growth beyond the listed properties: find_tuplets (run by the MIDI      *)
(* score importer).  A group is a run of notes without a notated value     *)
(* that follow each other without a hole.  For each tuplet size (9, 7, 5,  *)
(* 3 notes in the time of 2) a window slides over the group: when the      *)
(* notes under it are equally long and half of their total length is a     *)
(* plain note value, they become a tuplet and the window jumps behind      *)
(* them, otherwise it moves on by one note.  The machine is that scan;     *)
(* lengths are in divisions (Divs per quarter).                            *)
(***************************************************************************)
EXTENDS Integers, Sequences, FiniteSets

CONSTANT Divs
Sizes == <<9, 7, 5, 3>>
Pow2(k) == IF k = 0 THEN 1 ELSE IF k = 1 THEN 2 ELSE IF k = 2 THEN 4 ELSE IF k = 3 THEN 8 ELSE IF k = 4 THEN 16 ELSE 32
(* a plain (undotted) note value: a quarter times or divided by a power of two *)
Plain(x) == x > 0 /\ \E k \in 0..5 : x = Divs * Pow2(k) \/ x * Pow2(k) = Divs

VARIABLES grp,      \* the group: sequence of lengths
          si,       \* index into Sizes
          pos,      \* window start (1-based)
          tups      \* tuplets found: set of [from, n]
tvars == <<grp, si, pos, tups>>
N == Len(grp)
Size == Sizes[si]
Window == SubSeq(grp, pos, pos + Size - 1)
Equal(w) == \A a, b \in 1..Len(w) : w[a] = w[b]
Total(w) == Len(w) * w[1]
Fits == pos + Size - 1 <= N

TInit(g) == grp = g /\ si = 1 /\ pos = 1 /\ tups = {}
Slide == /\ si <= 4 /\ Fits
         /\ IF Equal(Window) /\ Total(Window) % 2 = 0 /\ Plain(Total(Window) \div 2)
            THEN tups' = tups \cup {[from |-> pos, n |-> Size]} /\ pos' = pos + Size
            ELSE UNCHANGED tups /\ pos' = pos + 1
         /\ UNCHANGED <<grp, si>>
NextSize == si <= 4 /\ ~Fits /\ si' = si + 1 /\ pos' = 1 /\ UNCHANGED <<grp, tups>>
TNext == Slide \/ NextSize
Done == si = 5

Members(t) == t.from..(t.from + t.n - 1)
TupletsDisjoint == \A a, b \in tups : a # b => Members(a) \cap Members(b) = {}
MembersEquallyLong == \A t \in tups : \A a, b \in Members(t) : grp[a] = grp[b]
(* n notes in the time of two plain values *)
InTheTimeOfTwo == \A t \in tups : Plain((t.n * grp[t.from]) \div 2) /\ 2 * ((t.n * grp[t.from]) \div 2) = t.n * grp[t.from]
(* nothing that qualifies is left over: when done, no window of a size, free of tuplet notes, still qualifies *)
Taken == UNION {Members(t) : t \in tups}
NothingLeftOver == Done => \A k \in 1..4 : \A p \in 1..N :
                      LET w == SubSeq(grp, p, p + Sizes[k] - 1) IN
                      (p + Sizes[k] - 1 <= N /\ (p..(p + Sizes[k] - 1)) \cap Taken = {})
                         => ~(Equal(w) /\ Total(w) % 2 = 0 /\ Plain(Total(w) \div 2))
=============================================================================
