---------------------------- MODULE MusicXMLTrace ----------------------------
(***************************************************************************)
(* Trace validation for C03, batch form.  TRACE_FILE holds a JSON array;   *)
(* every element has the event sequence read (by the harness, with an XML  *)
(* parser only) from one <part> of a file written by save_musicxml, and    *)
(* the abstract content of the score part that was saved (the shape        *)
(* NoteArray.tla reads).  Each event must be a step of the MusicXMLStream  *)
(* action it names; the invariants of the format are checked in every      *)
(* state; when the document is consumed, what it denotes must be the part: *)
(* the same sounding notes (tie chains merged) at the same positions in    *)
(* quarters with the same spelling, every written note and rest with its   *)
(* voice and staff, measures with the same extent, signatures and clefs    *)
(* taking effect at the same positions.  Verdicts are total.               *)
(***************************************************************************)
EXTENDS MusicXMLStream, NoteArray, Json, IOUtils, TLCExt, SequencesExt

Batch == TLCEval(JsonDeserialize(IOEnv.TRACE_FILE))
VARIABLES tid, l
tvars == <<pos, divs, mstart, maxpos, lastOn, open, notes, measures, attrs, ropen, rclosed, bad, tid, l>>
Events == Batch[tid].events
Ev == Events[l]
TInit == SInit /\ tid \in 1..Len(Batch) /\ l = 1
TNext == /\ l <= Len(Events)
         /\ l' = l + 1 /\ tid' = tid
         /\ \/ (Ev.ev = "measure" /\ StartMeasure(Ev))
            \/ (Ev.ev = "endmeasure" /\ EndMeasure)
            \/ (Ev.ev = "divisions" /\ Divisions(Ev))
            \/ (Ev.ev = "note" /\ Note(Ev))
            \/ (Ev.ev = "backup" /\ Backup(Ev))
            \/ (Ev.ev = "forward" /\ Forward(Ev))
            \/ (Ev.ev = "attr" /\ Attr(Ev))
            \/ (Ev.ev = "direction" /\ Direction(Ev))
TSpec == TInit /\ [][TNext]_tvars

(* ---- the part that was saved ---- *)
PCfg == LET r == Batch[tid].part.cfg IN
        [T |-> r.T, qtab |-> ToSet(r.qtab), ts |-> ToSet(r.ts), ks |-> ToSet(r.ks), clefs |-> ToSet(r.clefs),
         measures |-> ToSet(r.measures), musical |-> r.musical, nstaves |-> r.nstaves]
PNotes == Batch[tid].part.notes
Done == l = Len(Events) + 1
FinalClauses ==
   LET qs == MapSeq(PCfg, "quarter")
       QOf(t) == RSub(qs[t + 1], qs[1])
       expSounding == {[id |-> PNotes[k].id, on |-> QOf(PNotes[k].on),
                        dur |-> RSub(QOf(PNotes[k].on + DurTied(PNotes, k)), QOf(PNotes[k].on)),
                        step |-> PNotes[k].step, alter |-> PNotes[k].alter, octave |-> PNotes[k].octave, grace |-> PNotes[k].grace]
                       : k \in Heads(PNotes, 0)}
       expWritten == {<<PNotes[k].id, QOf(PNotes[k].on), RSub(QOf(PNotes[k].on + PNotes[k].dur), QOf(PNotes[k].on)), PNotes[k].rest,
                        PNotes[k].voice, PNotes[k].staff>> : k \in 1..Len(PNotes)}
       gotWritten == {<<notes[i].id, notes[i].on, notes[i].dur, notes[i].rest,
                        IF \E k \in 1..Len(PNotes) : PNotes[k].id = notes[i].id /\ PNotes[k].voice = 0 THEN 0 ELSE notes[i].voice,
                        IF \E k \in 1..Len(PNotes) : PNotes[k].id = notes[i].id /\ PNotes[k].staff = 0 THEN 0 ELSE notes[i].staff>>
                      : i \in 1..Len(notes)}
       at(kind) == {<<attrs[i].at, attrs[i].a, attrs[i].b, attrs[i].c>> : i \in {j \in 1..Len(attrs) : attrs[j].kind = kind}}
   IN [format_rules     |-> bad = {},
       open_ties        |-> Len(open) = 0,
       open_ranges      |-> Len(ropen) = 0,
       slurs            |-> {<<rclosed[i].fromid, rclosed[i].toid>> : i \in {j \in 1..Len(rclosed) : rclosed[j].kind = "slur"}}
                              = {<<x[1], x[2]>> : x \in ToSet(Batch[tid].part.slurs)},
       tuplets          |-> {<<rclosed[i].fromid, rclosed[i].toid>> : i \in {j \in 1..Len(rclosed) : rclosed[j].kind = "tuplet"}}
                              = {<<x[1], x[2]>> : x \in ToSet(Batch[tid].part.tuplets)},
       spans            |-> {<<rclosed[i].kind, rclosed[i].from, rclosed[i].to>> : i \in {j \in 1..Len(rclosed) : rclosed[j].kind \in {"wedge", "dashes", "pedal"}}}
                              = {<<x[1], QOf(x[2]), QOf(x[3])>> : x \in ToSet(Batch[tid].part.spans)},
       sounding_notes   |-> Sounding = expSounding,
       written_notes    |-> gotWritten = expWritten,
       one_element_per_note |-> Len(notes) = Len(PNotes),
       measures         |-> {<<measures[i].start, measures[i].end>> : i \in 1..Len(measures)}
                              = {<<QOf(m[1]), QOf(m[2])>> : m \in PCfg.measures} /\ Len(measures) = Cardinality(PCfg.measures),
       time_signatures  |-> at("time") = {<<QOf(e[1]), e[2], e[3], 0>> : e \in PCfg.ts},
       key_signatures   |-> at("key") = {<<QOf(e[1]), e[2], 0, 0>> : e \in PCfg.ks},
       clefs            |-> at("clef") = {<<QOf(e[1]), e[2], e[3], e[4]>> : e \in PCfg.clefs},
       \* every staff a note is written on has been declared
       staves_declared  |-> \A i \in 1..Len(notes) : \A j \in 1..Len(attrs) : attrs[j].kind = "staves" => notes[i].staff <= attrs[j].a]
Failing(rec) == {c \in DOMAIN rec : ~rec[c]}
Report == /\ (Done => PrintT(<<"VERDICT", Batch[tid].cid, Failing(FinalClauses), bad>>))
          /\ ((~Done /\ ~ENABLED TNext) => PrintT(<<"STUCK", Batch[tid].cid, l>>))
TraceCursorInMeasure == CursorInMeasure
TraceMeasuresTile == MeasuresTile
=============================================================================
