------------------------------- MODULE MeiTrace -------------------------------
(* Batch interpretation of MEI documents (C19): CASE_FILE holds a JSON array of documents as element events (produced by
   the harness' generator, which also serialises them to XML); every event must be a step of the MeiLayer action of its
   kind; when a document is consumed TLC prints what it denotes. *)
EXTENDS MeiLayer, Json, IOUtils, TLCExt, SequencesExt
Batch == TLCEval(JsonDeserialize(IOEnv.CASE_FILE))
VARIABLES tid, l
tvars == <<mpos, mbar, mfar, mtup, mstaff, mlayer, meter, mnotes, mties, mopen, mmeasures, mdefs, mrep, mend, mright, mbad, tid, l>>
Doc == Batch[tid].events
E == Doc[l]
TInit == tid \in 1..Len(Batch) /\ l = 1 /\ MInit
TNext == /\ l <= Len(Doc) /\ l' = l + 1 /\ tid' = tid
         /\ \/ (E.ev = "staffdef" /\ StaffDef(E))
            \/ (E.ev = "meter" /\ Meter(E))
            \/ (E.ev = "measure" /\ Measure(E))
            \/ (E.ev = "endmeasure" /\ EndMeasureM)
            \/ (E.ev = "staff" /\ Staff(E))
            \/ (E.ev = "layer" /\ Layer(E))
            \/ (E.ev = "endlayer" /\ EndLayer)
            \/ (E.ev = "tuplet_start" /\ TupletStart(E))
            \/ (E.ev = "tuplet_end" /\ TupletEnd)
            \/ (E.ev \in {"note", "chord"} /\ Sound(E))
            \/ (E.ev = "rest" /\ Silent(E, TRUE))
            \/ (E.ev = "space" /\ Silent(E, FALSE))
            \/ (E.ev = "mrest" /\ MRest(E))
            \/ (E.ev = "tie" /\ TieEl(E))
            \/ (E.ev = "ending_start" /\ EndingStart(E))
            \/ (E.ev = "ending_end" /\ EndingEnd)
TSpec == TInit /\ [][TNext]_tvars
Done == l = Len(Doc) + 1
Report == /\ (Done => PrintT(ToJson([cid |-> Batch[tid].cid, sounding |-> SetToSeq(MSounding), rests |-> SetToSeq(MRests), measures |-> mmeasures,
                                      defs |-> mdefs, repeats |-> mrep, endings |-> mend, dens |-> SetToSeq(MDens),
                                      bad |-> SetToSeq(mbad \cup (IF MCursorInMeasure THEN {} ELSE {"cursor_outside_its_measure"}) \cup (IF MMeasuresTile THEN {} ELSE {"measures_do_not_tile"})),
                                      ties_ok |-> MTiesJoinEqualPitches])))
          /\ ((~Done /\ ~ENABLED TNext) => PrintT(<<"STUCK", Batch[tid].cid, l>>))
InvCursor == MCursorInMeasure
InvTile == MMeasuresTile
=============================================================================
