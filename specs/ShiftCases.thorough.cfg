SPECIFICATION Spec
CONSTANT MaxT = 4
CONSTANT MaxCtrl = 3
CONSTRAINT Report
INVARIANT ControlsPreserved
INVARIANT ControlsOrderedFromZero
INVARIANT AtMostOneControlAdded
INVARIANT FirstNoteAtZero
INVARIANT DurationsKept
INVARIANT ProgramsFromZero
INVARIANT Idempotent
INVARIANT PartsStayTogether
CHECK_DEADLOCK FALSE
