----------------------------- MODULE Containers -----------------------------
(***************************************************************************)
(* C20 (container protocol): a score / performance is a sequence of NParts *)
(* parts.  iter() creates an independent cursor, next() on an iterator     *)
(* yields the part under its own cursor and advances only that cursor;     *)
(* len and indexing are read-only.  Any interleaving of iterators is a     *)
(* behaviour; every iterator yields every part exactly once, in order.     *)
(***************************************************************************)
EXTENDS Integers, Sequences, FiniteSets, TLC, Json

CONSTANTS NParts, Iters
VARIABLES cur,      \* [Iters -> -1 (not created) | 0..NParts (position) | NParts+1 (exhausted and reported)]
          yielded,  \* [Iters -> sequence of part indices yielded so far]
          last      \* label of the last action with its observable result
cvars == <<cur, yielded>>

Init == cur = [i \in Iters |-> -1] /\ yielded = [i \in Iters |-> <<>>] /\ last = <<"init">>
\* it = iter(container)
Iter(i) == /\ cur' = [cur EXCEPT ![i] = 0] /\ yielded' = [yielded EXCEPT ![i] = <<>>]
           /\ last' = <<"iter", i>>
\* next(it): a part, or StopIteration (index -1)
NextOf(i) == /\ cur[i] >= 0 /\ cur[i] <= NParts
             /\ IF cur[i] < NParts
                THEN /\ yielded' = [yielded EXCEPT ![i] = Append(@, cur[i])]
                     /\ cur' = [cur EXCEPT ![i] = @ + 1]
                     /\ last' = <<"next", i, cur[i]>>
                ELSE /\ UNCHANGED yielded /\ cur' = [cur EXCEPT ![i] = NParts + 1]
                     /\ last' = <<"next", i, -1>>
\* len(container), container[k]: read-only
Len_ == UNCHANGED cvars /\ last' = <<"len", NParts>>
GetItem(k) == UNCHANGED cvars /\ last' = <<"getitem", k, k>>
Next == \/ \E i \in Iters : Iter(i) \/ NextOf(i)
        \/ Len_ \/ \E k \in 0..(NParts - 1) : GetItem(k)
Spec == Init /\ [][Next]_<<cvars, last>>

\* every iterator yields the parts in order, each at most once, all of them when exhausted
YieldsInOrder == \A i \in Iters : yielded[i] = [k \in 1..Len(yielded[i]) |-> k - 1]
ExhaustedMeansAll == \A i \in Iters : cur[i] >= NParts => Len(yielded[i]) = NParts
IndependentCursors == [][\A i \in Iters : (last'[1] \in {"iter", "next"} /\ last'[2] # i) => cur'[i] = cur[i]]_<<cvars, last>>
ReadOnlyLenGetItem == [][last'[1] \in {"len", "getitem"} => UNCHANGED cvars]_<<cvars, last>>
\* the cursor/yield core without the observation variable; its inductive invariant is discharged by Apalache
\* (ContainersInd.tla), TLC checks here that every behaviour of this module is a behaviour of that core
Ind == INSTANCE ContainersInd
RefinesInd == Ind!Spec
View == cvars
EmitEdge == PrintT(ToJson([a |-> last', lvl |-> TLCGet("level"), s |-> [cur |-> cur], t |-> [cur |-> cur']]))
=============================================================================
