------------------------------- MODULE Pedal -------------------------------
(***************************************************************************)
(* C14: performed notes and the sustain pedal, as a timed machine over an  *)
(* integer time grid.  A scenario is a list of notes (pitch, on, off) and  *)
(* pedal events (time, value) and a threshold.  The machine sweeps time;   *)
(* simultaneous events are processed in every possible order (the          *)
(* statement does not order them), so a scenario may have several          *)
(* acceptable outcomes.  A key is down from its strike to its release; a   *)
(* note released while the pedal is above the threshold keeps sounding     *)
(* until the pedal comes down to the threshold or below, or the same pitch *)
(* is struck again; a note still sustained when the scenario ends has no   *)
(* prescribed end (any value not before its release is acceptable).        *)
(***************************************************************************)
EXTENDS Integers, Sequences, FiniteSets, TLC

VARIABLES sc,       \* the scenario: [notes |-> <<[p, on, off]..>>, peds |-> <<[t, v]..>>, th |-> 0..127, ...]
          t,        \* current time
          pedal,    \* current pedal value
          st,       \* per note: "idle", "held", "sustained", "ended"
          soff,     \* per note: sounding end (-1 while unknown)
          donev     \* events of the current time already processed

mvars == <<sc, t, pedal, st, soff, donev>>
N == Len(sc.notes)
Horizon == LET ts == {sc.notes[k].off : k \in 1..N} \cup {sc.peds[i].t : i \in 1..Len(sc.peds)} \cup {0}
           IN CHOOSE x \in ts : \A y \in ts : y <= x

EventsAt(u) == {<<"ped", i>> : i \in {j \in 1..Len(sc.peds) : sc.peds[j].t = u}}
                 \cup {<<"on", k>> : k \in {j \in 1..N : sc.notes[j].on = u}}
                 \cup {<<"off", k>> : k \in {j \in 1..N : sc.notes[j].off = u}}

MachineInit(s) == /\ sc = s /\ t = 0 /\ pedal = 0
                  /\ st = [k \in 1..Len(s.notes) |-> "idle"]
                  /\ soff = [k \in 1..Len(s.notes) |-> -1]
                  /\ donev = {}

PedalChange(i) ==
   LET v == sc.peds[i].v IN
   /\ pedal' = v
   /\ IF v <= sc.th
      THEN /\ st' = [k \in 1..N |-> IF st[k] = "sustained" THEN "ended" ELSE st[k]]
           /\ soff' = [k \in 1..N |-> IF st[k] = "sustained" THEN t ELSE soff[k]]
      ELSE UNCHANGED <<st, soff>>
NoteOn(k) ==
   /\ st' = [j \in 1..N |-> IF j = k THEN "held"
                            ELSE IF st[j] = "sustained" /\ sc.notes[j].p = sc.notes[k].p THEN "ended" ELSE st[j]]
   /\ soff' = [j \in 1..N |-> IF j # k /\ st[j] = "sustained" /\ sc.notes[j].p = sc.notes[k].p THEN t ELSE soff[j]]
   /\ UNCHANGED pedal
NoteOff(k) ==
   /\ IF pedal > sc.th
      THEN st' = [st EXCEPT ![k] = "sustained"] /\ UNCHANGED soff
      ELSE st' = [st EXCEPT ![k] = "ended"] /\ soff' = [soff EXCEPT ![k] = t]
   /\ UNCHANGED pedal

Process(e) ==
   /\ e \in EventsAt(t) \ donev
   /\ (e[1] = "off" => <<"on", e[2]>> \notin (EventsAt(t) \ donev))     \* a note is struck before it is released
   /\ CASE e[1] = "ped" -> PedalChange(e[2])
        [] e[1] = "on" -> NoteOn(e[2])
        [] e[1] = "off" -> NoteOff(e[2])
   /\ donev' = donev \cup {e}
   /\ UNCHANGED <<sc, t>>
Tick == /\ EventsAt(t) \subseteq donev
        /\ t <= Horizon
        /\ t' = t + 1 /\ donev' = {}
        /\ UNCHANGED <<sc, pedal, st, soff>>
MachineNext == Tick \/ \E e \in EventsAt(t) : Process(e)
Finished == t > Horizon

(* ---- properties of the machine ---- *)
NeverBeforeRelease == \A k \in 1..N : st[k] = "ended" => soff[k] >= sc.notes[k].off
EndedOnlyAfterStrike == \A k \in 1..N : st[k] \in {"sustained", "ended"} => t >= sc.notes[k].off
\* when no pedal event exists or the threshold is 127 nothing is ever sustained
DryWhenNoPedal == (Len(sc.peds) = 0 \/ sc.th >= 127) => \A k \in 1..N : st[k] # "sustained" /\ (st[k] = "ended" => soff[k] = sc.notes[k].off)
\* an outcome: per note either its end, or -1 when the machine leaves it sustained for ever
Outcome == [k \in 1..N |-> IF st[k] = "ended" THEN soff[k] ELSE -1]
\* does an observed list of sounding ends agree with this finished run?
\* (a strike of the same pitch at the very moment of the release may also be read as ending the note
\*  there: the statement says "struck again" without ordering simultaneous events)
StruckAtRelease(k) == \E m \in 1..N : m # k /\ sc.notes[m].p = sc.notes[k].p /\ sc.notes[m].on = sc.notes[k].off
Agrees(obs) == \A k \in 1..N : \/ (IF st[k] = "ended" THEN obs[k] = soff[k] ELSE obs[k] >= sc.notes[k].off)
                                \/ (obs[k] = sc.notes[k].off /\ StruckAtRelease(k))
=============================================================================
