SPECIFICATION Spec
CONSTANT Source = "file"
CONSTRAINT Emit
INVARIANT InvMonotone
INVARIANT InvZero
INVARIANT InvSegmentLaw
INVARIANT InvMeasures
INVARIANT InvMetrical
CHECK_DEADLOCK FALSE
