SPECIFICATION Spec
CONSTANT Source = "file"
CONSTRAINT Emit
INVARIANT InvKeeps
INVARIANT InvNothingElse
INVARIANT InvOrder
INVARIANT InvIdem
INVARIANT InvNoDup
INVARIANT InvResolved
CHECK_DEADLOCK FALSE
