------------------------------- MODULE MatchFile -------------------------------
(***************************************************************************)
(* C08: a match file as a sequence of note lines                           *)
(*   [kind, sid, pid, tid, tied, idx]                                      *)
(* kind in {"match","deletion","insertion","ornament"}; tid is the index   *)
(* of the first line with the same text (a line whose text occurred before *)
(* is an exact duplicate); tied marks a deletion of a tied-over note       *)
(* (leftOutTied), which is score information and not an alignment entry.   *)
(* Loading is three steps, as in importmatch.load_matchfile:               *)
(*   Dedup    exact duplicate lines are read once (the first is kept);     *)
(*   Resolve  the documented resolution of duplicate ids: deletions whose  *)
(*            score id occurs in several score-note lines are dropped,     *)
(*            insertions whose performance id occurs in several            *)
(*            performed-note lines are dropped, matches and ornaments are  *)
(*            kept;                                                        *)
(*   AlignmentOf  one entry per remaining note line, in file order.        *)
(* Nothing else is lost, duplicated or reordered.                          *)
(***************************************************************************)
EXTENDS Integers, Sequences, FiniteSets, TLC

HasSnote(l) == l.kind \in {"match", "deletion"}
HasNote(l) == l.kind \in {"match", "insertion", "ornament"}
Indexed(ls) == [i \in 1..Len(ls) |-> [ls[i] EXCEPT !.idx = i]]
Dedup(ls) == SelectSeq(Indexed(ls), LAMBDA l : l.tid = l.idx)
DupS(d) == LET pos == {j \in 1..Len(d) : HasSnote(d[j])} IN
           {s \in {d[j].sid : j \in pos} : Cardinality({j \in pos : d[j].sid = s}) > 1}
DupP(d) == LET pos == {j \in 1..Len(d) : HasNote(d[j])} IN
           {p \in {d[j].pid : j \in pos} : Cardinality({j \in pos : d[j].pid = p}) > 1}
DroppedIdx(d) == LET ds == DupS(d)
                     dp == DupP(d) IN
                 {d[j].idx : j \in {k \in 1..Len(d) : \/ (d[k].kind = "deletion" /\ d[k].sid \in ds)
                                                     \/ (d[k].kind = "insertion" /\ d[k].pid \in dp)}}
Resolve(d) == LET dr == DroppedIdx(d) IN SelectSeq(d, LAMBDA l : l.idx \notin dr)
Load(ls) == Resolve(Dedup(ls))
Entry(l) ==
   CASE l.kind = "match" -> [label |-> "match", score_id |-> l.sid, performance_id |-> l.pid]
     [] l.kind = "deletion" -> [label |-> "deletion", score_id |-> l.sid, performance_id |-> ""]
     [] l.kind = "insertion" -> [label |-> "insertion", score_id |-> "", performance_id |-> l.pid]
     [] l.kind = "ornament" -> [label |-> "ornament", score_id |-> l.sid, performance_id |-> l.pid]
AlignmentOf(v) == LET w == SelectSeq(v, LAMBDA l : ~(l.kind = "deletion" /\ l.tied)) IN [i \in 1..Len(w) |-> Entry(w[i])]
(* ---- properties of the loader, checked on every enumerated file ---- *)
Kept(ls) == LET v == Load(ls) IN {v[i].idx : i \in 1..Len(v)}
KeepsMatches(ls) == LET k == Kept(ls) IN \A i \in 1..Len(ls) : (ls[i].kind \in {"match", "ornament"} /\ ls[i].tid = i) => i \in k
NothingElseLost(ls) == LET k == Kept(ls) IN \A i \in (1..Len(ls)) \ k : ls[i].tid # i \/ ls[i].kind \in {"deletion", "insertion"}
OrderKept(ls) == LET v == Load(ls) IN \A a \in 1..(Len(v) - 1) : v[a].idx < v[a + 1].idx
NoDuplicates(ls) == LET v == Load(ls) IN Cardinality({v[a].idx : a \in 1..Len(v)}) = Len(v)
(* after loading, an insertion is the only line with its performed note, a deletion the only line with its score note *)
ConflictsResolved(ls) == LET v == Load(ls)
                             withNote == {b \in 1..Len(v) : HasNote(v[b])}
                             withSnote == {b \in 1..Len(v) : HasSnote(v[b])} IN
   \A a \in 1..Len(v) : /\ (v[a].kind = "insertion" => Cardinality({b \in withNote : v[b].pid = v[a].pid}) = 1)
                         /\ (v[a].kind = "deletion" => Cardinality({b \in withSnote : v[b].sid = v[a].sid}) = 1)
Idempotent(ls) == LET once == Load(ls)
                      again == Load([i \in 1..Len(once) |-> [once[i] EXCEPT !.tid = i]]) IN Len(again) = Len(once)
=============================================================================
