---------------------------- MODULE BeamingCases ----------------------------
(* Scenario source for Beaming.tla: every voice of up to MaxNotes notes (lengths 1-4 sixteenths, optional gaps of one
   or two sixteenths) within Span sixteenths of 4/4.  Finished scans are printed and replayed into infer_beaming
   (harness/checks/g07.py). *)
EXTENDS Beaming, Json, IOUtils, TLC

CONSTANTS Span, MaxNotes
RECURSIVE Voices(_, _)
\* all voices with at most n further notes, the next note starting at or after u
Voices(u, n) == IF n = 0 THEN {<<>>}
                ELSE {<<>>} \cup UNION {{<<[on |-> a, dur |-> d]>> \o v : v \in Voices(a + d, n - 1)} :
                                           a \in {x \in u..(u + 2) : x < Span}, d \in 1..4}
Init == \E v \in Voices(0, MaxNotes) : v # <<>> /\ ScanInit(v)
Next == ScanNext
Spec == Init /\ [][Next]_bvars
Report == IF Done THEN PrintT(ToJson([notes |-> sc, beams |-> beams])) ELSE TRUE
=============================================================================
