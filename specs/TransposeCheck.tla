--------------------------- MODULE TransposeCheck ---------------------------
(***************************************************************************)
(* C16, frame conditions of the Transpose transformer: validation of       *)
(* recorded calls of partitura.utils.music.transpose.  Each record holds   *)
(* the projected notes of the argument before the call, of the argument    *)
(* after the call, and of the result.  The specification: the result is    *)
(* the argument with step/alter/octave of every pitched note replaced by   *)
(* Pitch!Transpose(...) and nothing else; the argument is unchanged; the   *)
(* result shares no object with the argument.                              *)
(***************************************************************************)
EXTENDS Pitch, Json, IOUtils, TLCExt, SequencesExt

Batch == TLCEval(JsonDeserialize(IOEnv.TRACE_FILE))
VARIABLE i
\* a note record: [pitched, step, alter, octave, rest] where rest is a digest of everything else
Moved(n, iv, dir) ==
   IF n.pitched = 1
   THEN LET r == Transpose(n.step, n.alter, n.octave, iv[1], iv[2], dir)
        IN [n EXCEPT !.step = r[1], !.alter = r[2], !.octave = r[3]]
   ELSE n
Clauses(rec) ==
   [argument_unchanged  |-> rec.before = rec.arg_after /\ rec.arg_digest_before = rec.arg_digest_after,
    same_number_of_objects |-> Len(rec.result) = Len(rec.before),
    every_note_moved    |-> Len(rec.result) = Len(rec.before) =>
                               \A k \in 1..Len(rec.before) :
                                  LET m == Moved(rec.before[k], rec.iv, rec.dir)
                                  IN <<rec.result[k].step, rec.result[k].alter, rec.result[k].octave>> = <<m.step, m.alter, m.octave>>,
    nothing_else_changed |-> Len(rec.result) = Len(rec.before) =>
                               \A k \in 1..Len(rec.before) : rec.result[k].rest = rec.before[k].rest
                                                               /\ rec.result[k].pitched = rec.before[k].pitched,
    other_elements_unchanged |-> rec.others_before = rec.others_result,
    new_object_graph    |-> rec.shared_objects = 0,
    no_exception        |-> rec.err = ""]
Failing(rec) == {c \in DOMAIN Clauses(rec) : ~Clauses(rec)[c]}
Init == i \in 1..Len(Batch)
Next == UNCHANGED i
Spec == Init /\ [][Next]_i
Report == PrintT(<<"VERDICT", i, Failing(Batch[i])>>)
=============================================================================
