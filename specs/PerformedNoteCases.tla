------------------------- MODULE PerformedNoteCases -------------------------
(* Behaviours of PerformedNote.tla of length Depth, printed with the initial times, the assignments with their outcome
   and the final times, replayed into partitura.performance.PerformedNote (harness/checks/g12.py). *)
EXTENDS PerformedNote, Json, IOUtils, TLC
VARIABLE init
CInit == PInit /\ init = <<on, off, snd>>
CNext == PNext /\ UNCHANGED init
CSpec == CInit /\ [][CNext]_<<pvars, init>>
Report == IF Len(hist) = Depth THEN PrintT(ToJson([init |-> init, hist |-> hist, final |-> <<on, off, snd>>])) ELSE TRUE
=============================================================================
