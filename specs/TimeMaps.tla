------------------------------ MODULE TimeMaps ------------------------------
(***************************************************************************)
(* The derived time views of a Part (C02, C10, columns of C05) as exact    *)
(* functions of its abstract content.                                      *)
(*                                                                         *)
(* A configuration p is a record                                           *)
(*   T        last time point (the first one is 0)                         *)
(*   qtab     set of <<t, q>>           quarter-duration table             *)
(*   ts       set of <<t, beats, beat_type, musical_beats>>                *)
(*   ks       set of <<t, fifths, modeint>>                                *)
(*   clefs    set of <<t, staff, sign, line, octave_change>>               *)
(*   measures set of <<start, end, number>>                                *)
(*   musical  0/1 (beat mode)     nstaves                                  *)
(***************************************************************************)
EXTENDS Rat, FiniteSets, TLC

MaxOf(S) == CHOOSE x \in S : \A y \in S : y <= x
MinOf(S) == CHOOSE x \in S : \A y \in S : x <= y

(* ---- "what is in force at t": latest element starting at or before t, the first one before it ---- *)
InForce(S, t) ==       \* S: non-empty set of tuples whose first component is a time, at most one per time
   LET before == {e \in S : e[1] <= t}
   IN IF before # {} THEN CHOOSE e \in before : \A f \in before : f[1] <= e[1]
      ELSE CHOOSE e \in S : \A f \in S : e[1] <= f[1]
QAt(p, t) == InForce(p.qtab, t)[2]
DefaultTS == <<0, 4, 4, 4>>
TimeSigAt(p, t) == IF p.ts = {} THEN DefaultTS ELSE InForce(p.ts, t)
\* a key signature without mode counts as major (mode code 0 = missing -> 1)
KeySigAt(p, t) == IF p.ks = {} THEN <<0, 0, 1>>
                  ELSE LET e == InForce(p.ks, t) IN <<e[1], e[2], IF e[3] = 0 THEN 1 ELSE e[3]>>
NoneClef == 6
ClefAt(p, staff, t) == LET S == {c \in p.clefs : c[2] = staff}
                       IN IF S = {} THEN <<0, staff, NoneClef, 0, 0>> ELSE InForce(S, t)

(* ---- quarter and beat maps ---- *)
\* beats per quarter in force at u: beat_type/4 (times musical_beats/beats in musical mode); 1 before any signature
BeatFactor(p, u) ==
   LET S == {e \in p.ts : e[1] <= u}
   IN IF S = {} THEN <<1, 1>>
      ELSE LET e == InForce(p.ts, u)
           IN IF p.musical = 1 THEN RMul(R(e[3], 4), R(e[4], e[2])) ELSE R(e[3], 4)
UnitLen(p, u, kind) ==        \* length of the division [u, u+1) in quarters / beats
   IF kind = "quarter" THEN R(1, QAt(p, u)) ELSE RMul(R(1, QAt(p, u)), BeatFactor(p, u))
\* cumulative lengths <<len of [0,0), len of [0,1), ..., len of [0,T)>> built in one pass
RECURSIVE Cum(_, _, _, _)
Cum(p, kind, t, acc) == IF t > p.T THEN acc
                        ELSE Cum(p, kind, t + 1, Append(acc, RAdd(acc[Len(acc)], UnitLen(p, t - 1, kind))))
RawSeq(p, kind) == Cum(p, kind, 1, << <<0, 1>> >>)
\* pickup: a measure and a time signature start at the first point and the measure is shorter than a bar
FirstMeasure(p) == {m \in p.measures : m[1] = 0}
FirstTS(p) == {e \in p.ts : e[1] = 0}
NormalBar(e, p, kind) == IF kind = "quarter" THEN R(4 * e[2], e[3])
                         ELSE IF p.musical = 1 THEN RInt(e[4]) ELSE RInt(e[2])
ShiftOf(p, raw, kind) ==
   IF FirstMeasure(p) = {} \/ FirstTS(p) = {} THEN <<0, 1>>
   ELSE LET m == CHOOSE x \in FirstMeasure(p) : TRUE
            e == CHOOSE x \in FirstTS(p) : TRUE
            actual == raw[m[2] + 1]
        IN IF RLess(actual, NormalBar(e, p, kind)) THEN actual ELSE <<0, 1>>
PickupShift(p, kind) == ShiftOf(p, RawSeq(p, kind), kind)
\* the map as a sequence indexed by t + 1, t = 0..T
MapSeq(p, kind) == LET raw == RawSeq(p, kind)
                       shift == ShiftOf(p, raw, kind)
                   IN [t \in 1..(p.T + 1) |-> RSub(raw[t], shift)]
QuarterMap(p, t) == MapSeq(p, "quarter")[t + 1]
BeatMap(p, t) == MapSeq(p, "beat")[t + 1]

(* ---- measures ---- *)
\* length in divisions of a full bar of the signature and divisions in force at time 0
FullBar0(p) == LET e == TimeSigAt(p, 0) IN R(e[2] * QAt(p, 0) * 4, e[3])
MeasureIn(p, t) == InForce(p.measures, t)            \* latest measure starting at or before t
FirstM(p) == CHOOSE m \in p.measures : \A n \in p.measures : m[1] <= n[1]
\* documented anacrusis correction: a short first measure is treated as ending a full bar
CorrectedStart(p, m) ==
   IF m = FirstM(p) /\ RLess(RInt(m[2] - m[1]), FullBar0(p)) /\ IsInt(FullBar0(p))
   THEN m[2] - Floor(FullBar0(p)) ELSE m[1]
MeasureMap(p, t) == LET m == MeasureIn(p, t) IN <<CorrectedStart(p, m), m[2]>>
MeasureNumberMap(p, t) == MeasureIn(p, t)[3]
MetricalPos(p, t) == LET mm == MeasureMap(p, t) IN <<t - mm[1], mm[2] - mm[1]>>
Contiguous(p) == \A m \in p.measures : m[2] = p.T \/ \E n \in p.measures : n[1] = m[2]
\* the anacrusis correction refers to the signature in force at 0: defined when no signature exists
\* (default 4/4) or one starts at 0
MeasureMapsDefined(p) == p.ts = {} \/ \E e \in p.ts : e[1] = 0
InsideSomeMeasure(p, t) == \E m \in p.measures : m[1] <= t /\ t < m[2]

(* ---- properties of the maps themselves (checked by TLC on every generated configuration);
        qs / bs are MapSeq(p, "quarter") / MapSeq(p, "beat") ---- *)
Monotone(p, qs, bs) == \A t \in 1..p.T : RLess(qs[t], qs[t + 1]) /\ RLess(bs[t], bs[t + 1])
ZeroPlacement(p, qs, bs) ==
   LET sb == RSub(<<0, 1>>, bs[1])      \* the shift actually applied
       sq == RSub(<<0, 1>>, qs[1])
   IN /\ (sb = <<0, 1>> => bs[1] = <<0, 1>>)
      /\ (sb # <<0, 1>> => LET m == CHOOSE x \in FirstMeasure(p) : TRUE IN bs[m[2] + 1] = <<0, 1>>)
      /\ (sq # <<0, 1>> => LET m == CHOOSE x \in FirstMeasure(p) : TRUE IN qs[m[2] + 1] = <<0, 1>>)
SegmentLaw(p, qs, bs) ==   \* d divisions under q last d/q quarters and (d/q)*(bt/4) beats
   \A t \in 0..(p.T - 1) :
      /\ RSub(qs[t + 2], qs[t + 1]) = R(1, QAt(p, t))
      /\ RSub(bs[t + 2], bs[t + 1]) = RMul(R(1, QAt(p, t)), BeatFactor(p, t))
MeasuresCoverPositions(p) ==
   (p.measures # {} /\ Contiguous(p)) =>
      \A t \in 0..(p.T - 1) : InsideSomeMeasure(p, t) =>
           LET m == MeasureIn(p, t) IN m[1] <= t /\ t < m[2]
MetricalPosInRange(p) ==
   (p.measures # {} /\ Contiguous(p)) =>
      \A t \in 0..(p.T - 1) : InsideSomeMeasure(p, t) =>
           LET mp == MetricalPos(p, t) IN 0 <= mp[1] /\ mp[1] < mp[2]
=============================================================================
