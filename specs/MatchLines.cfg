SPECIFICATION Spec
CONSTRAINT Emit
INVARIANT ComponentsSumToValue
INVARIANT AddCommutes
CHECK_DEADLOCK FALSE
