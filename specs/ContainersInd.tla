--------------------------- MODULE ContainersInd ---------------------------
(***************************************************************************)
(* C20, unbounded: the cursor/yield core of Containers.tla without the     *)
(* observation variable, typed for Apalache.  IndInv is an inductive       *)
(* invariant (Init => IndInv, IndInv /\ Next => IndInv') that implies      *)
(* YieldsInOrder and ExhaustedMeansAll for behaviours of any length.  TLC  *)
(* checks that Containers refines this module (Containers.mc.cfg:          *)
(* PROPERTY RefinesInd).                                                   *)
(***************************************************************************)
EXTENDS Integers, Sequences

CONSTANTS
  \* @type: Int;
  NParts,
  \* @type: Set(Str);
  Iters
VARIABLES
  \* @type: Str -> Int;
  cur,
  \* @type: Str -> Seq(Int);
  yielded

CInit == NParts = 3 /\ Iters = {"a", "b", "c"}
Init == cur = [i \in Iters |-> -1] /\ yielded = [i \in Iters |-> <<>>]
Iter(i) == cur' = [cur EXCEPT ![i] = 0] /\ yielded' = [yielded EXCEPT ![i] = <<>>]
NextOf(i) == /\ cur[i] >= 0 /\ cur[i] <= NParts
             /\ IF cur[i] < NParts
                THEN yielded' = [yielded EXCEPT ![i] = Append(@, cur[i])] /\ cur' = [cur EXCEPT ![i] = @ + 1]
                ELSE UNCHANGED yielded /\ cur' = [cur EXCEPT ![i] = NParts + 1]
Next == \E i \in Iters : Iter(i) \/ NextOf(i)
Spec == Init /\ [][Next]_<<cur, yielded>>

YieldsInOrder == \A i \in Iters : \A k \in DOMAIN yielded[i] : yielded[i][k] = k - 1
ExhaustedMeansAll == \A i \in Iters : cur[i] >= NParts => Len(yielded[i]) = NParts
IndInv == /\ cur \in [Iters -> -1..(NParts + 1)]
          /\ \A i \in Iters : /\ Len(yielded[i]) = (IF cur[i] < 0 THEN 0 ELSE IF cur[i] > NParts THEN NParts ELSE cur[i])
                              /\ \A k \in 1..NParts : k <= Len(yielded[i]) => yielded[i][k] = k - 1
\* a state to start the induction step from: IndInv as an initial predicate over arbitrary values
IndInit == /\ cur \in [Iters -> -1..(NParts + 1)]
           /\ yielded \in [Iters -> {<<>>, <<0>>, <<0, 1>>, <<0, 1, 2>>, <<1>>, <<2, 1>>, <<0, 0>>}]
           /\ IndInv
Safety == YieldsInOrder /\ ExhaustedMeansAll
=============================================================================
