----------------------------- MODULE TupletsCases -----------------------------
(* Scenario source for Tuplets.tla: groups made of up to MaxRuns runs of equally long notes (run lengths and note
   lengths from small sets that contain triplet, quintuplet and plain values).  Finished scans are printed and replayed
   into find_tuplets (harness/checks/g13.py). *)
EXTENDS Tuplets, Json, IOUtils, TLC

CONSTANTS MaxRuns, Lengths, Counts
Run(d, c) == [k \in 1..c |-> d]
RECURSIVE Groups(_)
Groups(n) == IF n = 0 THEN {<<>>} ELSE {<<>>} \cup UNION {{Run(d, c) \o g : g \in Groups(n - 1)} : d \in Lengths, c \in Counts}
Init == \E g \in Groups(MaxRuns) : Len(g) >= 3 /\ Len(g) <= 16 /\ TInit(g)
Next == TNext
Spec == Init /\ [][Next]_tvars
Report == IF Done THEN PrintT(ToJson([grp |-> grp, tups |-> tups])) ELSE TRUE
=============================================================================
