SPECIFICATION TSpec
CONSTRAINT Report
INVARIANT TraceMeasuresTile
CHECK_DEADLOCK FALSE
