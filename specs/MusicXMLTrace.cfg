SPECIFICATION TSpec
CONSTRAINT Report
INVARIANT TraceCursorInMeasure
INVARIANT TraceMeasuresTile
CHECK_DEADLOCK FALSE
