SPECIFICATION CSpec
CONSTANT KeepStructure = FALSE
CONSTANT NParts = 2
CONSTANT Iters = {"a", "b"}
CONSTANT Fresh = {7, 8}
CONSTANT Depth = 5
CONSTRAINT Report
INVARIANT LengthNeverChanges
INVARIANT OnePerPosition
INVARIANT YieldsAreParts
CHECK_DEADLOCK FALSE
