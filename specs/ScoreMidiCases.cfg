SPECIFICATION Spec
CONSTRAINT Emit
CHECK_DEADLOCK FALSE
