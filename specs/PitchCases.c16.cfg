SPECIFICATION Spec
CONSTANT Kinds = {"transpose"}
CONSTRAINT Emit
INVARIANT TransposeInvertible
CHECK_DEADLOCK FALSE
