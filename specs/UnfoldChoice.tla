---------------------------- MODULE UnfoldChoice ----------------------------
(***************************************************************************)
(* Growth beyond the listed properties: unfold_part_alignment chooses,     *)
(* among the ways to unfold a score (the paths of Unfold.tla), the one     *)
(* that a performance alignment speaks of.  A path is a sequence of bars;  *)
(* unfolding numbers the occurrences of a bar (the k-th time bar b is      *)
(* played), and an alignment names such occurrences.  The choice must be   *)
(* a path that covers the most named occurrences and, among those, a       *)
(* shortest one; an alignment that names every occurrence of a path        *)
(* identifies what is played (not always the order).  Recorded calls are validated in batches.                *)
(*   record: rid, paths (the candidate paths), occ (named occurrences      *)
(*   <<bar, k>>), got (the bars of the returned part), full (1 = occ is    *)
(*   everything played by paths[src]), src, err                            *)
(***************************************************************************)
EXTENDS Integers, Sequences, FiniteSets, Json, IOUtils, TLC, TLCExt

Batch == TLCEval(JsonDeserialize(IOEnv.TRACE_FILE))
VARIABLE i

Occurrences(P) == {<<P[j], Cardinality({m \in 1..j : P[m] = P[j]})>> : j \in 1..Len(P)}
Named(r) == {<<r.occ[j][1], r.occ[j][2]>> : j \in 1..Len(r.occ)}
Cover(P, ids) == Cardinality(ids \cap Occurrences(P))
MostCovering(r) == {p \in 1..Len(r.paths) : \A q \in 1..Len(r.paths) : Cover(r.paths[p], Named(r)) >= Cover(r.paths[q], Named(r))}
Choices(r) == {p \in MostCovering(r) : \A q \in MostCovering(r) : Len(r.paths[p]) <= Len(r.paths[q])}

Clauses(r) ==
   [chosen_is_a_variant |-> \E p \in 1..Len(r.paths) : r.paths[p] = r.got,
    covers_the_most |-> \A q \in 1..Len(r.paths) : Cover(r.got, Named(r)) >= Cover(r.paths[q], Named(r)),
    shortest_among_those |-> \A q \in MostCovering(r) : Len(r.got) <= Len(r.paths[q]),
    \* two paths can play the same occurrences in another order (repeat taken before or after the da capo): occurrence
    \* numbers cannot tell those apart, so a full alignment identifies its path up to that
    full_alignment_identifies_its_path |-> (r.full = 1) => Occurrences(r.got) = Occurrences(r.paths[r.src]),
    \* a property of the paths themselves (no implementation involved): naming everything a path plays leaves no
    \* choice that plays anything else
    paths_are_told_apart |-> (r.full = 1) => \A p \in Choices(r) : Occurrences(r.paths[p]) = Occurrences(r.paths[r.src])]
Failing(r) == {c \in DOMAIN Clauses(r) : ~Clauses(r)[c]}

Init == i \in 1..Len(Batch)
Next == UNCHANGED i
Spec == Init /\ [][Next]_i
Report == PrintT(<<"VERDICT", Batch[i].rid, IF Batch[i].err = "" THEN Failing(Batch[i]) ELSE {"raises"}>>)
=============================================================================
