------------------------------ MODULE MidiStream ------------------------------
(***************************************************************************)
(* What a MIDI track list denotes (C04, C06, import side of C17): an       *)
(* interpreter written from the format's own semantics.  A track is a      *)
(* sequence of messages [dt, kind, ch, a, b, s]:                           *)
(*   on (a = pitch, b = velocity; velocity 0 = note off), off (a = pitch), *)
(*   cc (a = controller, b = value), pc (a = program),                     *)
(*   tempo (a = milliseconds per quarter), ts (a/b), ks (s = key name),    *)
(*   meta (s = type ++ ":" ++ text).                                       *)
(* Each track has a tick cursor advanced by dt before the message acts; a  *)
(* note-on is paired with the next note-off or zero-velocity note-on of    *)
(* the same channel and pitch in its track.  Tempo changes of all tracks   *)
(* form one map ordered by tick; seconds = ticks * mpq / (10^6 ppq) within *)
(* each tempo segment.                                                     *)
(***************************************************************************)
EXTENDS Rat, FiniteSets, TLC

\* ---- one track: fold over its messages
RECURSIVE RunTrack(_, _, _, _)
\* st = [tick, snd (set of <<ch, pitch, ontick, vel>>), notes, ccs, pcs, tss, kss, metas, tempos]
RunTrack(msgs, i, tr, st) ==
   IF i > Len(msgs) THEN st
   ELSE LET m == msgs[i]
            tk == st.tick + m.dt
            s1 == [st EXCEPT !.tick = tk]
            isOff == m.kind = "off" \/ (m.kind = "on" /\ m.b = 0)
            open == {x \in st.snd : x[1] = m.ch /\ x[2] = m.a}
        IN RunTrack(msgs, i + 1, tr,
             IF m.kind = "on" /\ m.b > 0
             THEN [s1 EXCEPT !.snd = (st.snd \ open) \cup {<<m.ch, m.a, tk, m.b>>}]
             ELSE IF isOff
             THEN IF open = {} THEN s1      \* unmatched note off: ignored
                  ELSE LET x == CHOOSE y \in open : TRUE
                       IN [s1 EXCEPT !.snd = st.snd \ {x},
                                     !.notes = st.notes \cup {[pitch |-> m.a, ch |-> m.ch, track |-> tr, on |-> x[3], off |-> tk, vel |-> x[4]]}]
             ELSE IF m.kind = "cc" THEN [s1 EXCEPT !.ccs = Append(st.ccs, [tick |-> tk, number |-> m.a, value |-> m.b, ch |-> m.ch, track |-> tr])]
             ELSE IF m.kind = "pc" THEN [s1 EXCEPT !.pcs = Append(st.pcs, [tick |-> tk, program |-> m.a, ch |-> m.ch, track |-> tr])]
             ELSE IF m.kind = "ts" THEN [s1 EXCEPT !.tss = Append(st.tss, [tick |-> tk, beats |-> m.a, beat_type |-> m.b, track |-> tr])]
             ELSE IF m.kind = "ks" THEN [s1 EXCEPT !.kss = Append(st.kss, [tick |-> tk, name |-> m.s, track |-> tr])]
             ELSE IF m.kind = "meta" THEN [s1 EXCEPT !.metas = Append(st.metas, [tick |-> tk, what |-> m.s, track |-> tr])]
             ELSE IF m.kind = "tempo" THEN [s1 EXCEPT !.tempos = Append(st.tempos, [tick |-> tk, mpqk |-> m.a, track |-> tr, idx |-> i])]
             ELSE s1)
Empty == [tick |-> 0, snd |-> {}, notes |-> {}, ccs |-> <<>>, pcs |-> <<>>, tss |-> <<>>, kss |-> <<>>, metas |-> <<>>, tempos |-> <<>>]
Track(tracks, t) == RunTrack(tracks[t], 1, t - 1, Empty)      \* tracks are numbered from 0

\* ---- the tempo map of the whole file: all tempo events ordered by (tick, track, position)
AllTempos(tracks) == UNION {{Track(tracks, t).tempos[k] : k \in 1..Len(Track(tracks, t).tempos)} : t \in 1..Len(tracks)}
Before(a, b) == a.tick < b.tick \/ (a.tick = b.tick /\ (a.track < b.track \/ (a.track = b.track /\ a.idx < b.idx)))
\* tempo in force at tick u (default: defMpqk): the last tempo event at or before u
TempoAt(T, u, defMpqk) ==
   LET S == {e \in T : e.tick <= u}
   IN IF S = {} THEN defMpqk ELSE (CHOOSE e \in S : \A f \in S : f = e \/ Before(f, e)).mpqk
\* seconds of tick u: integrate over the segments between change ticks
ChangeTicks(T, u) == {e.tick : e \in {x \in T : x.tick < u}} \cup {0}
RECURSIVE SumSeg(_, _, _, _, _)
SumSeg(T, S, u, ppq, defMpqk) ==
   IF S = {} THEN <<0, 1>>
   ELSE LET a == CHOOSE x \in S : \A y \in S : x <= y
            rest == S \ {a}
            b == IF rest = {} THEN u ELSE CHOOSE x \in rest : \A y \in rest : x <= y
        IN RAdd(R((b - a) * TempoAt(T, a, defMpqk), 1000 * ppq), SumSeg(T, rest, u, ppq, defMpqk))
Seconds(T, u, ppq, defMpqk) == SumSeg(T, ChangeTicks(T, u), u, ppq, defMpqk)

\* ---- what a performance must be written as: ticks = round-half-even(sec * 10^6 * ppq / mpq)
TickOf(sec, ppq, mpqk) == RoundHalfEven(RDiv(RMul(RInt(1000 * ppq), sec), RInt(mpqk)))

(* ---- properties of the interpreter (checked on every case) ---- *)
NotesWellFormed(tracks) == \A t \in 1..Len(tracks) : \A n \in Track(tracks, t).notes : n.on <= n.off /\ n.vel > 0
NoHangingLoss(tracks) ==     \* every positive note-on is either paired or still sounding at the end
   \A t \in 1..Len(tracks) :
      Cardinality(Track(tracks, t).notes) + Cardinality(Track(tracks, t).snd)
         <= Cardinality({i \in 1..Len(tracks[t]) : tracks[t][i].kind = "on" /\ tracks[t][i].b > 0})
=============================================================================
