------------------------------ MODULE Sanitize ------------------------------
(***************************************************************************)
(* Growth beyond the listed properties: sanitize_part removes what is      *)
(* incomplete - slurs and tuplets without a start or an end note, grace    *)
(* notes without a main note (after trying to give them the note of their  *)
(* voice that starts at the same time), ties whose notes do not follow     *)
(* each other - and leaves everything complete as it is.  One action per   *)
(* kind of repair; the order is left open and TLC shows that it does not   *)
(* matter.  The state is the condition of one slur, one tuplet, one grace  *)
(* note and one tie in a part of three consecutive notes.                  *)
(***************************************************************************)
EXTENDS Integers, FiniteSets

VARIABLES sc,       \* the part as given: [slur, tuplet, grace, tie]
          slur,     \* "none", "ok", "nostart", "noend", "removed"
          tuplet,   \* the same
          grace,    \* "none", "linked", "loose_same_voice", "loose_other_voice", "relinked", "removed"
          tie       \* "none", "ok", "gap", "broken"
zvars == <<sc, slur, tuplet, grace, tie>>

SanInit(x) == sc = x /\ slur = x.slur /\ tuplet = x.tuplet /\ grace = x.grace /\ tie = x.tie
DropSlur == slur \in {"nostart", "noend"} /\ slur' = "removed" /\ UNCHANGED <<sc, tuplet, grace, tie>>
DropTuplet == tuplet \in {"nostart", "noend"} /\ tuplet' = "removed" /\ UNCHANGED <<sc, slur, grace, tie>>
Relink == grace = "loose_same_voice" /\ grace' = "relinked" /\ UNCHANGED <<sc, slur, tuplet, tie>>
DropGrace == grace = "loose_other_voice" /\ grace' = "removed" /\ UNCHANGED <<sc, slur, tuplet, tie>>
BreakTie == tie = "gap" /\ tie' = "broken" /\ UNCHANGED <<sc, slur, tuplet, grace>>
SanNext == DropSlur \/ DropTuplet \/ Relink \/ DropGrace \/ BreakTie
Settled == ~ENABLED SanNext

NothingIncompleteLeft == Settled => /\ slur \in {"none", "ok", "removed"} /\ tuplet \in {"none", "ok", "removed"}
                                    /\ grace \in {"none", "linked", "relinked", "removed"} /\ tie \in {"none", "ok", "broken"}
CompleteThingsStay == /\ (sc.slur \in {"none", "ok"} => slur = sc.slur) /\ (sc.tuplet \in {"none", "ok"} => tuplet = sc.tuplet)
                      /\ (sc.grace \in {"none", "linked"} => grace = sc.grace) /\ (sc.tie \in {"none", "ok"} => tie = sc.tie)
OnlyRepairs == /\ (slur = "removed" => sc.slur \in {"nostart", "noend"}) /\ (tuplet = "removed" => sc.tuplet \in {"nostart", "noend"})
               /\ (grace = "removed" => sc.grace = "loose_other_voice") /\ (grace = "relinked" => sc.grace = "loose_same_voice")
               /\ (tie = "broken" => sc.tie = "gap")
=============================================================================
