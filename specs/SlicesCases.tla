----------------------------- MODULE SlicesCases -----------------------------
(* Scenario source for the Slices machine: TLC enumerates every list of up to MaxNotes notes on the grid
   0..MaxT with every window, checks the properties in every state and prints, for each finished scan, the
   scenario with what the three functions must return (replayed into the implementation by harness/checks/g01.py). *)
EXTENDS Slices, Json, IOUtils, TLC

CONSTANTS MaxT, MaxNotes, NShards
Shard == IF "SHARD" \in DOMAIN IOEnv THEN CHOOSE k \in 0..(NShards - 1) : ToString(k) = IOEnv.SHARD ELSE -1
Spans == {<<a, b>> \in (0..MaxT) \X (0..MaxT) : a <= b}
NoteLists == UNION {[1..n -> Spans] : n \in 0..MaxNotes}
Notes(f) == [k \in DOMAIN f |-> [id |-> k, on |-> f[k][1], off |-> f[k][2]]]
KeyOf(f, w) == w[1] + 3 * w[2] + Len(f) + (IF Len(f) > 0 THEN 5 * f[1][1] + 7 * f[Len(f)][2] ELSE 0)
ControlTimes == [k \in 1..(MaxT + 1) |-> k - 1]

Init == \E f \in NoteLists, w \in Spans, cl \in BOOLEAN :
           /\ (Shard = -1 \/ KeyOf(f, w) % NShards = Shard)
           /\ ScanInit([notes |-> Notes(f), s |-> w[1], e |-> w[2], clip |-> cl])
Next == ScanNext
Spec == Init /\ [][Next]_svars

Report ==
   IF Finished
   THEN PrintT(ToJson([notes |-> sc.notes, s |-> sc.s, e |-> sc.e, clip |-> sc.clip,
                       part |-> out,
                       reindexed |-> Reindexed(out),
                       array |-> ArraySlice(sc.notes, sc.s, sc.e, sc.clip),
                       controls |-> EventSlice(ControlTimes, sc.s, sc.e)]))
   ELSE TRUE
=============================================================================
