SPECIFICATION Spec
CONSTANT Span = 12
CONSTANT MaxNotes = 5
CONSTANT LongNotesBreak = TRUE
CONSTRAINT Report
INVARIANT AtLeastTwoNotes
INVARIANT OnlyShortNotes
INVARIANT BeamsDisjoint
INVARIANT BeamedNotesAreNeighbours
INVARIANT ClosesOnBeat
INVARIANT GroupIsOpen
CHECK_DEADLOCK FALSE
