SPECIFICATION Spec
CONSTRAINT Report
CHECK_DEADLOCK FALSE
