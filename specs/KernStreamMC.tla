----------------------------- MODULE KernStreamMC -----------------------------
(***************************************************************************)
(* Model checking of the kern machine itself: a writer that obeys the      *)
(* representation (a token only in a free spine, a null token only in a    *)
(* busy one, barlines and spine paths only when every spine is free, a tie *)
(* closed only on the pitch that is open) emits lines nondeterministically *)
(* over two spines; TLC explores every document up to a bound and checks   *)
(* that no rule is reported broken, that ties are contiguous, that time    *)
(* never runs backwards in a spine, that the columns always descend from   *)
(* the declared spines with distinct sub-spine numbers, and that barlines  *)
(* come in order.                                                          *)
(***************************************************************************)
EXTENDS KernStream
CONSTANTS MaxLines, Recips, Dots
VARIABLES n
mcvars == <<free, kcol, knotes, kopen, kbars, kattrs, kbad, n>>
Nul == [kind |-> "null", a |-> 0, b |-> 0, c |-> 0, null |-> 1, notes |-> <<>>]
Pitches == {<<"C", 0, 4>>}
Tok(r, d, p, tie) == [kind |-> "null", a |-> 0, b |-> 0, c |-> 0, null |-> 0,
                      notes |-> << [recip |-> r, dots |-> d, rest |-> 0, step |-> p[1], alter |-> p[2], octave |-> p[3], tie |-> tie, grace |-> 0] >>]
Now == RMinSet({free[i] : i \in 1..NSp})
(* the tokens a disciplined writer may put in column i on a data line at time Now *)
Choices(i) ==
   IF free[i] # Now THEN {Nul}
   ELSE {Tok(r, d, p, tie) : r \in Recips, d \in Dots, p \in Pitches, tie \in {"", "[", "]", "_"}}
MCInit == KInit(2) /\ n = 0
WellTied(c, tok) ==
   IF tok.null = 1 THEN TRUE
   ELSE LET x == tok.notes[1]
            oi == OpenAt(c, <<x.step, x.alter, x.octave>>)
        IN IF x.tie \in {"]", "_"}
           THEN oi # 0 /\ (LET q == knotes[kopen[c][oi][2]] IN REq(RAdd(q.on, q.dur), Now))
           ELSE IF x.tie = "[" THEN oi = 0 ELSE TRUE
MCData == \E toks \in [1..NSp -> UNION {Choices(i) : i \in 1..NSp}] :
             /\ \A i \in 1..NSp : toks[i] \in Choices(i) /\ WellTied(i, toks[i])
             /\ ReadData([kind |-> "data", toks |-> toks])
MCBar == Aligned /\ ReadBar([kind |-> "bar", number |-> "1", toks |-> [i \in 1..NSp |-> Nul]])
MCPath == /\ Aligned
          /\ \/ (NSp < 3 /\ \E i \in 1..NSp : ReadPath([kind |-> "path", toks |-> [j \in 1..NSp |-> [Nul EXCEPT !.kind = IF j = i THEN "split" ELSE "null"]]]))
             \/ (\E i \in 1..(NSp - 1) : kcol[i][1] = kcol[i + 1][1] /\
                    ReadPath([kind |-> "path", toks |-> [j \in 1..NSp |-> [Nul EXCEPT !.kind = IF j \in {i, i + 1} THEN "join" ELSE "null"]]]))
MCNext == n < MaxLines /\ n' = n + 1 /\ (MCData \/ MCBar \/ MCPath)
MCSpec == MCInit /\ [][MCNext]_mcvars
ColumnsDescendFromSpines == /\ \A i \in 1..NSp : kcol[i][1] \in 1..2
                            /\ \A i, j \in 1..NSp : i # j => kcol[i] # kcol[j]
                            /\ \A i \in 1..(NSp - 1) : kcol[i][1] <= kcol[i + 1][1]
NotesNotBeforeZero == \A i \in 1..Len(knotes) : RLeq(KZero, knotes[i].on)
OpenTiesPointAtNotes == \A i \in 1..NSp : \A k \in 1..Len(kopen[i]) : kopen[i][k][2] \in 1..Len(knotes)
=============================================================================
