SPECIFICATION Spec
CONSTANT Source = "file"
CONSTRAINT Emit
INVARIANT InvCovered
INVARIANT InvVisible
INVARIANT InvOneFrame
INVARIANT InvShape
CHECK_DEADLOCK FALSE
