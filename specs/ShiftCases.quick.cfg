SPECIFICATION Spec
CONSTANT MaxT = 3
CONSTANT MaxCtrl = 2
CONSTRAINT Report
INVARIANT ControlsPreserved
INVARIANT ControlsOrderedFromZero
INVARIANT AtMostOneControlAdded
INVARIANT FirstNoteAtZero
INVARIANT DurationsKept
INVARIANT ProgramsFromZero
INVARIANT Idempotent
INVARIANT PartsStayTogether
CHECK_DEADLOCK FALSE
