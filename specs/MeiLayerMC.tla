------------------------------ MODULE MeiLayerMC ------------------------------
(***************************************************************************)
(* Model checking of the MEI machine itself: a writer that obeys the       *)
(* encoding (elements properly nested, tuplets closed inside their layer,  *)
(* @tie "m"/"t" only on the pitch that is open on the staff and that ends  *)
(* where the note starts) emits elements nondeterministically; TLC         *)
(* explores every document up to a bound and checks the machine's          *)
(* invariants: the cursor stays inside its measure, measures tile, ties    *)
(* join equal pitches end to start, a measure is as long as its longest    *)
(* layer, no rule is reported broken.                                      *)
(***************************************************************************)
EXTENDS MeiLayer
CONSTANTS MaxEvents, Durs
VARIABLES n, phase, cnt
mcvars == <<mpos, mbar, mfar, mtup, mstaff, mlayer, meter, mnotes, mties, mopen, mmeasures, mdefs, mrep, mend, mright, mbad, n, phase, cnt>>
Ev(kind) == [ev |-> kind, n |-> 0, s |-> "", a |-> 0, b |-> 0, c |-> 0, d |-> 0, id |-> "", id2 |-> "", notes |-> <<>>]
Id == "x" \o ToString(cnt)
Pitch == <<"C", 0, 4>>
OpenHere == IF \E i \in 1..Len(mopen) : mopen[i][1] = <<mstaff, Pitch[1], Pitch[2], Pitch[3]>>
            THEN (CHOOSE i \in 1..Len(mopen) : mopen[i][1] = <<mstaff, Pitch[1], Pitch[2], Pitch[3]>>) ELSE 0
EndsHere == OpenHere # 0 /\ (LET q == mnotes[Idx(mopen[OpenHere][2])] IN REq(RAdd(q.on, q.dur), mpos))
MCInit == MInit /\ n = 0 /\ phase = "top" /\ cnt = 1
Step == n' = n + 1
Keep == phase' = phase /\ cnt' = cnt
MCMeasure == phase = "top" /\ Len(mmeasures) < 2
             /\ (\E lft \in {"", "rptstart"}, rgt \in {"", "rptend"} : (lft = "rptstart" => OpenRep = 0) /\ Measure([Ev("measure") EXCEPT !.s = "1", !.id = lft, !.id2 = rgt])) /\ phase' = "measure" /\ cnt' = cnt /\ Step
MCEndMeasure == phase = "measure" /\ EndMeasureM /\ phase' = "top" /\ cnt' = cnt /\ Step
MCStaff == phase = "measure" /\ (\E s \in {1, 2} : Staff([Ev("staff") EXCEPT !.n = s])) /\ phase' = "staff" /\ cnt' = cnt /\ Step
MCLayer == phase = "staff" /\ (\E k \in {1, 2} : Layer([Ev("layer") EXCEPT !.n = k])) /\ phase' = "layer" /\ cnt' = cnt /\ Step
MCEndLayer == phase = "layer" /\ mtup = <<1, 1>> /\ EndLayer /\ phase' = "measure" /\ cnt' = cnt /\ Step
MCTuplet == phase = "layer" /\ ((mtup = <<1, 1>> /\ TupletStart([Ev("tuplet_start") EXCEPT !.a = 3, !.b = 2])) \/ (mtup # <<1, 1>> /\ TupletEnd)) /\ Keep /\ Step
MCNote == /\ phase = "layer"
          /\ \E d \in Durs, dots \in {0, 1}, tie \in {"", "i", "m", "t"}, grace \in {0, 1} :
                /\ (tie \in {"m", "t"} => EndsHere)
                /\ (tie = "i" => OpenHere = 0)
                /\ (grace = 1 => tie = "")
                /\ Sound([Ev("note") EXCEPT !.id = Id, !.a = d, !.b = dots,
                                           !.notes = << [id |-> Id, pname |-> Pitch[1], accid |-> Pitch[2], oct |-> Pitch[3], grace |-> grace, tie |-> tie] >>])
          /\ phase' = phase /\ cnt' = cnt + 1 /\ Step
MCRest == phase = "layer" /\ (\E d \in Durs : Silent([Ev("rest") EXCEPT !.id = Id, !.a = d], TRUE) \/ Silent([Ev("space") EXCEPT !.id = Id, !.a = d], FALSE))
          /\ phase' = phase /\ cnt' = cnt + 1 /\ Step
MCMRest == phase = "layer" /\ mpos = mbar /\ MRest([Ev("mrest") EXCEPT !.id = Id]) /\ phase' = phase /\ cnt' = cnt + 1 /\ Step
MCNext == n < MaxEvents /\ (MCMeasure \/ MCEndMeasure \/ MCStaff \/ MCLayer \/ MCEndLayer \/ MCTuplet \/ MCNote \/ MCRest \/ MCMRest)
MCSpec == MCInit /\ [][MCNext]_mcvars
NoRuleBrokenM == mbad = {}
RepeatsWellFormed == \A i \in 1..Len(mrep) : mrep[i].to = Open \/ RLeq(mrep[i].from, mrep[i].to)
MeasureAsLongAsLongestLayer ==
   (phase = "top" /\ Len(mmeasures) > 0) =>
      LET m == mmeasures[Len(mmeasures)] IN \A i \in 1..Len(mnotes) : RLeq(m.start, mnotes[i].on) => RLeq(RAdd(mnotes[i].on, mnotes[i].dur), m.end)
=============================================================================
