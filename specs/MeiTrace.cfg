SPECIFICATION TSpec
CONSTRAINT Report
INVARIANT InvCursor
INVARIANT InvTile
CHECK_DEADLOCK FALSE
