SPECIFICATION TSpec
CONSTRAINT Report
CHECK_DEADLOCK FALSE
