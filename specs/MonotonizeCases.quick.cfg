SPECIFICATION Spec
CONSTANT Clamp = FALSE
CONSTANT MaxN = 4
CONSTANT MaxV = 4
CONSTANT MaxGap = 2
CONSTRAINT Report
INVARIANT RunMaxIsMax
INVARIANT RecordsRise
INVARIANT RecordsAreTheRises
INVARIANT Monotone
INVARIANT RecordsKept
INVARIANT InvertibleBetweenRecords
INVARIANT AtLeastRunningMax
INVARIANT IncreasingUnchanged

CHECK_DEADLOCK FALSE
