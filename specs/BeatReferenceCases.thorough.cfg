SPECIFICATION Spec
CONSTANT Remember = FALSE
CONSTANT Depth = 5
CONSTRAINT Report
INVARIANT Exact
INVARIANT BeatsPositive
INVARIANT ResetGivesDefaults
INVARIANT NotatedIgnoresTables

CHECK_DEADLOCK FALSE
