SPECIFICATION Spec
CONSTANT Source = "enum"
CONSTRAINT Emit
INVARIANT InvCovered
INVARIANT InvVisible
INVARIANT InvOneFrame
INVARIANT InvShape
CHECK_DEADLOCK FALSE
