------------------------------ MODULE FillRests ------------------------------
(***************************************************************************)
(* Growth beyond the listed properties: fill_rests (measure-wise).  Within *)
(* a measure every voice that has a note there must be complete: the time  *)
(* before its first note, between its notes and after its last note is     *)
(* filled with rests of that voice; a staff without any note gets a rest   *)
(* over the whole measure.                                                 *)
(*                                                                         *)
(* The machine sweeps the measure from its start to its end, one grid step *)
(* at a time, for one voice: while no note of the voice sounds a gap is    *)
(* open; when a note starts (or the measure ends) the gap is closed and    *)
(* recorded.  The recorded gaps are what the rests of the voice must cover *)
(* exactly (one rest or several in a row: a gap of five eighths has no     *)
(* single note value).                                                     *)
(***************************************************************************)
EXTENDS Integers, Sequences, FiniteSets

None == -1
VARIABLES sc,     \* [len |-> length of the measure, notes |-> <<[on, off]..>> of one voice, starting inside the measure]
          t,      \* sweep position
          open,   \* start of the open gap, or None
          gaps    \* recorded gaps: set of <<from, to>>
fvars == <<sc, t, open, gaps>>
Sounds(u) == \E k \in 1..Len(sc.notes) : sc.notes[k].on <= u /\ u < sc.notes[k].off      \* during [u, u+1)

SweepInit(x) == sc = x /\ t = 0 /\ open = None /\ gaps = {}
Step == /\ t < sc.len
        /\ IF Sounds(t)
           THEN /\ gaps' = (IF open # None THEN gaps \cup {<<open, t>>} ELSE gaps) /\ open' = None
           ELSE /\ open' = (IF open = None THEN t ELSE open) /\ UNCHANGED gaps
        /\ t' = t + 1 /\ UNCHANGED sc
Close == /\ t = sc.len
         /\ gaps' = (IF open # None THEN gaps \cup {<<open, t>>} ELSE gaps) /\ open' = None
         /\ t' = t + 1 /\ UNCHANGED sc
SweepNext == Step \/ Close
Done == t = sc.len + 1

InGap(u) == \E g \in gaps : g[1] <= u /\ u < g[2]
(* gaps and notes tile the measure: every grid step is in a gap or under a note, never both *)
Tiles == Done => \A u \in 0..(sc.len - 1) : InGap(u) <=> ~Sounds(u)
GapsDisjointAndProper == \A g, h \in gaps : g[1] < g[2] /\ (g # h => (g[2] <= h[1] \/ h[2] <= g[1]))
(* gaps are maximal: a gap is never followed immediately by another gap *)
GapsMaximal == \A g, h \in gaps : g[2] # h[1]
GapsBehindSweep == \A g \in gaps : g[2] <= t
(* a voice whose notes follow each other without holes and fill the measure needs no rest *)
CompleteVoiceNeedsNothing == (Done /\ \A u \in 0..(sc.len - 1) : Sounds(u)) => gaps = {}
=============================================================================
