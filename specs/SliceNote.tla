------------------------------ MODULE SliceNote ------------------------------
(* One note against one window: the definitions shared by Slices.tla (lists, the scan; checked with TLC) and
   SlicesProof.tla (the window algebra for one note and all integers; proved with TLAPS, which does not accept
   the recursive list operators of Slices.tla). *)
EXTENDS Integers

Max2(a, b) == IF a >= b THEN a ELSE b
Min2(a, b) == IF a <= b THEN a ELSE b

(* a note sounds in the window when it starts inside it, or starts before it and still sounds after s *)
Active(n, s, e) == (n.on >= s /\ n.on < e) \/ (n.on < s /\ n.off > s)

(* clipOn: move a start before s to s; clipOff: move an end after e to e; shift: new origin *)
Cut(n, s, e, clipOn, clipOff, shift) ==
   [id |-> n.id,
    on |-> (IF clipOn THEN Max2(n.on, s) ELSE n.on) - shift,
    off |-> (IF clipOff THEN Min2(n.off, e) ELSE n.off) - shift]
=============================================================================
