------------------------------ MODULE Collapse ------------------------------
(***************************************************************************)
(* Growth beyond the listed properties: rest arrays with collapse=True     *)
(* (rec_collapse_rests): consecutive rests of one voice become one rest of *)
(* their combined duration.  One action: a rest absorbs a rest of its      *)
(* voice that starts where it ends.  The code does this in passes over the *)
(* array until nothing changes; the order of absorptions is left open here *)
(* and TLC shows that it does not matter (one terminal state per array     *)
(* when the rests of a voice do not overlap).                              *)
(***************************************************************************)
EXTENDS Integers, Sequences, FiniteSets

VARIABLES sc,     \* the array as given: <<[id, on, dur, voice]..>>
          rows    \* the rests still present: set of [id, on, dur, voice]
cvars == <<sc, rows>>

CollapseInit(x) == sc = x /\ rows = {x[k] : k \in 1..Len(x)}
Absorb(a, b) == /\ a \in rows /\ b \in rows /\ a # b
                /\ a.voice = b.voice /\ b.on = a.on + a.dur
                /\ rows' = (rows \ {a, b}) \cup {[a EXCEPT !.dur = a.dur + b.dur]}
                /\ UNCHANGED sc
CollapseNext == \E a, b \in rows : Absorb(a, b)
Settled == ~ENABLED CollapseNext

(* the rest array of a list of parts: the rows of every part, the id prefixed with the number of the part so that
   rests of different parts that carry the same id stay apart *)
ListRows(parts) == UNION {{[r EXCEPT !.id = <<k - 1, r.id>>] : r \in parts[k]} : k \in 1..Len(parts)}
ByVoice(v) == {r \in rows : r.voice = v}
PrefixKeepsRowsApart == Cardinality(ListRows(<<ByVoice(1), ByVoice(2), ByVoice(1)>>)) = 2 * Cardinality(ByVoice(1)) + Cardinality(ByVoice(2))

RECURSIVE SumDur(_)
SumDur(S) == IF S = {} THEN 0 ELSE LET x == CHOOSE y \in S : TRUE IN x.dur + SumDur(S \ {x})
Voices == {sc[k].voice : k \in 1..Len(sc)}
Given(v) == {sc[k] : k \in {j \in 1..Len(sc) : sc[j].voice = v}}
(* resting time is neither lost nor invented *)
TimePreserved == \A v \in Voices : SumDur({r \in rows : r.voice = v}) = SumDur(Given(v))
(* what remains are the first rests of the runs, still where they were *)
SurvivorsKeepPlace == \A r \in rows : \E k \in 1..Len(sc) : sc[k].id = r.id /\ sc[k].on = r.on /\ sc[k].voice = r.voice /\ r.dur >= sc[k].dur
(* every moment that was rest in a voice still is, and no other *)
Covered(S, v, u) == \E r \in S : r.voice = v /\ r.on <= u /\ u < r.on + r.dur
SameSilence == \A v \in Voices : \A u \in 0..12 : Covered(rows, v, u) <=> Covered(Given(v), v, u)
(* when settled, no rest of a voice starts where another of the voice ends *)
NothingLeftToJoin == Settled => \A a, b \in rows : ~(a # b /\ a.voice = b.voice /\ b.on = a.on + a.dur)
=============================================================================
