---------------------------- MODULE SlicesProof ----------------------------
(***************************************************************************)
(* The window algebra of Slices.tla for one note and all integers (TLAPS). *)
(* TLC checks InsideWindow, WindowsCompose and WindowsAddUp on lists over  *)
(* a small grid; the list versions follow note by note from the lemmas     *)
(* below, which hold for every integer start, end and window bound.        *)
(***************************************************************************)
EXTENDS SliceNote, TLAPS

Clip(n, s, e) == Cut(n, s, e, TRUE, TRUE, 0)
(* what a note contributes to the sounding time of a window *)
Contribution(n, s, e) == IF Active(n, s, e) THEN Min2(n.off, e) - Max2(n.on, s) ELSE 0
IsNote(n) == n = [id |-> n.id, on |-> n.on, off |-> n.off] /\ n.on \in Int /\ n.off \in Int /\ n.on <= n.off

LEMMA Inside ==
  ASSUME NEW n, IsNote(n), NEW s \in Int, NEW e \in Int, s <= e, Active(n, s, e)
  PROVE  s <= Clip(n, s, e).on /\ Clip(n, s, e).on <= Clip(n, s, e).off /\ Clip(n, s, e).off <= e
  BY DEF IsNote, Active, Clip, Cut, Max2, Min2

LEMMA AddUp ==
  ASSUME NEW n, IsNote(n), NEW a \in Int, NEW b \in Int, NEW c \in Int, a <= b, b <= c
  PROVE  Contribution(n, a, b) + Contribution(n, b, c) = Contribution(n, a, c)
  BY DEF IsNote, Active, Contribution, Max2, Min2

LEMMA StartsAddUp ==
  ASSUME NEW n, IsNote(n), NEW a \in Int, NEW b \in Int, NEW c \in Int, a <= b, b <= c
  PROVE  (n.on >= a /\ n.on < c) <=> ((n.on >= a /\ n.on < b) \/ (n.on >= b /\ n.on < c))
  BY DEF IsNote

LEMMA ComposeActive ==
  ASSUME NEW n, IsNote(n), NEW s \in Int, NEW e \in Int, NEW b \in Int, NEW c \in Int, s <= b, b < c, c <= e
  PROVE  /\ Active(n, b, c) => Active(n, s, e)
         /\ Active(n, s, e) => (Active(Clip(n, s, e), b, c) <=> Active(n, b, c))
  BY DEF IsNote, Active, Clip, Cut, Max2, Min2

LEMMA ComposeClip ==
  ASSUME NEW n, IsNote(n), NEW s \in Int, NEW e \in Int, NEW b \in Int, NEW c \in Int, s <= b, b < c, c <= e,
         Active(n, s, e), Active(n, b, c)
  PROVE  Clip(Clip(n, s, e), b, c) = Clip(n, b, c)
  BY DEF IsNote, Active, Clip, Cut, Max2, Min2

LEMMA WholeWindow ==
  ASSUME NEW n, IsNote(n), NEW s \in Int, NEW e \in Int, s <= n.on, n.on < e, n.off <= e
  PROVE  Active(n, s, e) /\ Clip(n, s, e) = n
  BY DEF IsNote, Active, Clip, Cut, Max2, Min2

LEMMA PartIsShiftedArray ==
  ASSUME NEW n, IsNote(n), NEW s \in Int, NEW e \in Int
  PROVE  LET p == Cut(n, s, e, TRUE, TRUE, s)  a == Clip(n, s, e)
         IN p.id = a.id /\ p.on = a.on - s /\ p.off = a.off - s
  BY DEF IsNote, Clip, Cut, Max2, Min2
=============================================================================
