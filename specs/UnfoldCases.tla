----------------------------- MODULE UnfoldCases -----------------------------
(* Layout enumeration for C09 and emission of every complete path of the machine per policy. *)
EXTENDS Unfold, Json, IOUtils, TLCExt

Lay(n, reps, groups, dc, ds, segno, fine, tocoda, coda) ==
   [N |-> n, reps |-> reps, groups |-> groups, dc |-> dc, ds |-> ds, segno |-> segno, fine |-> fine,
    tocoda |-> tocoda, coda |-> coda]
Plain(n) == Lay(n, {}, {}, NoB, NoB, NoB, NoB, NoB, NoB)
RepPairs(n) == {<<s, e>> \in (0..n) \X (0..n) : s < e}
Disjoint(a, b) == a[2] <= b[1] \/ b[2] <= a[1]
Nested(a, b) == (a[1] <= b[1] /\ b[2] <= a[2] /\ a # b /\ a[2] # b[2])   \* inner ends earlier than outer
Group2(rs, a1, a2, a3) == [rs |-> rs, ends |-> << <<a1, a2, {1}>>, <<a2, a3, {2}>> >>]
Group3(rs, a1, a2, a3, a4) == [rs |-> rs, ends |-> << <<a1, a2, {1}>>, <<a2, a3, {2}>>, <<a3, a4, {3}>> >>]
Group12_3(rs, a1, a2, a3) == [rs |-> rs, ends |-> << <<a1, a2, {1, 2}>>, <<a2, a3, {3}>> >>]

MaxN == IF "SMALL" \in DOMAIN IOEnv THEN 4 ELSE 5
Layouts ==
   {Plain(n) : n \in 1..MaxN}
   \cup {Lay(n, {r}, {}, NoB, NoB, NoB, NoB, NoB, NoB) : n \in 2..MaxN, r \in RepPairs(MaxN)}
   \cup {Lay(n, {r1, r2}, {}, NoB, NoB, NoB, NoB, NoB, NoB) :
            n \in 3..MaxN, r1 \in RepPairs(MaxN), r2 \in RepPairs(MaxN)}
   \cup {Lay(n, {}, {Group2(rs, a1, a1 + 1, a1 + 2)}, NoB, NoB, NoB, NoB, NoB, NoB) : n \in 3..MaxN, rs \in 0..2, a1 \in 1..3}
   \cup {Lay(n, {}, {Group3(0, a1, a1 + 1, a1 + 2, a1 + 3)}, NoB, NoB, NoB, NoB, NoB, NoB) : n \in 4..MaxN, a1 \in 1..2}
   \cup {Lay(n, {}, {Group12_3(0, a1, a1 + 1, a1 + 2)}, NoB, NoB, NoB, NoB, NoB, NoB) : n \in 3..MaxN, a1 \in 1..3}
   \cup {Lay(n, reps, {}, n, NoB, NoB, fine, NoB, NoB) : n \in 2..MaxN, reps \in {{}} \cup {{r} : r \in RepPairs(MaxN)}, fine \in {NoB, 1, 2, 3}}
   \cup {Lay(n, reps, {}, NoB, n, sg, fine, NoB, NoB) : n \in 3..MaxN, reps \in {{}} \cup {{r} : r \in RepPairs(MaxN)}, sg \in 1..2, fine \in {NoB, 2, 3}}
   \cup {Lay(n, {}, {Group2(0, a1, a1 + 1, a1 + 2)}, n, NoB, NoB, fine, NoB, NoB) : n \in 4..MaxN, a1 \in 1..2, fine \in {NoB, 3, 4}}
   \cup {Lay(n, {}, {}, n - 1, NoB, NoB, NoB, tc, n - 1) : n \in 4..MaxN, tc \in 1..2}
   \cup {Lay(n, {}, {}, NoB, n - 1, 1, NoB, 2, n - 1) : n \in 4..MaxN}
WellFormed(l) ==
   /\ \A r \in l.reps : r[2] <= l.N
   /\ \A r1, r2 \in l.reps : r1 # r2 => (Disjoint(r1, r2) \/ Nested(r1, r2) \/ Nested(r2, r1))
   /\ \A g \in l.groups : g.ends[Len(g.ends)][2] <= l.N /\ g.rs < g.ends[1][1]
   /\ (l.fine # NoB => l.fine < l.N /\ (l.dc # NoB \/ l.ds # NoB))
   /\ (l.fine # NoB /\ l.ds # NoB => l.fine > l.segno)
   \* a Fine at the end of a first (non-final) ending bracket has no agreed meaning
   /\ \A g \in l.groups : \A i \in 1..(Len(g.ends) - 1) : g.ends[i][2] # l.fine
   /\ \A r \in l.reps : (l.dc # NoB => r[2] <= l.dc) /\ (l.ds # NoB => r[2] <= l.ds)
Policies == {"all", "max", "maxnl", "min"}
NShards == 16
Shard == IF "SHARD" \in DOMAIN IOEnv THEN CHOOSE k \in 0..(NShards - 1) : ToString(k) = IOEnv.SHARD ELSE -1
RECURSIVE SumR(_)
SumR(S) == IF S = {} THEN 0 ELSE LET e == CHOOSE x \in S : TRUE IN e[1] + 3 * e[2] + SumR(S \ {e})
KeyOf(l) == l.N + SumR(l.reps) + Cardinality(l.groups) + l.fine + l.dc
Init == \E l \in {x \in Layouts : WellFormed(x) /\ (Shard = -1 \/ KeyOf(x) % NShards = Shard)}, pol \in Policies : UInit(l, pol)
Next == UNext
Spec == Init /\ [][Next]_uvars
PlainLay(l) == [N |-> l.N, reps |-> l.reps, dc |-> l.dc, ds |-> l.ds, segno |-> l.segno, fine |-> l.fine,
                tocoda |-> l.tocoda, coda |-> l.coda,
                groups |-> {[rs |-> g.rs, ends |-> g.ends] : g \in l.groups}]
Emit == /\ Bound
        /\ (ended => PrintT(ToJson([lay |-> PlainLay(lay), policy |-> policy, path |-> path])))
=============================================================================
