SPECIFICATION Spec
CONSTANT Source = "enum"
CONSTRAINT Report
INVARIANT NeverBeforeRelease
INVARIANT EndedOnlyAfterStrike
INVARIANT DryWhenNoPedal
CHECK_DEADLOCK FALSE
