SPECIFICATION TSpec
CONSTANTS
  ObjPool = {"o1", "o2", "o3", "o4", "o5", "o6", "o7", "o8", "o9", "o10", "o11", "o12"}
  ClassOf <- TR_ClassOf
  Sub <- TR_Sub
  MaxT = 64
  Quarters = {1, 2, 3, 4, 5, 6, 7, 8, 9, 10, 11, 12}
  MaxReq = 100
CONSTRAINT Report
INVARIANT TraceBackRefs
INVARIANT TraceLinks
CHECK_DEADLOCK FALSE
