-------------------------------- MODULE Rat --------------------------------
(* Exact rational arithmetic on pairs <<num, den>> (den > 0) within TLC's 32-bit integers. *)
EXTENDS Integers, Sequences

RECURSIVE GcdNat(_, _)
GcdNat(a, b) == IF b = 0 THEN a ELSE GcdNat(b, a % b)
Abs(x) == IF x < 0 THEN -x ELSE x
Gcd(a, b) == GcdNat(Abs(a), Abs(b))
Lcm(a, b) == IF a = 0 \/ b = 0 THEN 0 ELSE (Abs(a) \div Gcd(a, b)) * Abs(b)
RECURSIVE LcmSeq(_)
LcmSeq(s) == IF Len(s) = 0 THEN 1 ELSE Lcm(Head(s), LcmSeq(Tail(s)))
Norm(r) == LET g == Gcd(r[1], r[2]) IN IF g = 0 THEN <<0, 1>> ELSE <<r[1] \div g, r[2] \div g>>
R(n, d) == Norm(<<n, d>>)
RAdd(a, b) == Norm(<<a[1] * b[2] + b[1] * a[2], a[2] * b[2]>>)
RSub(a, b) == Norm(<<a[1] * b[2] - b[1] * a[2], a[2] * b[2]>>)
\* multiplication with cross-cancellation first (keeps intermediate products inside 32 bits)
RMul(a, b) == LET g1 == Gcd(a[1], b[2])  g2 == Gcd(b[1], a[2])
                  h1 == IF g1 = 0 THEN 1 ELSE g1  h2 == IF g2 = 0 THEN 1 ELSE g2
              IN Norm(<<(a[1] \div h1) * (b[1] \div h2), (a[2] \div h2) * (b[2] \div h1)>>)
RInv(b) == IF b[1] < 0 THEN <<-b[2], -b[1]>> ELSE <<b[2], b[1]>>
RDiv(a, b) == RMul(a, RInv(b))
RLess(a, b) == a[1] * b[2] < b[1] * a[2]
RLeq(a, b) == a[1] * b[2] <= b[1] * a[2]
REq(a, b) == a[1] * b[2] = b[1] * a[2]
RInt(n) == <<n, 1>>
IsInt(a) == a[1] % a[2] = 0
Floor(a) == a[1] \div a[2]
Ceil(a) == -((-a[1]) \div a[2])
\* round half to even (what numpy.round computes on exactly representable values)
RoundHalfEven(a) ==
   LET q == a[1] \div a[2]
       r == a[1] % a[2]
   IN IF 2 * r < a[2] THEN q ELSE IF 2 * r > a[2] THEN q + 1 ELSE IF q % 2 = 0 THEN q ELSE q + 1
Pow2(n) == IF n <= 0 THEN 1 ELSE IF n = 1 THEN 2 ELSE IF n = 2 THEN 4 ELSE IF n = 3 THEN 8 ELSE IF n = 4 THEN 16
           ELSE IF n = 5 THEN 32 ELSE IF n = 6 THEN 64 ELSE IF n = 7 THEN 128 ELSE IF n = 8 THEN 256
           ELSE IF n = 9 THEN 512 ELSE IF n = 10 THEN 1024 ELSE 2048
=============================================================================
