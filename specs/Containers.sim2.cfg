SPECIFICATION Spec
CONSTANTS
  NParts = 2
  Iters = {"a", "b", "c"}
ACTION_CONSTRAINT EmitEdge
