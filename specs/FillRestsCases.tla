--------------------------- MODULE FillRestsCases ---------------------------
(* Scenario source for FillRests.tla: a measure of Len grid steps and a voice of one to MaxNotes notes that start inside
   it (a note may reach beyond the barline; notes may overlap or coincide as in a chord).  Finished sweeps are printed
   and replayed into partitura.score.fill_rests (harness/checks/g06.py). *)
EXTENDS FillRests, Json, IOUtils, TLC

CONSTANTS Lens, MaxNotes
Spans(L) == {[on |-> a, off |-> b] : a \in 0..(L - 1), b \in 1..(L + 1)}
Lists(L) == UNION {[1..n -> {s \in Spans(L) : s.on < s.off}] : n \in 1..MaxNotes}
Init == \E L \in Lens : \E f \in Lists(L) : SweepInit([len |-> L, notes |-> f])
Next == SweepNext
Spec == Init /\ [][Next]_fvars
Report == IF Done THEN PrintT(ToJson([len |-> sc.len, notes |-> sc.notes, gaps |-> gaps])) ELSE TRUE
=============================================================================
