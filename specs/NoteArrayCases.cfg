SPECIFICATION Spec
CONSTRAINT Emit
INVARIANT InvRows
INVARIANT InvTies
CHECK_DEADLOCK FALSE
