----------------------------- MODULE Durations -----------------------------
(* Notated durations: type x dots x tuplet ratio <-> exact quarters; tempo units; seconds <-> ticks. *)
EXTENDS Rat, FiniteSets, TLC

\* note types with their length in 64ths of a quarter
TypeNames == <<"long", "breve", "whole", "half", "quarter", "eighth", "16th", "32nd", "64th", "128th", "256th">>
Type64 == [long |-> 1024, breve |-> 512, whole |-> 256, half |-> 128, quarter |-> 64, eighth |-> 32,
           h |-> 128, q |-> 64, e |-> 32]
T64(ty) == CASE ty = "16th" -> 16 [] ty = "32nd" -> 8 [] ty = "64th" -> 4 [] ty = "128th" -> 2 [] ty = "256th" -> 1
             [] OTHER -> Type64[ty]
TypeSet == {TypeNames[i] : i \in 1..Len(TypeNames)}
UnitLabels == TypeSet \cup {"h", "q", "e"}
\* d dots multiply by 2 - 2^-d = (2^(d+1) - 1) / 2^d
DotMult(d) == R(Pow2(d + 1) - 1, Pow2(d))
\* length in quarters of type ty with d dots under an actual:normal tuplet
SymQuarters(ty, d, actual, normal) == RMul(RMul(R(T64(ty), 64), DotMult(d)), R(normal, actual))
\* numeric duration in divisions
SymToNumeric(ty, d, actual, normal, divs) == RMul(RInt(divs), SymQuarters(ty, d, actual, normal))
\* tempo "unit = bpm" expressed in quarters per minute
QuarterTempo(unit, d, bpm) == RMul(RInt(bpm), RMul(R(T64(unit), 64), DotMult(d)))
\* microseconds per quarter: 60e6 / quarter tempo, rounded
MicrosecondsPerQuarter(unit, d, bpm) == RoundHalfEven(RDiv(RInt(60000000), QuarterTempo(unit, d, bpm)))
\* seconds (num/den) -> ticks with mpq given in milliseconds (mpq = 1000 * mpqk)
SecondsToTicks(sec, ppq, mpqk) == RoundHalfEven(RDiv(RMul(RInt(1000 * ppq), sec), RInt(mpqk)))
TicksToSeconds(ticks, ppq, mpqk) == R(ticks * mpqk, 1000 * ppq)

ASSUME DotValues == DotMult(0) = <<1, 1>> /\ DotMult(1) = <<3, 2>> /\ DotMult(2) = <<7, 4>> /\ DotMult(3) = <<15, 8>>
ASSUME TickRoundTrip == \A t \in 0..200, ppq \in {24, 96, 480}, mpqk \in {250, 500, 600} :
                          SecondsToTicks(TicksToSeconds(t, ppq, mpqk), ppq, mpqk) = t
=============================================================================
