SPECIFICATION Spec
CONSTANT Strict = FALSE
CONSTANT MaxT = 2
CONSTANT Depth = 3
INVARIANT Ordered
CHECK_DEADLOCK FALSE
