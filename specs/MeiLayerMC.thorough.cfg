SPECIFICATION MCSpec
CONSTANTS
  MaxEvents = 8
  Durs = {2, 4}
INVARIANT MCursorInMeasure
INVARIANT MMeasuresTile
INVARIANT MTiesJoinEqualPitches
INVARIANT MeasureAsLongAsLongestLayer
INVARIANT NoRuleBrokenM
INVARIANT RepeatsWellFormed
CHECK_DEADLOCK FALSE
