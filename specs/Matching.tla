------------------------------ MODULE Matching ------------------------------
(***************************************************************************)
(* Growth beyond the listed properties: match_note_arrays, the greedy      *)
(* matching of two note arrays of the same music (a performance in two     *)
(* formats, a score and its MIDI rendering).                               *)
(*                                                                         *)
(* Two phases, as in the code.  Claim: every target note, in onset order,  *)
(* claims one input note of its pitch whose onset is within epsilon (one   *)
(* grid step here) - the one closest in duration when durations are        *)
(* compared, the first in onset order otherwise or on a tie.  Settle:      *)
(* every claimed input note is matched with one of its claimants - the one *)
(* closest in duration, the first claimant otherwise or on a tie.          *)
(***************************************************************************)
EXTENDS Integers, Sequences, FiniteSets

Abs(x) == IF x < 0 THEN -x ELSE x
MinOf(S) == CHOOSE x \in S : \A y \in S : x <= y
Near(a, b) == Abs(a - b) <= 1

VARIABLES sc,       \* [inp, tgt |-> sequences of [p, on, dur], dur |-> compare durations]
          phase,    \* "claim", "settle", "done"
          todo,     \* targets (claim) or inputs (settle) still to be handled
          claims,   \* claims[i]: sequence of targets that claimed input i, in the order they did
          pairs     \* the matching: set of <<input, target>>
mvars == <<sc, phase, todo, claims, pairs>>
NI == Len(sc.inp)
NT == Len(sc.tgt)

(* onset order; rows with equal onsets keep their order in the array *)
Before(ns, a, b) == ns[a].on < ns[b].on \/ (ns[a].on = ns[b].on /\ a < b)
FirstOf(ns, S) == CHOOSE a \in S : \A b \in S \ {a} : Before(ns, a, b)
Candidates(t) == {i \in 1..NI : sc.inp[i].p = sc.tgt[t].p /\ Near(sc.inp[i].on, sc.tgt[t].on)}
Gap(i, t) == Abs(sc.inp[i].dur - sc.tgt[t].dur)
ClaimOf(t) == LET C == Candidates(t) IN
              IF sc.dur /\ Cardinality(C) > 1
              THEN FirstOf(sc.inp, {i \in C : \A j \in C : Gap(i, t) <= Gap(j, t)})
              ELSE FirstOf(sc.inp, C)
PosIn(s, x) == CHOOSE k \in 1..Len(s) : s[k] = x
WinnerOf(i) == LET s == claims[i]  S == {s[k] : k \in 1..Len(s)} IN
               IF sc.dur /\ Len(s) > 1
               THEN LET best == {t \in S : \A u \in S : Gap(i, t) <= Gap(i, u)}
                    IN CHOOSE t \in best : \A u \in best : PosIn(s, t) <= PosIn(s, u)
               ELSE s[1]

MatchInit(x) == /\ sc = x /\ phase = "claim" /\ todo = 1..Len(x.tgt)
                /\ claims = [i \in 1..Len(x.inp) |-> <<>>] /\ pairs = {}
Claim == /\ phase = "claim" /\ todo # {}
         /\ LET t == FirstOf(sc.tgt, todo) IN
              /\ claims' = IF Candidates(t) = {} THEN claims ELSE [claims EXCEPT ![ClaimOf(t)] = Append(@, t)]
              /\ todo' = todo \ {t}
         /\ UNCHANGED <<sc, phase, pairs>>
Turn == /\ phase = "claim" /\ todo = {}
        /\ phase' = "settle" /\ todo' = {i \in 1..NI : claims[i] # <<>>}
        /\ UNCHANGED <<sc, claims, pairs>>
Settle == /\ phase = "settle" /\ todo # {}
          /\ \E i \in todo : pairs' = pairs \cup {<<i, WinnerOf(i)>>} /\ todo' = todo \ {i}
          /\ UNCHANGED <<sc, phase, claims>>
Finish == phase = "settle" /\ todo = {} /\ phase' = "done" /\ UNCHANGED <<sc, todo, claims, pairs>>
MatchNext == Claim \/ Turn \/ Settle \/ Finish
Done == phase = "done"

(* ---- properties ---- *)
PairsValid == \A pr \in pairs : sc.inp[pr[1]].p = sc.tgt[pr[2]].p /\ Near(sc.inp[pr[1]].on, sc.tgt[pr[2]].on)
OneToOne == \A a, b \in pairs : (a[1] = b[1] \/ a[2] = b[2]) => a = b
ClosestWins == sc.dur => \A pr \in pairs : \A k \in 1..Len(claims[pr[1]]) : Gap(pr[1], pr[2]) <= Gap(pr[1], claims[pr[1]][k])
(* nothing matchable is left out on the input side: an input note that was claimed is matched *)
ClaimedAreMatched == Done => \A i \in 1..NI : claims[i] # <<>> => \E pr \in pairs : pr[1] = i
(* the same array twice, with no two notes of one pitch within epsilon of each other: every note finds itself *)
Confusable(ns) == \E a, b \in 1..Len(ns) : a # b /\ ns[a].p = ns[b].p /\ Near(ns[a].on, ns[b].on)
SameArrayMatchesItself == (Done /\ sc.inp = sc.tgt /\ ~Confusable(sc.inp)) => pairs = {<<k, k>> : k \in 1..NI}
(* ... and with durations compared, chords of equal pitches with different durations find themselves too *)
SameOnsetTwins(ns) == \E a, b \in 1..Len(ns) : a # b /\ ns[a].p = ns[b].p /\ Near(ns[a].on, ns[b].on)
                                                  /\ (ns[a].on # ns[b].on \/ ns[a].dur = ns[b].dur)
SameArrayWithDurations == (Done /\ sc.dur /\ sc.inp = sc.tgt /\ ~SameOnsetTwins(sc.inp)) => pairs = {<<k, k>> : k \in 1..NI}
=============================================================================
