--------------------------- MODULE ScoreMidiCases ---------------------------
EXTENDS ScoreMidi, Json, IOUtils, TLCExt, SequencesExt
VARIABLES c, d, S, W, F
FileCases == TLCEval(JsonDeserialize(IOEnv.CASE_FILE))
Cfg(r) == [T |-> r.T, qtab |-> ToSet(r.qtab), ts |-> ToSet(r.ts), ks |-> ToSet(r.ks), clefs |-> ToSet(r.clefs),
           measures |-> ToSet(r.measures), musical |-> r.musical, nstaves |-> r.nstaves]
NormCase(x) == [x EXCEPT !.parts = [i \in 1..Len(x.parts) |-> [cfg |-> Cfg(x.parts[i].cfg), notes |-> x.parts[i].notes,
                                                            group |-> x.parts[i].group, tempos |-> x.parts[i].tempos]]]
Init == /\ c \in {NormCase(FileCases[i]) : i \in 1..Len(FileCases)}
        /\ d = Derive(c)
        /\ S = Sounding(c, d)
        /\ W = UNION {d.tr[t].notes : t \in 1..Len(c.tracks)}
        /\ F = {k \in DOMAIN Clauses(c, d, S, W) : ~Clauses(c, d, S, W)[k]}
Next == UNCHANGED <<c, d, S, W, F>>
Spec == Init /\ [][Next]_<<c, d, S, W, F>>
Emit == PrintT(ToJson([cid |-> c.cid, failing |-> F, ppq |-> d.ppq, ftp |-> d.ftp,
                       sounding |-> {[id |-> n.id, pitch |-> n.pitch, on |-> n.on, off |-> n.off, ipart |-> n.ipart, ivoice |-> n.ivoice] : n \in S},
                       ts |-> [i \in 1..Len(c.parts) |-> MetaTicks(d, i, c.parts[i].cfg.ts)],
                       ks |-> [i \in 1..Len(c.parts) |-> MetaTicks(d, i, c.parts[i].cfg.ks)],
                       tempos |-> [i \in 1..Len(c.parts) |-> MetaTicks(d, i, ToSet(c.parts[i].tempos))],
                       written_ts |-> [t \in 1..Len(c.tracks) |-> d.tr[t].tss],
                       written_ks |-> [t \in 1..Len(c.tracks) |-> d.tr[t].kss],
                       written_tempos |-> UNION {{d.tr[t].tempos[k] : k \in 1..Len(d.tr[t].tempos)} : t \in 1..Len(c.tracks)}]))
=============================================================================
