------------------------------- MODULE Unfold -------------------------------
(***************************************************************************)
(* C09: the repeat / volta / navigation machine.  A layout is N bars       *)
(* (boundaries 0..N) with simple repeats <<s, e>>, ending groups           *)
(* [rs, ends |-> << <<a1, a2, nums1>>, <<a2, a3, nums2>>, .. >>] and the   *)
(* boundaries of D.C., D.S., Segno, Fine, To Coda, Coda (NoB = absent).    *)
(* The machine plays bars; its steps are "continue" or a jump justified by *)
(* a mark at the boundary reached.  Policies: "all" (every repeat          *)
(* construct independently performed as notated or passed through once),   *)
(* "max" (everything as notated, repeats again after the leap), "maxnl"    *)
(* (no repeats after the leap), "min" (each section once, last ending, no  *)
(* leap).  An unfolding is valid iff its bar sequence is a complete        *)
(* behaviour of this machine.                                              *)
(***************************************************************************)
EXTENDS Integers, FiniteSets, Sequences, TLC

NoB == 99
VARIABLES lay,      \* the layout (constant along a behaviour)
          bar,      \* next bar to play, or N when the end has been reached
          path,     \* sequence of bars played
          rpass,    \* [lay.reps -> 1..2] current pass of each simple repeat
          gpass,    \* [lay.groups -> Nat] current pass of each ending group
          leapt,    \* a DaCapo/DalSegno has been taken
          ended,
          policy    \* "all", "max", "maxnl", "min"
uvars == <<lay, bar, path, rpass, gpass, leapt, ended, policy>>

N == lay.N
EndingIdx(g, p) == CHOOSE i \in 1..Len(g.ends) : p \in g.ends[i][3]
FirstStart(g) == g.ends[1][1]
LastIdx(g) == Len(g.ends)
MinNum(S) == CHOOSE m \in S : \A x \in S : m <= x

UInit(l, pol) == /\ lay = l /\ bar = 0 /\ path = <<>>
                 /\ rpass = [r \in l.reps |-> 1] /\ gpass = [g \in l.groups |-> 1]
                 /\ leapt = FALSE /\ ended = FALSE /\ policy = pol

NoRepeatsNow == policy = "min" \/ (policy = "maxnl" /\ leapt)
MayChoose == policy = "all"

\* entering bar b: if b is the first bracket of a group, go to the ending for the current pass
EnterTarget(b) ==   \* set of <<bar to play, updated gpass>>
  LET gs == {g \in lay.groups : FirstStart(g) = b} IN
  IF gs = {} THEN {<<b, gpass>>}
  ELSE LET g == CHOOSE x \in gs : TRUE
           cur == EndingIdx(g, gpass[g])
       IN IF NoRepeatsNow
            THEN {<<g.ends[LastIdx(g)][1], [gpass EXCEPT ![g] = MinNum(g.ends[LastIdx(g)][3])]>>}
          ELSE IF MayChoose
            THEN {<<g.ends[j][1], [gpass EXCEPT ![g] = IF j = cur THEN gpass[g] ELSE MinNum(g.ends[j][3])]>> : j \in cur..LastIdx(g)}
          ELSE {<<g.ends[cur][1], gpass>>}

\* the boundary b is being passed: Fine / To Coda after a leap, then the leap marks, then plain continuation
LeapOrContinue(b, rp, gp) ==
   IF leapt /\ lay.fine = b THEN /\ ended' = TRUE /\ bar' = N /\ rpass' = rp /\ gpass' = gp /\ leapt' = leapt
   ELSE IF leapt /\ lay.tocoda = b /\ lay.coda # NoB
        THEN /\ bar' = lay.coda /\ ended' = (lay.coda = N) /\ rpass' = rp /\ gpass' = gp /\ leapt' = leapt
   ELSE IF ~leapt /\ (lay.dc = b \/ lay.ds = b) /\ policy # "min" THEN
        \/ /\ bar' = (IF lay.dc = b THEN 0 ELSE lay.segno) /\ leapt' = TRUE /\ ended' = FALSE
           /\ rpass' = [x \in lay.reps |-> 1] /\ gpass' = [g \in lay.groups |-> 1]
        \/ /\ MayChoose
           /\ IF b = N THEN ended' = TRUE /\ bar' = N ELSE ended' = FALSE /\ bar' = b
           /\ rpass' = rp /\ gpass' = gp /\ leapt' = leapt
   ELSE /\ IF b = N THEN ended' = TRUE /\ bar' = N ELSE ended' = FALSE /\ bar' = b
        /\ rpass' = rp /\ gpass' = gp /\ leapt' = leapt

\* Play: play bar `bar` (after resolving ending selection), then resolve the boundary reached
Play ==
  /\ ~ended /\ bar < N
  /\ \E tgt \in EnterTarget(bar) :
       LET b0 == tgt[1]           \* bar actually played
           gp0 == tgt[2]
           b == b0 + 1            \* boundary reached
       IN /\ path' = Append(path, b0)
          /\ UNCHANGED <<policy, lay>>
          /\ LET nf == {g \in lay.groups : \E i \in 1..(Len(g.ends)-1) : g.ends[i][2] = b /\ EndingIdx(g, gp0[g]) = i /\ g.ends[i][1] <= b0}
                 lastEnd == {g \in lay.groups : g.ends[LastIdx(g)][2] = b /\ EndingIdx(g, gp0[g]) = LastIdx(g)}
                 re == {r \in lay.reps : r[2] = b}
             IN IF nf # {} THEN
                   \* end of a non-final ending: back to the repeat start with the next pass
                   LET g == CHOOSE x \in nf : TRUE IN
                   /\ bar' = g.rs /\ gpass' = [gp0 EXCEPT ![g] = gp0[g] + 1]
                   /\ rpass' = rpass /\ leapt' = leapt /\ ended' = FALSE
                ELSE LET gp1 == [g \in lay.groups |-> IF g \in lastEnd THEN 1 ELSE gp0[g]] IN
                     IF re # {} /\ ~NoRepeatsNow /\ \E r \in re : rpass[r] = 1 THEN
                        LET r == CHOOSE x \in re : rpass[x] = 1 /\ \A y \in re : rpass[y] = 1 => x[1] >= y[1] IN  \* innermost first
                        \/ /\ bar' = r[1] /\ rpass' = [rpass EXCEPT ![r] = 2] /\ gpass' = gp1 /\ leapt' = leapt /\ ended' = FALSE
                        \/ /\ MayChoose
                           /\ LET rp1 == [x \in lay.reps |-> IF x \in re THEN 1 ELSE rpass[x]] IN
                              LeapOrContinue(b, rp1, gp1)
                     ELSE LET rp1 == [x \in lay.reps |-> IF x \in re THEN 1 ELSE rpass[x]] IN
                          LeapOrContinue(b, rp1, gp1)

UNext == Play
Bound == Len(path) <= 60

(* ---- properties of the machine ---- *)
BarsInRange == \A i \in 1..Len(path) : path[i] \in 0..(N - 1)
\* a step either continues with the following bar or jumps to a place justified by a mark
JumpsJustified ==
   \A i \in 1..(Len(path) - 1) :
      \/ path[i + 1] = path[i] + 1
      \/ \E r \in lay.reps : r[2] = path[i] + 1 /\ r[1] = path[i + 1]
      \/ \E g \in lay.groups : path[i + 1] = g.rs \/ \E j \in 1..Len(g.ends) : g.ends[j][1] = path[i + 1]
      \/ (lay.dc = path[i] + 1 /\ path[i + 1] = 0)
      \/ (lay.ds = path[i] + 1 /\ path[i + 1] = lay.segno)
      \/ (lay.tocoda = path[i] + 1 /\ path[i + 1] = lay.coda)
NoStructureIsIdentity ==
   (ended /\ lay.reps = {} /\ lay.groups = {} /\ lay.dc = NoB /\ lay.ds = NoB) => path = [i \in 1..N |-> i - 1]
=============================================================================
