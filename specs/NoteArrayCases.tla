--------------------------- MODULE NoteArrayCases ---------------------------
(* Cases for C05 read from a file (seeded random scores built by the harness); TLC is the oracle for the table. *)
EXTENDS NoteArray, Json, IOUtils, TLCExt, SequencesExt
VARIABLE c
FileCases == TLCEval(JsonDeserialize(IOEnv.CASE_FILE))
Cfg(r) == [T |-> r.T, qtab |-> ToSet(r.qtab), ts |-> ToSet(r.ts), ks |-> ToSet(r.ks), clefs |-> ToSet(r.clefs),
           measures |-> ToSet(r.measures), musical |-> r.musical, nstaves |-> r.nstaves]
Parts(x) == [i \in 1..Len(x.parts) |-> [cfg |-> Cfg(x.parts[i].cfg), notes |-> x.parts[i].notes]]
Init == c \in {FileCases[i] : i \in 1..Len(FileCases)}
Next == UNCHANGED c
Spec == Init /\ [][Next]_c
Expect == LET ps == Parts(c) IN
   [score_rows |-> ScoreRows(ps, c.unique_ids),
    part_rows |-> [i \in 1..Len(ps) |-> PartRows(ps[i].cfg, ps[i].notes, 1, "", 0)],
    rest_rows |-> [i \in 1..Len(ps) |-> PartRows(ps[i].cfg, ps[i].notes, 1, "", 1)]]
Emit == PrintT(ToJson([cid |-> c.cid, out |-> Expect]))
InvRows == \A i \in 1..Len(c.parts) : OneRowPerSoundingNote(c.parts[i].notes, PartRows(Cfg(c.parts[i].cfg), c.parts[i].notes, 1, "", 0))
InvTies == \A i \in 1..Len(c.parts) : TieChainsCoverEveryNote(c.parts[i].notes) /\ GraceHasZeroDuration(c.parts[i].notes)
=============================================================================
