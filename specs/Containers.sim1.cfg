SPECIFICATION Spec
CONSTANTS
  NParts = 1
  Iters = {"a", "b", "c"}
ACTION_CONSTRAINT EmitEdge
