SPECIFICATION Spec
CONSTANT Strict = TRUE
CONSTANT MaxT = 2
CONSTANT Depth = 3
INVARIANT Ordered
INVARIANT NeverNegative
PROPERTY RefusedChangesNothing
CHECK_DEADLOCK FALSE
