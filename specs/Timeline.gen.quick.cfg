SPECIFICATION Spec
CONSTANTS
  ObjPool = {"o1", "o2"}
  ClassOf <- MC_ClassOf
  Sub <- MC_Sub
  MaxT = 2
  Quarters = {1, 2}
  MaxReq = 1
CONSTRAINT Bounded
VIEW View
ACTION_CONSTRAINT EmitEdge
