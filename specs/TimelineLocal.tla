---------------------------- MODULE TimelineLocal ----------------------------
(***************************************************************************)
(* Abstraction of Timeline in which objects are forgotten and only the     *)
(* number of registrations (starting + ending objects) per time point is   *)
(* kept.  It is what an env-guarded hook inside partitura can log cheaply  *)
(* (scalars only), and it is a refinement target of Timeline: TLC checks   *)
(* in Timeline.mc.*.cfg that every behaviour of Timeline is a behaviour of *)
(* this specification under  cnt[t] = #objects starting or ending at t.    *)
(***************************************************************************)
EXTENDS Integers, FiniteSets, Sequences, TLC

CONSTANTS LTimes,      \* set of admissible times
          LQuarters    \* set of admissible quarter durations
VARIABLES lpts,        \* set of times that are time points
          lcnt,        \* [lpts -> Nat] registrations per point
          lqtab        \* quarter table
lvars == <<lpts, lcnt, lqtab>>
LNone == -1

LMax(S) == CHOOSE x \in S : \A y \in S : y <= x
LMin(S) == CHOOSE x \in S : \A y \in S : x <= y
LPrevIn(P, t) == LET S == {u \in P : u < t} IN IF S = {} THEN LNone ELSE LMax(S)
LNextIn(P, t) == LET S == {u \in P : u > t} IN IF S = {} THEN LNone ELSE LMin(S)
\* linear-time characterisations (used on long traces): x is the predecessor / successor of t in P
IsPrevIn(P, t, x) == IF x = LNone THEN \A u \in P : u >= t ELSE x \in P /\ x < t /\ \A u \in P : ~(x < u /\ u < t)
IsNextIn(P, t, x) == IF x = LNone THEN \A u \in P : u <= t ELSE x \in P /\ x > t /\ \A u \in P : ~(t < u /\ u < x)
LQAtIn(tab, t) == LET S == {u \in DOMAIN tab : u <= t} IN tab[LMax(S)]
LNextEntryAfter(tab, t) == LET S == {u \in DOMAIN tab : u > t} IN IF S = {} THEN LNone ELSE LMin(S)

LInit == lpts = {} /\ lcnt = <<>> /\ lqtab \in {[t \in {0} |-> q] : q \in LQuarters}

Bump(c, P, ts) ==   \* counts after registering once at every element of the sequence ts (-1 skipped)
   [t \in P |-> (IF t \in DOMAIN c THEN c[t] ELSE 0)
                  + Cardinality({i \in 1..Len(ts) : ts[i] = t})]
\* add(o, start=s, end=e)
LAdd(s, e) ==
   /\ s # LNone \/ e # LNone
   /\ lpts' = lpts \cup ({s, e} \ {LNone})
   /\ lcnt' = Bump(lcnt, lpts', <<s, e>>)
   /\ UNCHANGED lqtab
\* remove(o, which): s / e are the times of the endpoints that were actually deregistered
LRemove(s, e) ==
   /\ \A t \in {s, e} \ {LNone} : t \in lpts /\ lcnt[t] >= Cardinality({i \in 1..2 : <<s, e>>[i] = t})
   /\ LET c2 == [t \in lpts |-> lcnt[t] - Cardinality({i \in 1..2 : <<s, e>>[i] = t})]
          gone == {t \in {s, e} \ {LNone} : c2[t] = 0}
      IN /\ lpts' = lpts \ gone
         /\ lcnt' = [t \in lpts' |-> c2[t]]
   /\ UNCHANGED lqtab
LPoint(t) == /\ lpts' = lpts \cup {t}
             /\ lcnt' = [u \in lpts' |-> IF u \in lpts THEN lcnt[u] ELSE 0]
             /\ UNCHANGED lqtab
LSetQTables(t, q) ==
   { tab \in { [u \in (DOMAIN lqtab) \cup {t} |-> IF u = t THEN q ELSE lqtab[u]] ,
               [u \in (DOMAIN lqtab) \ {t} |-> lqtab[u]] } :
        /\ 0 \in DOMAIN tab
        /\ \A u \in (DOMAIN lqtab) \cup {t} :    \* piecewise constant: checking at the entries suffices
              LQAtIn(tab, u) = IF t <= u /\ (LNextEntryAfter(lqtab, t) = LNone \/ u < LNextEntryAfter(lqtab, t))
                               THEN q ELSE LQAtIn(lqtab, u) }
LSetQ(t, q) == /\ \E tab \in LSetQTables(t, q) : lqtab' = tab
               /\ UNCHANGED <<lpts, lcnt>>
\* direct TimePoint.add_*/remove_* call on an existing point (bypasses Part: no clean-up)
LTp(t, d) == /\ t \in lpts /\ lcnt[t] + d >= 0
             /\ lcnt' = [lcnt EXCEPT ![t] = @ + d]
             /\ UNCHANGED <<lpts, lqtab>>

LNext == \/ \E s \in LTimes \cup {LNone}, e \in LTimes \cup {LNone} : LAdd(s, e) \/ LRemove(s, e)
         \/ \E t \in LTimes : LPoint(t) \/ \E q \in LQuarters : LSetQ(t, q)
LSpec == LInit /\ [][LNext]_lvars
=============================================================================
