------------------------------ MODULE Timeline ------------------------------
(***************************************************************************)
(* The timeline of a partitura Part (property C01).                        *)
(*                                                                         *)
(* Abstract state: which object starts/ends where, the set of time points, *)
(* the quarter-duration table.  Everything else a user can observe of a    *)
(* Part's timeline (prev/next links, per-class registries, the quarter     *)
(* carried by each point, every query result) is a *derived* operator of   *)
(* this state, so "the part is exactly the collection of the objects       *)
(* registered on it" is the statement that the implementation's projection *)
(* equals these operators after every action.                              *)
(*                                                                         *)
(* One action per public call of Part: add, remove, get_or_add_point,      *)
(* set_quarter_duration.  Queries are read-only operators.                 *)
(***************************************************************************)
EXTENDS Integers, FiniteSets, Sequences, TLC

CONSTANTS ObjPool,      \* object identifiers available to the model (strings)
          ClassOf,      \* [ObjPool -> Classes]  (an object's class never changes)
          Sub,          \* [Classes -> SUBSET Classes]  proper subclasses (transitive closure)
          MaxT,         \* times are 0..MaxT
          Quarters,     \* admissible quarter durations
          MaxReq        \* bound on simultaneously "requested but empty" points (state constraint)

VARIABLES start,   \* [ObjPool -> Times \cup {None}]
          end,     \* [ObjPool -> Times \cup {None}]
          pts,     \* SUBSET Times : the time points of the part
          qtab,    \* function from a finite set of times (containing 0) to Quarters
          last     \* label of the last action taken (observation only; hidden by VIEW)

vars == <<start, end, pts, qtab>>
allvars == <<start, end, pts, qtab, last>>
None == -1
Times == 0..MaxT
Classes == DOMAIN Sub

(***************************** derived state *****************************)
Occupied == ({start[o] : o \in ObjPool} \cup {end[o] : o \in ObjPool}) \ {None}
OccupiedOf(st, en) == ({st[o] : o \in ObjPool} \cup {en[o] : o \in ObjPool}) \ {None}
Req == pts \ Occupied                 \* points that exist although nothing starts/ends there
Max(S) == CHOOSE x \in S : \A y \in S : y <= x
Min(S) == CHOOSE x \in S : \A y \in S : x <= y
PrevIn(P, t) == LET S == {u \in P : u < t} IN IF S = {} THEN None ELSE Max(S)
NextIn(P, t) == LET S == {u \in P : u > t} IN IF S = {} THEN None ELSE Min(S)
Prev(t) == PrevIn(pts, t)
Next_(t) == NextIn(pts, t)
QAtIn(tab, t) == LET S == {u \in DOMAIN tab : u <= t} IN tab[Max(S)]
QAt(t) == QAtIn(qtab, t)
NextEntryAfter(tab, t) == LET S == {u \in DOMAIN tab : u > t} IN IF S = {} THEN None ELSE Min(S)
IsA(c, d, sub) == c = d \/ (sub /\ c \in Sub[d])
Starting(t, c, sub) == {o \in ObjPool : start[o] = t /\ IsA(ClassOf[o], c, sub)}
Ending(t, c, sub) == {o \in ObjPool : end[o] = t /\ IsA(ClassOf[o], c, sub)}

\* iter_all(cls, start=s, end=e, include_subclasses=sub, mode): half-open interval [s, e) over
\* point times; the result is the set of <<time, object>> pairs (order inside one time point is
\* not part of the statement; order across time points is by time).
IterAll(c, s, e, sub, mode) ==
   { <<t, o>> \in pts \X ObjPool :
        /\ (s = None \/ t >= s) /\ (e = None \/ t < e)
        /\ IF mode = "ending" THEN o \in Ending(t, c, sub) ELSE o \in Starting(t, c, sub) }
\* TimePoint.iter_prev / iter_next(cls, eq, include_subclasses) from the point at time t
IterPrev(t, c, eq, sub) ==
   { <<u, o>> \in pts \X ObjPool : (u < t \/ (eq /\ u = t)) /\ o \in Starting(u, c, sub) }
IterNext(t, c, eq, sub) ==
   { <<u, o>> \in pts \X ObjPool : (u > t \/ (eq /\ u = t)) /\ o \in Starting(u, c, sub) }
FirstPoint == IF pts = {} THEN None ELSE Min(pts)
LastPoint == IF pts = {} THEN None ELSE Max(pts)
GetPoint(t) == IF t \in pts THEN t ELSE None
\* quarter_durations(s, e): table entries with s <= time < e
QuarterDurations(s, e) ==
   { <<t, qtab[t]>> : t \in {u \in DOMAIN qtab : (s = None \/ u >= s) /\ (e = None \/ u < e)} }

(******************************** actions ********************************)
Init == /\ start = [o \in ObjPool |-> None]
        /\ end = [o \in ObjPool |-> None]
        /\ pts = {}
        /\ qtab \in {[t \in {0} |-> q] : q \in Quarters}
        /\ last = <<"init">>

\* add(o, start=s, end=e); None = keyword omitted.  Valid arguments: an endpoint is given only
\* if the object does not have it yet; s <= e when both are known.
AddEnabled(o, s, e) ==
   /\ s # None \/ e # None
   /\ s # None => start[o] = None
   /\ e # None => end[o] = None
   /\ (s # None /\ e # None) => s <= e
   /\ (s # None /\ e = None /\ end[o] # None) => s <= end[o]
   /\ (e # None /\ s = None /\ start[o] # None) => start[o] <= e
Add(o, s, e) ==
   /\ AddEnabled(o, s, e)
   /\ start' = IF s # None THEN [start EXCEPT ![o] = s] ELSE start
   /\ end' = IF e # None THEN [end EXCEPT ![o] = e] ELSE end
   /\ pts' = pts \cup ({s, e} \ {None})
   /\ UNCHANGED qtab

\* remove(o, which): a point disappears exactly when nothing starts or ends there any more
Remove(o, w) ==
   /\ start' = IF w \in {"start", "both"} THEN [start EXCEPT ![o] = None] ELSE start
   /\ end' = IF w \in {"end", "both"} THEN [end EXCEPT ![o] = None] ELSE end
   /\ LET touched == ((IF w \in {"start","both"} THEN {start[o]} ELSE {})
                       \cup (IF w \in {"end","both"} THEN {end[o]} ELSE {})) \ {None}
      IN pts' = pts \ (touched \ OccupiedOf(start', end'))
   /\ UNCHANGED qtab

GetOrAddPoint(t) == /\ pts' = pts \cup {t} /\ UNCHANGED <<start, end, qtab>>

\* set_quarter_duration(t, q): q is in force on [t, next table entry after t); nothing else changes.
\* The table gets an entry at t unless it is redundant w.r.t. the value in force just before t
\* (docstring); when redundant, both "no entry" and "entry" are acceptable representations.
SetQuarterTables(t, q) ==
   { tab \in { [u \in (DOMAIN qtab) \cup {t} |-> IF u = t THEN q ELSE qtab[u]] ,
               [u \in (DOMAIN qtab) \ {t} |-> qtab[u]] } :
        /\ 0 \in DOMAIN tab
        /\ \A u \in Times \cup {MaxT + 1} :
              QAtIn(tab, u) = IF t <= u /\ (NextEntryAfter(qtab, t) = None \/ u < NextEntryAfter(qtab, t))
                              THEN q ELSE QAt(u) }
SetQuarter(t, q) ==
   /\ \E tab \in SetQuarterTables(t, q) : qtab' = tab
   /\ UNCHANGED <<start, end, pts>>

DoAdd == \E o \in ObjPool, s \in Times \cup {None}, e \in Times \cup {None} :
             Add(o, s, e) /\ last' = <<"add", o, s, e>>
DoRemove == \E o \in ObjPool, w \in {"start", "end", "both"} :
             Remove(o, w) /\ last' = <<"remove", o, w>>
DoPoint == \E t \in Times : GetOrAddPoint(t) /\ last' = <<"point", t>>
DoSetQuarter == \E t \in Times, q \in Quarters : SetQuarter(t, q) /\ last' = <<"setq", t, q>>
Next == DoAdd \/ DoRemove \/ DoPoint \/ DoSetQuarter

Spec == Init /\ [][Next]_allvars

(******************************* properties *******************************)
TypeOK == /\ start \in [ObjPool -> Times \cup {None}] /\ end \in [ObjPool -> Times \cup {None}]
          /\ pts \subseteq Times /\ 0 \in DOMAIN qtab /\ DOMAIN qtab \subseteq Times
          /\ \A t \in DOMAIN qtab : qtab[t] \in Quarters
NonNegative == \A t \in pts : t >= 0
BackRefs == Occupied \subseteq pts                           \* every endpoint refers to a point of the part
NeverEmptyUnlessRequested == TRUE                            \* Req is by definition pts \ Occupied; see NoOrphans
StartBeforeEnd == \A o \in ObjPool : (start[o] # None /\ end[o] # None) => start[o] <= end[o]
Bounded == Cardinality(Req) <= MaxReq                        \* state constraint, not a property
LinksConsistent == \A t \in pts : /\ (Prev(t) # None => Next_(Prev(t)) = t)
                                  /\ (Next_(t) # None => Prev(Next_(t)) = t)
                                  /\ (Prev(t) = None <=> t = FirstPoint)
                                  /\ (Next_(t) = None <=> t = LastPoint)
QueriesExact == \A c \in Classes, sub \in BOOLEAN :
                  /\ IterAll(c, None, None, sub, "starting")
                       = { <<start[o], o>> : o \in {x \in ObjPool : start[x] # None /\ IsA(ClassOf[x], c, sub)} }
                  /\ IterAll(c, None, None, sub, "ending")
                       = { <<end[o], o>> : o \in {x \in ObjPool : end[x] # None /\ IsA(ClassOf[x], c, sub)} }
\* iter_prev / iter_next partition iter_all at any point
NeighbourQueriesPartition ==
   \A t \in pts, c \in Classes, sub \in BOOLEAN :
      /\ IterPrev(t, c, FALSE, sub) \cup IterNext(t, c, TRUE, sub) = IterAll(c, None, None, sub, "starting")
      /\ IterPrev(t, c, FALSE, sub) \cap IterNext(t, c, TRUE, sub) = {}
      /\ IterPrev(t, c, TRUE, sub) = IterAll(c, None, t + 1, sub, "starting")
      /\ IterNext(t, c, TRUE, sub) = IterAll(c, t, None, sub, "starting")
\* action properties
RemoveCleansUp == [][ \A t \in pts \ pts' : t \notin OccupiedOf(start', end') ]_vars
NoOrphans == [][ \A t \in Times :
                   (t \in Occupied /\ t \notin OccupiedOf(start', end')) => t \notin pts' ]_vars
PointsOnlyAppearOnRequest ==
   [][ \A t \in pts' \ pts : t \in OccupiedOf(start', end') \/ (start' = start /\ end' = end) ]_vars
SetQuarterLocal == [][ qtab' # qtab =>
                        /\ UNCHANGED <<start, end, pts>>
                        /\ \E t \in Times, q \in Quarters :
                             \A u \in Times : QAtIn(qtab', u) # QAt(u) => (u >= t /\ QAtIn(qtab', u) = q) ]_vars
QuarterTableOnlyBySetQuarter == [][ (start' # start \/ end' # end \/ pts' # pts) => qtab' = qtab ]_vars
=============================================================================
