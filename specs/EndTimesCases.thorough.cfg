SPECIFICATION Spec
CONSTANT MaxT = 3
CONSTANT MaxObjs = 5
CONSTRAINT Report
INVARIANT ScanGivesMeaning
INVARIANT EveryoneEnds
INVARIANT GivenEndsKept
INVARIANT WaitingHaveNoEnd
INVARIANT NoOverlapOfFilled
CHECK_DEADLOCK FALSE
