SPECIFICATION Spec
CONSTANT Lens = {3, 4, 5, 6, 8}
CONSTANT MaxNotes = 3
CONSTRAINT Report
INVARIANT Tiles
INVARIANT GapsDisjointAndProper
INVARIANT GapsMaximal
INVARIANT GapsBehindSweep
INVARIANT CompleteVoiceNeedsNothing
CHECK_DEADLOCK FALSE
