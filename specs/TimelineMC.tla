----------------------------- MODULE TimelineMC -----------------------------
(* Model-checking / generation wrapper for Timeline: binds the object pool to concrete partitura
   classes (through the generated ClassTree) and emits labelled transitions as JSON. *)
EXTENDS Timeline, ClassTree, Json

\* fixed assignment of pool objects to classes (the harness builds the same classes)
PoolCls == [o1 |-> "Note", o2 |-> "GraceNote", o3 |-> "Measure", o4 |-> "Rest",
            o5 |-> "TimeSignature", o6 |-> "ConstantLoudnessDirection", o7 |-> "Slur",
            o8 |-> "KeySignature", o9 |-> "Clef", o10 |-> "Repeat", o11 |-> "Tuplet",
            o12 |-> "UnpitchedNote"]
MC_ClassOf == [o \in ObjPool |-> PoolCls[o]]
\* classes used in queries: those of the pool objects, all their superclasses, and one unrelated class
MC_Classes == {c \in CT_Classes : \E o \in ObjPool : PoolCls[o] = c \/ PoolCls[o] \in CT_Sub[c]} \cup {"Fermata"}
MC_Sub == [c \in MC_Classes |-> CT_Sub[c] \cap MC_Classes]

StateRec(st, en, p, q) ==
   [start |-> st, end |-> en, pts |-> p, qtab |-> {<<t, q[t]>> : t \in DOMAIN q},
    \* derived view, computed by TLC: <<t, prev, next, quarter in force>> for every point
    view |-> {<<t, PrevIn(p, t), NextIn(p, t), QAtIn(q, t)>> : t \in p}]
\* ACTION_CONSTRAINT: print every explored transition (source, label, target)
EmitEdge == PrintT(ToJson([a |-> last', lvl |-> TLCGet("level"), s |-> StateRec(start, end, pts, qtab),
                           t |-> StateRec(start', end', pts', qtab')]))
View == vars

\* Timeline refines its object-free abstraction TimelineLocal (the spec hook traces are validated against)
Local == INSTANCE TimelineLocal WITH LTimes <- Times, LQuarters <- Quarters, lpts <- pts, lqtab <- qtab,
            lcnt <- [t \in pts |-> Cardinality({o \in ObjPool : start[o] = t}) + Cardinality({o \in ObjPool : end[o] = t})]
RefinesLocal == Local!LSpec
=============================================================================
