------------------------- MODULE AlignmentFilesCases -------------------------
(* Scenario source for AlignmentFiles.tla: every alignment of up to MaxLen entries over a few score and performance ids
   (among them one that does not start with "n" and one longer than twenty characters).  Finished runs are printed
   with the rows and replayed into the writers and readers of partitura (harness/checks/g10.py). *)
EXTENDS AlignmentFiles, Json, IOUtils, TLC

CONSTANTS MaxLen
Sids == {"n1", "n12", "d1e45", "P01_n123456789-1-tied-2"}
Pids == {"p1", "p2"}
Entries == {[label |-> "match", sid |-> s, pid |-> p] : s \in Sids, p \in Pids}
             \cup {[label |-> "deletion", sid |-> s] : s \in Sids} \cup {[label |-> "insertion", pid |-> p] : p \in Pids}
Alignments == UNION {[1..n -> Entries] : n \in 1..MaxLen}
Init == \E a \in Alignments : FilesInit(a)
Next == FilesNext
Spec == Init /\ [][Next]_avars
Report == IF Done THEN PrintT(ToJson([al |-> al, prows |-> prows, arows |-> arows, crows |-> crows, nback |-> NBack(al)])) ELSE TRUE
=============================================================================
