SPECIFICATION Spec
CONSTANT Remember = FALSE
CONSTANT Depth = 4
CONSTRAINT Report
INVARIANT Exact
INVARIANT BeatsPositive
INVARIANT ResetGivesDefaults
INVARIANT NotatedIgnoresTables

CHECK_DEADLOCK FALSE
