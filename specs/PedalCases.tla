----------------------------- MODULE PedalCases -----------------------------
(* Scenario sources for the Pedal machine (C14).
   "enum": TLC enumerates small scenarios and prints every acceptable outcome (S2C).
   "file": scenarios recorded from the implementation with the observed sounding ends; a record is
           accepted when some run of the machine agrees with the observation (C2S). *)
EXTENDS Pedal, Json, IOUtils, TLCExt, SequencesExt

CONSTANT Source
VARIABLE rid      \* index of the record (file mode) or 0

NShards == 16
Shard == IF "SHARD" \in DOMAIN IOEnv THEN CHOOSE k \in 0..(NShards - 1) : ToString(k) = IOEnv.SHARD ELSE -1
Pairs(mx) == {<<a, b>> \in (0..mx) \X (0..mx) : a <= b}
NoteSet(ps, mx) == {[p |-> p, on |-> ab[1], off |-> ab[2]] : p \in ps, ab \in Pairs(mx)}
PedEv(mx) == {[t |-> u, v |-> v] : u \in 0..mx, v \in {0, 100}}
PedSeqs(mx) == {<<>>} \cup {<<a>> : a \in PedEv(mx)} \cup {<<a, b>> : a \in PedEv(mx), b \in PedEv(mx)}
Small == IF "SMALL" \in DOMAIN IOEnv THEN 1 ELSE 0
EnumScenarios ==
   {[notes |-> <<n1, n2>>, peds |-> ps, th |-> 64] :
       n1 \in NoteSet({60}, 3), n2 \in NoteSet({60, 61}, 3), ps \in PedSeqs(4)}
KeyOf(s) == s.notes[1].on + 2 * s.notes[1].off + 3 * s.notes[2].on + 5 * s.notes[2].off
              + Len(s.peds) + (IF Len(s.peds) > 0 THEN s.peds[1].t ELSE 0)
FileRecs == IF Source = "file" THEN TLCEval(JsonDeserialize(IOEnv.CASE_FILE)) ELSE <<>>

Init == IF Source = "enum"
        THEN /\ rid = 0
             /\ \E s \in {x \in EnumScenarios : (Shard = -1 \/ KeyOf(x) % NShards = Shard) /\ (Small = 0 \/ KeyOf(x) % 4 = 0)} :
                   MachineInit(s)
        ELSE /\ rid \in 1..Len(FileRecs)
             /\ MachineInit([notes |-> FileRecs[rid].notes, peds |-> FileRecs[rid].peds, th |-> FileRecs[rid].th])
Next == MachineNext /\ UNCHANGED rid
Spec == Init /\ [][Next]_<<mvars, rid>>

(* ---- the tabular view: ticks agree with seconds under ppq / mpq (times are k / den seconds, mpq = 1000 * mpqk) ---- *)
RoundHE(num, den) == LET q == num \div den  r == num % den
                     IN IF 2 * r < den THEN q ELSE IF 2 * r > den THEN q + 1 ELSE IF q % 2 = 0 THEN q ELSE q + 1
Ticks(k, r) == RoundHE(k * 1000 * r.ppq, r.den * r.mpqk)
TableOK(r) ==
   \A k \in 1..Len(r.notes) :
      /\ r.on_tick[k] = Ticks(r.notes[k].on, r)
      /\ (r.obs[k] = r.notes[k].off => r.dur_tick[k] = Ticks(r.notes[k].off, r) - Ticks(r.notes[k].on, r))
(* ---- track renumbering: unique across parts, no mixing inside a part ---- *)
TracksOK(before, after) ==
   /\ Len(before) = Len(after)
   /\ \A i \in 1..Len(before) :
         /\ Len(before[i]) = Len(after[i])
         /\ \A a, b \in 1..Len(before[i]) : (before[i][a] = before[i][b]) <=> (after[i][a] = after[i][b])
   /\ \A i, j \in 1..Len(after) : i # j => {after[i][a] : a \in 1..Len(after[i])} \cap {after[j][a] : a \in 1..Len(after[j])} = {}
Report ==
   IF Finished
   THEN IF Source = "enum"
        THEN PrintT(ToJson([sc |-> sc, out |-> Outcome, tie |-> [k \in 1..N |-> IF StruckAtRelease(k) THEN 1 ELSE 0]]))
        ELSE (Agrees(FileRecs[rid].obs) =>
                PrintT(<<"ACCEPT", FileRecs[rid].rid,
                         IF TableOK(FileRecs[rid]) THEN "table_ok" ELSE "table_bad",
                         IF TracksOK(FileRecs[rid].tracks_before, FileRecs[rid].tracks_after) THEN "tracks_ok" ELSE "tracks_bad">>))
   ELSE TRUE
=============================================================================
