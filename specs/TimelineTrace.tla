--------------------------- MODULE TimelineTrace ---------------------------
(***************************************************************************)
(* Trace validation for Timeline (C01), batch form: the file named by the  *)
(* environment variable TRACE_FILE holds a JSON array of traces recorded   *)
(* from the implementation; every event carries the call's arguments and   *)
(* the projected post-state.  Each event must be a step of the Timeline    *)
(* action it names (with the logged arguments) whose successor equals the  *)
(* logged post-state; each query result must equal the Timeline operator.  *)
(* Verdicts are total: a trace prints ACCEPT, or FAIL with the index of    *)
(* the event and the names of the failing clauses.                          *)
(***************************************************************************)
EXTENDS Timeline, ClassTree, Json, IOUtils, TLCExt, SequencesExt

Batch == TLCEval(JsonDeserialize(IOEnv.TRACE_FILE))

VARIABLES tid,     \* index of the trace being validated
          l,       \* position in that trace
          fail     \* set of failing clause names of the step just taken

tvars == <<start, end, pts, qtab, last, tid, l, fail>>

PoolCls == [o1 |-> "Note", o2 |-> "GraceNote", o3 |-> "Measure", o4 |-> "Rest",
            o5 |-> "TimeSignature", o6 |-> "ConstantLoudnessDirection", o7 |-> "Slur",
            o8 |-> "KeySignature", o9 |-> "Clef", o10 |-> "Repeat", o11 |-> "Tuplet",
            o12 |-> "UnpitchedNote"]
TR_ClassOf == [o \in ObjPool |-> PoolCls[o]]
TR_Sub == CT_Sub

Tr(i) == Batch[i].events
Ev == Tr(tid)[l]
B(x) == x = 1       \* booleans are logged as 0/1

TInit == /\ Init
         /\ tid \in 1..Len(Batch)
         /\ l = 1
         /\ fail = {}
         /\ qtab = [t \in {0} |-> Batch[tid].q0]

(* ---- comparison of the logged post-state with the successor computed by the spec action ---- *)
PostClauses(p) ==
   [points        |-> ToSet(p.pts) = pts' /\ Len(p.pts) = Cardinality(pts')
                        /\ \A i \in 1..(Len(p.pts) - 1) : p.pts[i] < p.pts[i + 1],
    links_prev    |-> \A i \in 1..Len(p.view) : p.view[i][2] = PrevIn(pts', p.view[i][1]),
    links_next    |-> \A i \in 1..Len(p.view) : p.view[i][3] = NextIn(pts', p.view[i][1]),
    point_quarter |-> \A i \in 1..Len(p.view) : p.view[i][4] = QAtIn(qtab', p.view[i][1]),
    view_complete |-> {p.view[i][1] : i \in 1..Len(p.view)} = pts',
    object_start  |-> \A o \in ObjPool : p.start[o] = start'[o],
    object_end    |-> \A o \in ObjPool : p.end[o] = end'[o],
    registry      |-> p.problems = 0,
    quarter_table |-> {<<p.qtab[i][1], p.qtab[i][2]>> : i \in 1..Len(p.qtab)}
                        = {<<t, qtab'[t]>> : t \in DOMAIN qtab'},
    raises        |-> p.err = 0]
Failing(rec) == {c \in DOMAIN rec : ~rec[c]}

Advance == l' = l + 1 /\ tid' = tid /\ last' = last

TAdd == /\ Ev.op = "add"
        /\ Add(Ev.o, Ev.s, Ev.e)
        /\ fail' = Failing(PostClauses(Ev.post))
        /\ Advance
TRemove == /\ Ev.op = "remove"
           /\ Remove(Ev.o, Ev.w)
           /\ fail' = Failing(PostClauses(Ev.post))
           /\ Advance
TPoint == /\ Ev.op = "point"
          /\ GetOrAddPoint(Ev.t)
          /\ fail' = Failing(PostClauses(Ev.post))
          /\ Advance
\* set_quarter_duration: the spec allows two table representations; the step is taken with a
\* representation that matches the log if there is one (otherwise with all, and each reports).
TSetQ == /\ Ev.op = "setq"
         /\ LET cands == SetQuarterTables(Ev.t, Ev.q)
                logged == {<<Ev.post.qtab[i][1], Ev.post.qtab[i][2]>> : i \in 1..Len(Ev.post.qtab)}
                good == {tab \in cands : {<<t, tab[t]>> : t \in DOMAIN tab} = logged}
            IN \E tab \in (IF good # {} THEN good ELSE cands) : qtab' = tab
         /\ UNCHANGED <<start, end, pts>>
         /\ fail' = Failing(PostClauses(Ev.post))
         /\ Advance

(* ---- read-only queries: the logged result must equal the Timeline operator ---- *)
Pairs(res) == {<<res[i][1], res[i][2]>> : i \in 1..Len(res)}
NonDecreasing(res) == \A i \in 1..(Len(res) - 1) : res[i][1] <= res[i + 1][1]
NonIncreasing(res) == \A i \in 1..(Len(res) - 1) : res[i][1] >= res[i + 1][1]
NoDup(res) == Cardinality(Pairs(res)) = Len(res)
QueryClauses ==
   CASE Ev.op = "iter_all" ->
          [query_result |-> Pairs(Ev.res) = IterAll(Ev.cls, Ev.s, Ev.e, B(Ev.sub), Ev.mode),
           query_order  |-> NonDecreasing(Ev.res),
           query_nodup  |-> NoDup(Ev.res)]
     [] Ev.op = "iter_prev" ->
          [query_result |-> Pairs(Ev.res) = IterPrev(Ev.t, Ev.cls, B(Ev.eq), B(Ev.sub)),
           query_order  |-> NonIncreasing(Ev.res),
           query_nodup  |-> NoDup(Ev.res)]
     [] Ev.op = "iter_next" ->
          [query_result |-> Pairs(Ev.res) = IterNext(Ev.t, Ev.cls, B(Ev.eq), B(Ev.sub)),
           query_order  |-> NonDecreasing(Ev.res),
           query_nodup  |-> NoDup(Ev.res)]
     [] Ev.op = "first_point" -> [query_result |-> Ev.res = FirstPoint]
     [] Ev.op = "last_point" -> [query_result |-> Ev.res = LastPoint]
     [] Ev.op = "get_point" -> [query_result |-> Ev.res = GetPoint(Ev.t)]
     [] Ev.op = "quarter_durations" ->
          [query_result |-> Pairs(Ev.res) = QuarterDurations(Ev.s, Ev.e),
           query_order  |-> \A i \in 1..(Len(Ev.res) - 1) : Ev.res[i][1] < Ev.res[i + 1][1]]
     [] Ev.op = "quarter_duration_map" -> [query_result |-> Ev.res = QAt(Ev.t)]
IsQuery == Ev.op \in {"iter_all", "iter_prev", "iter_next", "first_point", "last_point", "get_point",
                      "quarter_durations", "quarter_duration_map"}
TQuery == /\ IsQuery
          /\ UNCHANGED vars                      \* read-only
          /\ fail' = Failing(QueryClauses) \cup (IF Ev.err = 0 THEN {} ELSE {"raises"})
                       \cup (IF Ev.unchanged = 1 THEN {} ELSE {"query_modified_part"})
          /\ Advance

\* first event of a trace may load a state produced by TLC itself (S2C query traces)
TLoad == /\ Ev.op = "load" /\ l = 1
         /\ start' = [o \in ObjPool |-> IF o \in DOMAIN Ev.state.start THEN Ev.state.start[o] ELSE None]
         /\ end' = [o \in ObjPool |-> IF o \in DOMAIN Ev.state.end THEN Ev.state.end[o] ELSE None]
         /\ pts' = ToSet(Ev.state.pts)
         /\ qtab' = [t \in {Ev.state.qtab[i][1] : i \in 1..Len(Ev.state.qtab)} |->
                       Ev.state.qtab[CHOOSE i \in 1..Len(Ev.state.qtab) : Ev.state.qtab[i][1] = t][2] ]
         /\ fail' = {}
         /\ Advance

TNext == /\ l <= Len(Tr(tid))
         /\ fail = {}
         /\ (TAdd \/ TRemove \/ TPoint \/ TSetQ \/ TQuery \/ TLoad)
TSpec == TInit /\ [][TNext]_tvars

\* CONSTRAINT: report verdicts
Report == /\ (fail # {} => PrintT(<<"FAIL", Batch[tid].tid, l - 1, fail>>))
          /\ ((fail = {} /\ l = Len(Tr(tid)) + 1) => PrintT(<<"ACCEPT", Batch[tid].tid>>))
          /\ ((fail = {} /\ l <= Len(Tr(tid))) => PrintT(<<"AT", Batch[tid].tid, l>>))

\* invariants of Timeline evaluated at every step of every implementation trace
TraceBackRefs == BackRefs
TraceLinks == LinksConsistent
=============================================================================
