------------------------------- MODULE Slices -------------------------------
(***************************************************************************)
(* Growth beyond the listed properties: time windows over notes.           *)
(*                                                                         *)
(* slice_notearray_by_time (note arrays, any unit) and slice_ppart_by_time *)
(* (performed parts, seconds) cut a window [s, e) out of a list of notes   *)
(* with a start `on` and an end `off`.  The machine below scans the list   *)
(* the way slice_ppart_by_time does (one note per step, and it stops at    *)
(* the first note that starts at or after e: the code assumes the list is  *)
(* ordered by start); the operators give the declarative meaning (a filter *)
(* followed by clipping).  TLC checks that the scan computes the filter on *)
(* ordered lists and that windows behave like windows: what is returned    *)
(* lies inside the window, a window over everything changes nothing,       *)
(* windows compose, and adjacent windows add up.                           *)
(*                                                                         *)
(* Times are integers (grid units); the harness scales them.               *)
(***************************************************************************)
EXTENDS SliceNote, Sequences, FiniteSets

RECURSIVE SliceOf(_, _, _, _, _, _)
SliceOf(ns, s, e, clipOn, clipOff, shift) ==
   IF ns = <<>> THEN <<>>
   ELSE LET rest == SliceOf(Tail(ns), s, e, clipOn, clipOff, shift)
        IN IF Active(Head(ns), s, e) THEN <<Cut(Head(ns), s, e, clipOn, clipOff, shift)>> \o rest ELSE rest

(* the note-array function: clipping is all or nothing, no shift *)
ArraySlice(ns, s, e, clip) == SliceOf(ns, s, e, clip, clip, 0)
(* the performed-part function: starts are always clipped and times count from s *)
PartSlice(ns, s, e, clip) == SliceOf(ns, s, e, TRUE, clip, s)
(* controls and programs: both ends of the window are included *)
EventSlice(ts, s, e) == LET F[k \in 0..Len(ts)] == IF k = 0 THEN <<>>
                                                   ELSE IF ts[k] >= s /\ ts[k] <= e THEN Append(F[k - 1], ts[k] - s) ELSE F[k - 1]
                        IN F[Len(ts)]
Reindexed(ns) == [k \in 1..Len(ns) |-> [ns[k] EXCEPT !.id = k - 1]]

RECURSIVE TotalDur(_)
TotalDur(ns) == IF ns = <<>> THEN 0 ELSE (Head(ns).off - Head(ns).on) + TotalDur(Tail(ns))
Ordered(ns) == \A a, b \in 1..Len(ns) : a < b => ns[a].on <= ns[b].on

(* ------------------------------ the scan ------------------------------ *)
VARIABLES sc,        \* scenario: [notes, s, e, clip]
          i,         \* next note to look at
          out,       \* notes kept so far (performed-part flavour)
          stopped    \* the scan met a note starting at or after e
svars == <<sc, i, out, stopped>>

ScanInit(x) == sc = x /\ i = 1 /\ out = <<>> /\ stopped = FALSE
Look == /\ ~stopped /\ i <= Len(sc.notes)
        /\ LET n == sc.notes[i] IN
             IF Active(n, sc.s, sc.e)
             THEN out' = Append(out, Cut(n, sc.s, sc.e, TRUE, sc.clip, sc.s)) /\ stopped' = FALSE
             ELSE out' = out /\ stopped' = (n.on >= sc.s /\ n.on >= sc.e)
        /\ i' = i + 1 /\ UNCHANGED sc
ScanNext == Look
Finished == stopped \/ i > Len(sc.notes)
Scanned == SubSeq(sc.notes, 1, i - 1)

(* ------------------------------ properties ------------------------------ *)
(* the scan computes the filter on what it has looked at; on an ordered list nothing after the stop is active *)
ScanIsFilter == out = PartSlice(Scanned, sc.s, sc.e, sc.clip)
OrderedScanIsWhole == (Finished /\ Ordered(sc.notes)) => out = PartSlice(sc.notes, sc.s, sc.e, sc.clip)
(* clipped results lie inside the window *)
InsideWindow == sc.clip => \A k \in 1..Len(out) : 0 <= out[k].on /\ out[k].on <= out[k].off /\ out[k].off <= sc.e - sc.s
(* the two functions agree up to the shift when both clip *)
ArrayAgreesWithPart ==
   LET a == ArraySlice(sc.notes, sc.s, sc.e, TRUE)  p == PartSlice(sc.notes, sc.s, sc.e, TRUE)
   IN Len(a) = Len(p) /\ \A k \in 1..Len(a) : a[k].id = p[k].id /\ a[k].on - sc.s = p[k].on /\ a[k].off - sc.s = p[k].off
(* without clipping the note array keeps rows as they are *)
UnclippedRowsUntouched ==
   LET a == ArraySlice(sc.notes, sc.s, sc.e, FALSE)
   IN \A k \in 1..Len(a) : \E j \in 1..Len(sc.notes) : a[k] = sc.notes[j]
(* a window over everything changes nothing *)
WholeWindowIsIdentity ==
   ((\A k \in 1..Len(sc.notes) : sc.s <= sc.notes[k].on /\ sc.notes[k].on < sc.e /\ sc.notes[k].off <= sc.e)
      => ArraySlice(sc.notes, sc.s, sc.e, TRUE) = sc.notes)
(* a window inside a window is the inner window (non-empty inner window) *)
WindowsCompose ==
   \A b \in sc.s..sc.e : \A c \in (b + 1)..sc.e :
      ArraySlice(ArraySlice(sc.notes, sc.s, sc.e, TRUE), b, c, TRUE) = ArraySlice(sc.notes, b, c, TRUE)
(* adjacent windows add up: total sounding time, and the number of notes starting in them *)
StartsIn(ns, s, e) == Cardinality({k \in 1..Len(ns) : ns[k].on >= s /\ ns[k].on < e})
WindowsAddUp ==
   \A b \in sc.s..sc.e :
      /\ TotalDur(ArraySlice(sc.notes, sc.s, b, TRUE)) + TotalDur(ArraySlice(sc.notes, b, sc.e, TRUE))
           = TotalDur(ArraySlice(sc.notes, sc.s, sc.e, TRUE))
      /\ StartsIn(sc.notes, sc.s, b) + StartsIn(sc.notes, b, sc.e) = StartsIn(sc.notes, sc.s, sc.e)
=============================================================================
