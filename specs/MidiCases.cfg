SPECIFICATION Spec
CONSTRAINT Emit
INVARIANT InvWellFormed
INVARIANT InvNoLoss
CHECK_DEADLOCK FALSE
