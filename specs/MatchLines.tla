------------------------------ MODULE MatchLines ------------------------------
(***************************************************************************)
(* C07: record schemas of match-file lines and their field domains, the    *)
(* value of fractional symbolic durations, duration addition, and the      *)
(* content a pre-1.0 line must keep when upgraded to 1.0.0.  The text      *)
(* grammar is not modelled; the obligations are round trips:               *)
(*   Parse(Format(x)) = x,  Format(Parse(Format(x))) = Format(x),          *)
(*   Kind/Content(ToV1(x)) = Kind/Content(x).                              *)
(* TLC enumerates the records (every field varied over its domain with the *)
(* others at a default, plus all pairs for the score-note fields that      *)
(* interact in the text: name x modifier x octave) and prints the derived  *)
(* values (MIDI pitch, exact duration values and sums).                    *)
(***************************************************************************)
EXTENDS Pitch, Rat, Json, IOUtils, TLCExt, SequencesExt

VARIABLE c
Ids == {"n1", "n23", "n0-1", "P01_n5", "1-2-3", "x"}
NoteNames == {"A", "B", "C", "D", "E", "F", "G"}
ModStr == {"n", "#", "b", "x", "bb"}
ModVal(m) == CASE m = "n" -> 0 [] m = "#" -> 1 [] m = "b" -> -1 [] m = "x" -> 2 [] m = "bb" -> -2
Fsd(n, d, t, comps) == [num |-> n, den |-> d, tdiv |-> t, comps |-> comps]     \* tdiv 0 = none; comps = <<>> or seq of <<n, d, t>>
FsdSmall == {Fsd(0, 1, 0, <<>>), Fsd(1, 4, 0, <<>>), Fsd(3, 8, 0, <<>>), Fsd(1, 8, 3, <<>>), Fsd(2, 16, 0, <<>>), Fsd(1, 4, 5, <<>>),
              Fsd(7, 32, 0, <<>>), Fsd(1, 1, 0, <<>>), Fsd(5, 1, 0, <<>>), Fsd(1, 12, 0, <<>>)}
\* the largest numerator and denominator the class keeps exact (bound_integers(1024) replaces larger ones only): in the
\* round trips of lines, not in the sums (a sum whose exact denominator exceeds the bound is not a value the class can hold)
FsdBound == {Fsd(1, 1024, 0, <<>>), Fsd(3, 1024, 0, <<>>), Fsd(1, 1024, 3, <<>>), Fsd(1023, 1024, 0, <<>>), Fsd(1024, 1, 0, <<>>)}
FsdSimple == FsdSmall \cup FsdBound
CompVal(x) == R(x[1], x[2] * (IF x[3] = 0 THEN 1 ELSE x[3]))
RECURSIVE SumComps(_)
SumComps(s) == IF Len(s) = 0 THEN <<0, 1>> ELSE RAdd(CompVal(Head(s)), SumComps(Tail(s)))
FsdValue(f) == IF Len(f.comps) > 0 THEN SumComps(f.comps) ELSE CompVal(<<f.num, f.den, f.tdiv>>)
FsdSums == {Fsd(3, 8, 0, << <<1, 4, 0>>, <<1, 8, 0>> >>), Fsd(7, 16, 0, << <<1, 4, 0>>, <<1, 8, 0>>, <<1, 16, 0>> >>),
            Fsd(7, 24, 0, << <<1, 4, 0>>, <<1, 8, 3>> >>)}
FsdSumsBound == {Fsd(257, 1024, 0, << <<1, 4, 0>>, <<1, 1024, 0>> >>)}
Beats4 == {0, 5000, 10000, 12500, 255000, 1070000, -5000, 3333, 16667}      \* beat times in 1/10000 (four decimals)
AttrLists == {<<>>, <<"s">>, <<"s", "stacc">>, <<"v1">>, <<"staff1", "v2", "fermata">>, <<"arp">>, <<"grace">>}

SnoteBase == [anchor |-> "n1", note_name |-> "C", modifier |-> "n", octave |-> 4, measure |-> 1, beat |-> 1,
              offset |-> Fsd(0, 1, 0, <<>>), duration |-> Fsd(1, 4, 0, <<>>), onset_in_beats |-> 0, offset_in_beats |-> 10000,
              attrs |-> <<"s">>, rest |-> 0]
NoteBase == [id |-> "n1", note_name |-> "C", modifier |-> "n", octave |-> 4, onset |-> 1000, offset |-> 1500, adj_offset |-> 1700,
             velocity |-> 64, channel |-> 0, track |-> 0]
Vary(base, S) == UNION {{[base EXCEPT ![f] = v] : v \in S[f]} : f \in DOMAIN S}
Snotes == Vary(SnoteBase, [anchor |-> Ids, measure |-> {0, 1, 7, 36, 120}, beat |-> {1, 2, 3, 4, 6}, offset |-> FsdSimple \cup FsdSums \cup FsdSumsBound,
                           duration |-> FsdSimple \cup FsdSums \cup FsdSumsBound, onset_in_beats |-> Beats4, offset_in_beats |-> Beats4, attrs |-> AttrLists])
            \cup {[SnoteBase EXCEPT !.note_name = nn, !.modifier = m, !.octave = o] : nn \in NoteNames, m \in ModStr, o \in {0, 3, 4, 8}}
            \cup {[SnoteBase EXCEPT !.rest = 1, !.note_name = "R"]}
Notes == Vary(NoteBase, [id |-> Ids, onset |-> {0, 1, 999, 123456}, offset |-> {1500, 1501, 999999}, adj_offset |-> {1500, 1700, 5000},
                         velocity |-> {1, 64, 127}, channel |-> {0, 1, 9, 15}, track |-> {0, 1, 5}])
           \cup {[NoteBase EXCEPT !.note_name = nn, !.modifier = m, !.octave = o] : nn \in NoteNames, m \in ModStr, o \in {0, 3, 4, 8}}
Pedals == {[time |-> t, value |-> v] : t \in {0, 1, 480, 123456}, v \in {0, 1, 63, 64, 127}}
Stimes == Vary([measure |-> 1, beat |-> 1, offset |-> Fsd(0, 1, 0, <<>>), onset_in_beats |-> 0, annotation |-> <<"beat">>],
               [measure |-> {0, 1, 7, 36}, beat |-> {1, 2, 4}, offset |-> FsdSimple, onset_in_beats |-> Beats4,
                annotation |-> {<<"beat">>, <<"downbeat", "beat">>, <<"other">>}])
Ptimes == {<<0>>, <<480>>, <<1, 2, 3>>, <<100000, 100020>>}
FsdPairs == (FsdSmall \cup FsdSums) \X FsdSmall

Cases == {[kind |-> "snote", rec |-> s] : s \in Snotes} \cup {[kind |-> "note", rec |-> n] : n \in Notes}
           \cup {[kind |-> "pedal", rec |-> p] : p \in Pedals} \cup {[kind |-> "stime", rec |-> s] : s \in Stimes}
           \cup {[kind |-> "ptime", rec |-> [onsets |-> p]] : p \in Ptimes}
           \cup {[kind |-> "fsd_add", rec |-> [a |-> ab[1], b |-> ab[2]]] : ab \in FsdPairs}
           \cup {[kind |-> "key", rec |-> [fifths |-> f, minor |-> m]] : f \in ValidFifths, m \in BOOLEAN}
Expect(x) ==
   CASE x.kind = "snote" -> [midi |-> IF x.rec.rest = 1 THEN -1 ELSE Midi(x.rec.note_name, ModVal(x.rec.modifier), x.rec.octave),
                             alter |-> ModVal(x.rec.modifier), offset |-> FsdValue(x.rec.offset), duration |-> FsdValue(x.rec.duration)]
     [] x.kind = "note" -> [midi |-> Midi(x.rec.note_name, ModVal(x.rec.modifier), x.rec.octave), alter |-> ModVal(x.rec.modifier)]
     [] x.kind = "fsd_add" -> [a |-> FsdValue(x.rec.a), b |-> FsdValue(x.rec.b), sum |-> RAdd(FsdValue(x.rec.a), FsdValue(x.rec.b))]
     [] x.kind = "stime" -> [offset |-> FsdValue(x.rec.offset)]
     [] x.kind = "key" -> [name |-> KeyName(x.rec.fifths, x.rec.minor)]
     [] OTHER -> [none |-> 0]
Init == c \in Cases
Next == UNCHANGED c
Spec == Init /\ [][Next]_c
Emit == PrintT(ToJson([in |-> c, out |-> Expect(c)]))
\* spec-level facts
ComponentsSumToValue == c.kind = "snote" => \A f \in {c.rec.offset, c.rec.duration} :
                           Len(f.comps) > 0 => SumComps(f.comps) = CompVal(<<f.num, f.den, f.tdiv>>)
AddCommutes == c.kind = "fsd_add" => RAdd(FsdValue(c.rec.a), FsdValue(c.rec.b)) = RAdd(FsdValue(c.rec.b), FsdValue(c.rec.a))
=============================================================================
