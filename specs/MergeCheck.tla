----------------------------- MODULE MergeCheck -----------------------------
(***************************************************************************)
(* C15: relational post-condition of merging parts, checked on recorded    *)
(* calls.  A record holds the inputs (per part: divisions q and elements   *)
(* [id, cls, on, end, voice, staff, note (0/1)]; end = -1 when open;       *)
(* staff 0 = missing), the mode and the projected output.                  *)
(***************************************************************************)
EXTENDS Rat, FiniteSets, TLC, Json, IOUtils, TLCExt, SequencesExt

Batch == TLCEval(JsonDeserialize(IOEnv.TRACE_FILE))
VARIABLE i
StructuralAlways == {"Barline", "Page", "System", "Measure", "TimeSignature", "KeySignature", "DaCapo", "Fine", "Fermata", "Ending", "Tempo"}
Structural(mode) == IF mode = "voice" THEN StructuralAlways \cup {"Clef"} ELSE StructuralAlways
L(r) == LcmSeq([k \in 1..Len(r.parts) |-> r.parts[k].q])
Mult(r, k) == L(r) \div r.parts[k].q
Els(r, k) == {r.parts[k].els[j] : j \in 1..Len(r.parts[k].els)}
Out(r) == {r.out[j] : j \in 1..Len(r.out)}
Staff(e) == IF e.staff = 0 THEN 1 ELSE e.staff             \* a missing staff counts as staff 1
\* elements expected in the output: everything of part 1, the non-structural elements of the others
Expected(r) == UNION {{[e EXCEPT !.on = e.on * Mult(r, k), !.end = IF e.end = -1 THEN -1 ELSE e.end * Mult(r, k)] :
                         e \in {x \in Els(r, k) : k = 1 \/ x.cls \notin Structural(r.mode)}} : k \in 1..Len(r.parts)}
PartOf(r, id) == CHOOSE k \in 1..Len(r.parts) : \E e \in Els(r, k) : e.id = id
Notes(S) == {e \in S : e.note = 1}
Clauses(r) ==
   LET X == Expected(r)
       O == Out(r)
       xids == {e.id : e \in X}
       oids == {o.id : o \in O}
       \* look-up tables built once per record
       cnt == [id \in xids |-> Cardinality({o \in O : o.id = id})]
       ob == [id \in xids \cap oids |-> CHOOSE o \in O : o.id = id]
       pof == [id \in xids |-> PartOf(r, id)]
       XN == {e \in Notes(X) : e.id \in oids}
   IN [divisions_are_lcm      |-> r.out_q = L(r),
       every_element_once     |-> \A id \in xids : cnt[id] = 1,
       nothing_else           |-> oids \subseteq xids,
       same_musical_time      |-> \A e \in X : e.id \in oids => (ob[e.id].on = e.on /\ ob[e.id].end = e.end /\ ob[e.id].cls = e.cls),
       voices_disjoint        |-> r.mode \in {"voice", "auto"} =>
                                    \A a, b \in XN : pof[a.id] # pof[b.id] => ob[a.id].voice # ob[b.id].voice,
       voices_preserved       |-> r.mode \in {"voice", "auto"} =>
                                    \A a, b \in XN : pof[a.id] = pof[b.id] => ((a.voice = b.voice) <=> (ob[a.id].voice = ob[b.id].voice)),
       staves_disjoint        |-> r.mode \in {"staff", "auto"} =>
                                    \A a, b \in XN : pof[a.id] # pof[b.id] => Staff(ob[a.id]) # Staff(ob[b.id]),
       staves_preserved       |-> r.mode \in {"staff", "auto"} =>
                                    \A a, b \in XN : pof[a.id] = pof[b.id] => ((Staff(a) = Staff(b)) <=> (Staff(ob[a.id]) = Staff(ob[b.id]))),
       sounding_equals_score_array |-> ToSet(r.merged_rows) = ToSet(r.score_rows) /\ Len(r.merged_rows) = Len(r.score_rows),
       no_exception           |-> r.err = ""]
Failing(r) == LET C == Clauses(r) IN {c \in DOMAIN C : ~C[c]}
Init == i \in 1..Len(Batch)
Next == UNCHANGED i
Spec == Init /\ [][Next]_i
Report == PrintT(<<"VERDICT", Batch[i].rid, IF Batch[i].err = "" THEN Failing(Batch[i]) ELSE {"no_exception"}>>)
=============================================================================
