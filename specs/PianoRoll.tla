------------------------------ MODULE PianoRoll ------------------------------
(***************************************************************************)
(* C13: the piano roll of a list of notes as an exact function.            *)
(* A note is [p, on, dur, vel, ch]; on and dur are integers in units of    *)
(* 1/U of the time unit (U = 2: half steps, so that rounding matters).     *)
(* Options o: td (frames per time unit), onset_only, sep, pm (pitch margin *)
(* or -1), tm (time margin), piano, rsil (remove_silence), et (end time in *)
(* 1/U units or -1), binary, hasvel, hasch.                                *)
(***************************************************************************)
EXTENDS Rat, FiniteSets, TLC

U == 2
MaxS(S) == CHOOSE x \in S : \A y \in S : y <= x
MinS(S) == CHOOSE x \in S : \A y \in S : x <= y
\* notes that take part: the drum channel is dropped when a channel column is present
Kept(ns, o) == SelectSeq(ns, LAMBDA n : ~(o.hasch = 1 /\ n.ch = 9))
Idx(ns) == 1..Len(ns)
MinTime(ns, o) == IF o.rsil = 1 THEN MinS({ns[k].on : k \in Idx(ns)}) ELSE 0
On(n, ns, o) == RoundHalfEven(R(o.td * (n.on - MinTime(ns, o)), U)) + o.tm * o.td
DurFrames(n, o) == LET d == RoundHalfEven(R(o.td * n.dur, U)) IN IF d < 1 THEN 1 ELSE d
Off(n, ns, o) == On(n, ns, o) + DurFrames(n, o)
\* last frame (exclusive) actually filled
FillEnd(n, ns, o) == IF o.onset_only = 1 THEN On(n, ns, o) + 1
                     ELSE LET e == Off(n, ns, o) - (IF o.sep = 1 THEN 1 ELSE 0)
                          IN IF e < On(n, ns, o) + 1 THEN On(n, ns, o) + 1 ELSE e
Lowest(ns) == MinS({ns[k].p : k \in Idx(ns)})
Highest(ns) == MaxS({ns[k].p : k \in Idx(ns)})
Row(n, ns, o) == IF o.pm > -1 THEN n.p - Lowest(ns) + o.pm ELSE IF o.piano = 1 THEN n.p - 21 ELSE n.p
NRows(ns, o) == IF o.pm > -1 THEN Highest(ns) - Lowest(ns) + 1 + 2 * o.pm ELSE IF o.piano = 1 THEN 88 ELSE 128
RowVisible(r, ns, o) == r >= 0 /\ r < NRows(ns, o)
MaxOff(ns, o) == MaxS({Off(ns[k], ns, o) : k \in Idx(ns)})
EndShift(ns, o) == o.et - MinTime(ns, o)                  \* end_time is shifted like the onsets
EndTooEarly(ns, o) == o.et # -1 /\ RLess(R(o.td * EndShift(ns, o), U), RInt(MaxOff(ns, o) - o.tm * o.td))
NCols(ns, o) == IF o.et = -1 THEN o.td * o.tm + MaxOff(ns, o)
                ELSE Ceil(RAdd(RInt(o.td * o.tm), R(o.td * EndShift(ns, o), U)))
Vel(n, o) == IF o.binary = 1 \/ o.hasvel = 0 THEN 1 ELSE n.vel
Covers(n, ns, o, r, c) == Row(n, ns, o) = r /\ On(n, ns, o) <= c /\ c < FillEnd(n, ns, o)
\* the set of non-zero cells <<row, col, value>>
Cells(ns, o) ==
   LET cand == UNION {{<<Row(ns[k], ns, o), c>> : c \in On(ns[k], ns, o)..(FillEnd(ns[k], ns, o) - 1)} : k \in Idx(ns)}
   IN {<<rc[1], rc[2], MaxS({Vel(ns[k], o) : k \in {j \in Idx(ns) : Covers(ns[j], ns, o, rc[1], rc[2])}})>> :
          rc \in {x \in cand : RowVisible(x[1], ns, o)}}
\* per-note index rows <<row, first frame, end frame (exclusive), pitch>> in input order
IndexRows(ns, o) == [k \in Idx(ns) |-> <<Row(ns[k], ns, o), On(ns[k], ns, o), FillEnd(ns[k], ns, o), ns[k].p>>]
\* octave fold
FoldValue(cells, pc, c) ==
   LET S == {x \in cells : x[1] % 12 = pc /\ x[2] = c}
       RECURSIVE Sum(_)
       Sum(T) == IF T = {} THEN 0 ELSE LET e == CHOOSE y \in T : TRUE IN e[3] + Sum(T \ {e})
   IN Sum(S)

(* ---- properties ---- *)
CellsExactlyCovered(ns, o) ==
   \A x \in Cells(ns, o) : \E k \in Idx(ns) : Covers(ns[k], ns, o, x[1], x[2])
EveryNoteVisibleHasACell(ns, o) ==
   \A k \in Idx(ns) : RowVisible(Row(ns[k], ns, o), ns, o) =>
       \E x \in Cells(ns, o) : x[1] = Row(ns[k], ns, o) /\ x[2] = On(ns[k], ns, o)
NeverLessThanOneFrame(ns, o) == \A k \in Idx(ns) : FillEnd(ns[k], ns, o) >= On(ns[k], ns, o) + 1
WithinShape(ns, o) == EndTooEarly(ns, o) \/ \A x \in Cells(ns, o) : x[2] < NCols(ns, o)
=============================================================================
