SPECIFICATION Spec
CONSTANTS
  NParts = 3
  Iters = {"a", "b", "c"}
VIEW View
INVARIANT YieldsInOrder
INVARIANT ExhaustedMeansAll
PROPERTY IndependentCursors
PROPERTY ReadOnlyLenGetItem
PROPERTY RefinesInd
