------------------------- MODULE TimelineLocalTrace -------------------------
(* Batch validation of hook traces (recorded inside partitura while it loads / transforms scores)
   against TimelineLocal.  One trace per Part object. *)
EXTENDS TimelineLocal, Json, IOUtils, TLCExt, SequencesExt

Batch == TLCEval(JsonDeserialize(IOEnv.TRACE_FILE))
VARIABLES tid, l, fail
tvars == <<lpts, lcnt, lqtab, tid, l, fail>>
Tr(i) == Batch[i].events
Ev == Tr(tid)[l]

TInit == /\ lpts = {} /\ lcnt = <<>>
         /\ tid \in 1..Len(Batch) /\ l = 1 /\ fail = {}
         /\ lqtab = [t \in {0} |-> Batch[tid].q0]

\* clauses for the logged neighbourhood of time lv.t (after the step)
LocalOK(lv) ==
   LET t == lv.t
       ex == t \in lpts'
       lt == lv.lt          \* logged neighbours, checked (in linear time) to be the true ones
       rt == lv.rt
   IN [exists_as_specified |-> (lv.exists = 1) <=> ex,
       left_neighbour      |-> IsPrevIn(lpts', t, lt),
       right_neighbour     |-> IsNextIn(lpts', t, rt),
       links_prev          |-> IF ex /\ lv.exists = 1 THEN lv.prev = lt /\ (rt # LNone => lv.rt_prev = t)
                                ELSE (rt # LNone /\ lv.exists = 0) => lv.rt_prev = lt,
       links_next          |-> IF ex /\ lv.exists = 1 THEN lv.next = rt /\ (lt # LNone => lv.lt_next = t)
                                ELSE (lt # LNone /\ lv.exists = 0) => lv.lt_next = rt,
       point_quarter       |-> (ex /\ lv.exists = 1) => lv.q = LQAtIn(lqtab', t),
       registrations       |-> (ex /\ lv.exists = 1) => lv.nreg = lcnt'[t]]
Failing(rec) == {c \in DOMAIN rec : ~rec[c]}
LocalFailing == UNION {Failing(LocalOK(Ev.local[i])) : i \in 1..Len(Ev.local)}
Common == (IF Ev.np = Cardinality(lpts') THEN {} ELSE {"number_of_points"})
            \cup (IF Ev.err = "" THEN {} ELSE {"raises"})
Advance == l' = l + 1 /\ tid' = tid

TAdd == /\ Ev.op = "add" /\ LAdd(Ev.s, Ev.e)
        /\ fail' = LocalFailing \cup Common /\ Advance
TRemove == /\ Ev.op = "remove" /\ LRemove(Ev.s, Ev.e)
           /\ fail' = LocalFailing \cup Common /\ Advance
TPoint == /\ Ev.op = "point" /\ LPoint(Ev.t)
          /\ fail' = LocalFailing \cup Common /\ Advance
TSetQ == /\ Ev.op = "setq"
         /\ LET cands == LSetQTables(Ev.t, Ev.q)
                logged == {<<Ev.qtab[i][1], Ev.qtab[i][2]>> : i \in 1..Len(Ev.qtab)}
                good == {tab \in cands : {<<t, tab[t]>> : t \in DOMAIN tab} = logged}
            IN /\ \E tab \in (IF good # {} THEN good ELSE cands) : lqtab' = tab
               /\ fail' = (IF good # {} THEN {} ELSE {"quarter_table"})
                           \cup (IF \A i \in 1..Len(Ev.pq) : Ev.pq[i][2] = LQAtIn(lqtab', Ev.pq[i][1])
                                 THEN {} ELSE {"point_quarter"})
                           \cup (IF Ev.err = "" THEN {} ELSE {"raises"})
         /\ UNCHANGED <<lpts, lcnt>> /\ Advance
TTp == /\ Ev.op = "tp" /\ LTp(Ev.t, Ev.delta)
       /\ fail' = (IF Ev.nreg = lcnt'[Ev.t] THEN {} ELSE {"registrations"}) /\ Advance

TNext == /\ l <= Len(Tr(tid)) /\ fail = {}
         /\ (TAdd \/ TRemove \/ TPoint \/ TSetQ \/ TTp)
TSpec == TInit /\ [][TNext]_tvars

Report == /\ (fail # {} => PrintT(<<"FAIL", Batch[tid].tid, l - 1, fail>>))
          /\ ((fail = {} /\ l = Len(Tr(tid)) + 1) => PrintT(<<"ACCEPT", Batch[tid].tid>>))
          /\ ((fail = {} /\ l <= Len(Tr(tid)) /\ l % 50 = 1) => PrintT(<<"AT", Batch[tid].tid, l>>))
=============================================================================
