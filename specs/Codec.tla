-------------------------------- MODULE Codec --------------------------------
(***************************************************************************)
(* C18: the relation between a score, a performance and a note alignment   *)
(* that the performance codec works on.                                    *)
(*   score note      [id, on, dur, ondiv, pitch]   on, dur: exact          *)
(*                   rationals <<n, d>> in beats; ondiv the onset in divs  *)
(*   performed note  [id, on, dur, vel]            on, dur in milliseconds *)
(*   alignment entry [label, sid, pid]                                     *)
(* Matched      the alignment's matches whose ids exist on both sides, in  *)
(*              alignment order (get_matched_notes);                       *)
(* Table        the same pairs ordered by score onset, then pitch (the     *)
(*              matched score of encode_performance and its snote_ids);    *)
(* Knots        one (score onset, mean performed onset) per distinct score *)
(*              onset of the matched notes - the points both time maps of  *)
(*              get_time_maps_from_alignment pass through, and between     *)
(*              which they are linear (Probes);                            *)
(* Decoded      what decode(encode(x)) must return for every row of Table: *)
(*              the performed onset relative to the earliest matched       *)
(*              onset, the performed duration and the velocity.            *)
(***************************************************************************)
EXTENDS Integers, Sequences, FiniteSets, Rat, TLC

MinOf(S) == CHOOSE i \in S : \A j \in S : i <= j
SIdx(score, id) == LET S == {i \in 1..Len(score) : score[i].id = id} IN IF S = {} THEN 0 ELSE MinOf(S)
PIdx(perf, id) == LET S == {i \in 1..Len(perf) : perf[i].id = id} IN IF S = {} THEN 0 ELSE MinOf(S)
IsMatched(score, perf, a) == a.label = "match" /\ SIdx(score, a.sid) > 0 /\ PIdx(perf, a.pid) > 0
Matched(score, perf, al) ==
   LET F[k \in 0..Len(al)] == IF k = 0 THEN <<>>
                              ELSE IF IsMatched(score, perf, al[k]) THEN Append(F[k - 1], <<SIdx(score, al[k].sid), PIdx(perf, al[k].pid)>>)
                              ELSE F[k - 1]
   IN F[Len(al)]
(* ordered by (onset in divs, pitch); equal keys keep alignment order *)
Before(score, m, a, b) == LET x == score[m[a][1]]  y == score[m[b][1]] IN
   \/ x.ondiv < y.ondiv
   \/ (x.ondiv = y.ondiv /\ x.pitch < y.pitch)
   \/ (x.ondiv = y.ondiv /\ x.pitch = y.pitch /\ a < b)
Table(score, perf, al) == LET m == Matched(score, perf, al)
                              rank == [a \in 1..Len(m) |-> 1 + Cardinality({b \in 1..Len(m) : Before(score, m, b, a)})]
                          IN [r \in 1..Len(m) |-> m[CHOOSE a \in 1..Len(m) : rank[a] = r]]
(* ---- time maps ---- *)
RSum(S, f(_)) == LET RECURSIVE Go(_)
                     Go(T) == IF T = {} THEN <<0, 1>> ELSE LET x == CHOOSE x \in T : TRUE IN RAdd(f(x), Go(T \ {x}))
                 IN Go(S)
KnotOnsets(score, m, removeOrnaments) ==
   {score[m[k][1]].on : k \in {j \in 1..Len(m) : ~removeOrnaments \/ RLess(<<0, 1>>, score[m[j][1]].dur)}}
KnotSet(score, perf, al, removeOrnaments) ==
   LET m == Matched(score, perf, al) IN
   {<<u, LET ks == {k \in 1..Len(m) : score[m[k][1]].on = u /\ (~removeOrnaments \/ RLess(<<0, 1>>, score[m[k][1]].dur))}
         IN RDiv(RSum(ks, LAMBDA k : RInt(perf[m[k][2]].on)), RInt(Cardinality(ks)))>> : u \in KnotOnsets(score, m, removeOrnaments)}
Knots(score, perf, al, removeOrnaments) ==
   LET S == KnotSet(score, perf, al, removeOrnaments)
       rank == [x \in S |-> 1 + Cardinality({y \in S : RLess(y[1], x[1])})]
   IN [r \in 1..Cardinality(S) |-> CHOOSE x \in S : rank[x] = r]
Half(a, b) == RDiv(RAdd(a, b), <<2, 1>>)
(* between two neighbouring knots both maps are linear: the midpoints correspond *)
Probes(kn) == [i \in 1..(Len(kn) - 1) |-> <<Half(kn[i][1], kn[i + 1][1]), Half(kn[i][2], kn[i + 1][2])>>]
PerfMonotone(kn) == \A i \in 1..(Len(kn) - 1) : RLess(kn[i][2], kn[i + 1][2])
(* ---- decode(encode(x)) ---- *)
Decoded(score, perf, al) ==
   LET t == Table(score, perf, al)
       first == IF Len(t) = 0 THEN 0 ELSE MinOf({perf[t[r][2]].on : r \in 1..Len(t)})
   IN [r \in 1..Len(t) |-> [id |-> score[t[r][1]].id, on |-> perf[t[r][2]].on - first, dur |-> perf[t[r][2]].dur,
                            vel |-> perf[t[r][2]].vel, grace |-> score[t[r][1]].dur[1] = 0]]
(* ---- properties of the relation ---- *)
MatchedExactlyMatches(score, perf, al) ==
   LET m == Matched(score, perf, al) IN
   /\ Len(m) = Cardinality({k \in 1..Len(al) : IsMatched(score, perf, al[k])})
   /\ \A j \in 1..Len(m) : \E k \in 1..Len(al) : /\ al[k].label = "match"
                                                 /\ score[m[j][1]].id = al[k].sid /\ perf[m[j][2]].id = al[k].pid
TableIsSortedPermutation(score, perf, al) ==
   LET m == Matched(score, perf, al)
       t == Table(score, perf, al) IN
   /\ Len(t) = Len(m)
   /\ \A j \in 1..Len(m) : Cardinality({r \in 1..Len(t) : t[r] = m[j]}) = Cardinality({i \in 1..Len(m) : m[i] = m[j]})
   /\ \A r \in 1..(Len(t) - 1) : LET x == score[t[r][1]]  y == score[t[r + 1][1]] IN
         x.ondiv < y.ondiv \/ (x.ondiv = y.ondiv /\ x.pitch <= y.pitch)
KnotsWithinChords(score, perf, al, removeOrnaments) ==
   LET m == Matched(score, perf, al)
       kn == Knots(score, perf, al, removeOrnaments) IN
   /\ \A i \in 1..(Len(kn) - 1) : RLess(kn[i][1], kn[i + 1][1])
   /\ \A i \in 1..Len(kn) : \E k \in 1..Len(m) : score[m[k][1]].on = kn[i][1] /\ RLeq(RInt(perf[m[k][2]].on), kn[i][2])
   /\ \A i \in 1..Len(kn) : \E k \in 1..Len(m) : score[m[k][1]].on = kn[i][1] /\ RLeq(kn[i][2], RInt(perf[m[k][2]].on))
   /\ \A k \in 1..Len(m) : (~removeOrnaments \/ RLess(<<0, 1>>, score[m[k][1]].dur)) => \E i \in 1..Len(kn) : kn[i][1] = score[m[k][1]].on
DecodedStartsAtZero(score, perf, al) ==
   LET d == Decoded(score, perf, al) IN Len(d) > 0 => (\E r \in 1..Len(d) : d[r].on = 0) /\ (\A r \in 1..Len(d) : d[r].on >= 0)
=============================================================================
