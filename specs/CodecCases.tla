------------------------------ MODULE CodecCases ------------------------------
(* Sources: "enum" - TLC enumerates small (score, performance, alignment) triples; "file" - recorded triples of the
   harness.  For each TLC prints the matched pairs, the matched table, the knots and probes of the time maps and
   what decode(encode(.)) must return, and checks the relation's own properties. *)
EXTENDS Codec, Json, IOUtils, TLCExt, SequencesExt
CONSTANT Source
VARIABLE c
Shard == IF "SHARD" \in DOMAIN IOEnv THEN atoi(IOEnv.SHARD) ELSE 0
NShards == IF "NSHARDS" \in DOMAIN IOEnv THEN atoi(IOEnv.NSHARDS) ELSE 1
FileCases == IF Source = "file" THEN TLCEval(JsonDeserialize(IOEnv.CASE_FILE)) ELSE <<>>
(* enumerated: three score notes (a chord of two and a later note or a grace note), three performed notes,
   alignments of up to three entries over matches (also to ids that do not exist), deletions, insertions, ornaments *)
SNote(i, on, dur, pitch) == [id |-> <<"s1", "s2", "s3">>[i], on |-> <<on, 1>>, dur |-> <<dur, 1>>, ondiv |-> on * 4, pitch |-> pitch]
Scores == {<<SNote(1, 0, 1, p1), SNote(2, o2, d2, 64), SNote(3, 2, 1, 60)>> : p1 \in {60, 67}, o2 \in {0, 1}, d2 \in {0, 1}}
PNote(i, on) == [id |-> <<"p1", "p2", "p3">>[i], on |-> on, dur |-> 400, vel |-> 40 + 10 * i]
Perfs == {<<PNote(1, a), PNote(2, b), PNote(3, 3000)>> : a \in {1000, 1400}, b \in {1000, 1600}}
Entries == {[label |-> "match", sid |-> s, pid |-> p] : s \in {"s1", "s2", "s3", "zz"}, p \in {"p1", "p2", "p3", "qq"}}
           \cup {[label |-> "deletion", sid |-> s, pid |-> ""] : s \in {"s2"}}
           \cup {[label |-> "insertion", sid |-> "", pid |-> p] : p \in {"p2"}}
           \cup {[label |-> "ornament", sid |-> "s3", pid |-> "p2"]}
Distinct(s) == \A i, j \in 1..Len(s) : i # j => /\ (s[i].sid = "" \/ s[i].sid = "zz" \/ s[i].sid # s[j].sid)
                                                /\ (s[i].pid = "" \/ s[i].pid = "qq" \/ s[i].pid # s[j].pid)
Als == {s \in ({<<a>> : a \in Entries} \cup {<<a, b>> : a \in Entries, b \in Entries} \cup {<<a, b, d>> : a \in Entries, b \in Entries, d \in Entries}) : Distinct(s)}
EnumCases == {[score |-> s, perf |-> p, al |-> a, cid |-> 0] : s \in Scores, p \in Perfs, a \in Als}
Key(x) == Len(x.al) + x.perf[1].on + x.perf[2].on + x.score[2].on[1] * 3 + x.score[2].dur[1] * 5 + x.score[1].pitch
          + Cardinality({i \in 1..Len(x.al) : x.al[i].label = "match"}) * 7 + Cardinality({i \in 1..Len(x.al) : x.al[i].sid = "s1"}) * 11
          + Cardinality({i \in 1..Len(x.al) : x.al[i].pid = "p3"}) * 13
Init == c \in (IF Source = "enum" THEN {x \in EnumCases : Key(x) % NShards = Shard} ELSE {FileCases[i] : i \in 1..Len(FileCases)})
Next == UNCHANGED c
Spec == Init /\ [][Next]_c
Out == LET kn1 == Knots(c.score, c.perf, c.al, TRUE)
           kn0 == Knots(c.score, c.perf, c.al, FALSE) IN
       [pairs |-> Matched(c.score, c.perf, c.al), table |-> Table(c.score, c.perf, c.al),
        knots |-> kn1, probes |-> Probes(kn1), monotone |-> PerfMonotone(kn1),
        knots_all |-> kn0, probes_all |-> Probes(kn0), monotone_all |-> PerfMonotone(kn0),
        decoded |-> Decoded(c.score, c.perf, c.al)]
Emit == PrintT(ToJson([cid |-> c.cid, in |-> IF Source = "enum" THEN c ELSE [cid |-> c.cid], out |-> Out]))
InvMatched == MatchedExactlyMatches(c.score, c.perf, c.al)
InvTable == TableIsSortedPermutation(c.score, c.perf, c.al)
InvKnots == KnotsWithinChords(c.score, c.perf, c.al, TRUE) /\ KnotsWithinChords(c.score, c.perf, c.al, FALSE)
InvDecoded == DecodedStartsAtZero(c.score, c.perf, c.al)
=============================================================================
