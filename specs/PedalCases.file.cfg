SPECIFICATION Spec
CONSTANT Source = "file"
CONSTRAINT Report
INVARIANT NeverBeforeRelease
INVARIANT EndedOnlyAfterStrike
INVARIANT DryWhenNoPedal
CHECK_DEADLOCK FALSE
