------------------------- MODULE ContainerEditCases -------------------------
(* Behaviours of ContainerEdit.tla (as it is) of length Depth with a history of the actions, printed and replayed into
   real Score and Performance objects (harness/checks/g14.py). *)
EXTENDS ContainerEdit, Json, IOUtils, TLC
VARIABLE hist
CInit == Init /\ hist = <<>>
CNext == \/ \E i \in Iters : (Iter(i) /\ hist' = Append(hist, [op |-> "iter", it |-> i, k |-> 0, p |-> 0]))
                            \/ (NextOf(i) /\ hist' = Append(hist, [op |-> "next", it |-> i, k |-> 0, p |-> 0]))
         \/ \E k \in 1..NParts, p \in Fresh : (SetItem(k, p) /\ hist' = Append(hist, [op |-> "set", it |-> "", k |-> k, p |-> p]))
CSpec == CInit /\ [][CNext]_<<evars, hist>>
Report == IF steps = Depth THEN PrintT(ToJson([hist |-> hist, parts |-> parts, structure |-> structure, seen |-> seen])) ELSE TRUE
=============================================================================
