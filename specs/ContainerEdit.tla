---------------------------- MODULE ContainerEdit ----------------------------
(***************************************************************************)
(* Growth beyond the listed properties: replacing a part of a Score (or a  *)
(* performed part of a Performance) by index while iterations are under    *)
(* way.  The container holds a flat list (parts) and, for a Score, the     *)
(* structure it was built from (part_structure; flat here: no groups).     *)
(* An iterator is a position in the flat list; it yields what the list     *)
(* holds at that position at that moment, so a replacement behind an       *)
(* iterator is not seen by it and one ahead of it is.                      *)
(*                                                                         *)
(* KeepStructure = FALSE is the class as it is (__setitem__ replaces the   *)
(* entry of the flat list only; the code carries a TODO about it): TLC     *)
(* refutes StructureAgrees.  KeepStructure = TRUE also replaces the entry  *)
(* of the structure.                                                       *)
(***************************************************************************)
EXTENDS Integers, Sequences, FiniteSets

CONSTANTS KeepStructure, NParts, Iters, Fresh, Depth
VARIABLES parts,      \* the flat list: sequence of part names
          structure,  \* what the container was built from (flat)
          cur,        \* cur[i]: next position of iterator i, 0 before the first call of iter
          seen,       \* seen[i]: what iterator i has yielded
          steps       \* number of actions taken (bound)
evars == <<parts, structure, cur, seen, steps>>

Init == /\ parts = [k \in 1..NParts |-> k] /\ structure = parts
        /\ cur = [i \in Iters |-> 0] /\ seen = [i \in Iters |-> <<>>] /\ steps = 0
Iter(i) == /\ steps < Depth /\ cur' = [cur EXCEPT ![i] = 1] /\ seen' = [seen EXCEPT ![i] = <<>>]
           /\ steps' = steps + 1 /\ UNCHANGED <<parts, structure>>
NextOf(i) == /\ steps < Depth /\ cur[i] >= 1 /\ cur[i] <= Len(parts)
             /\ seen' = [seen EXCEPT ![i] = Append(@, parts[cur[i]])]
             /\ cur' = [cur EXCEPT ![i] = @ + 1]
             /\ steps' = steps + 1 /\ UNCHANGED <<parts, structure>>
SetItem(k, p) == /\ steps < Depth /\ k \in 1..Len(parts)
                 /\ parts' = [parts EXCEPT ![k] = p]
                 /\ structure' = (IF KeepStructure THEN [structure EXCEPT ![k] = p] ELSE structure)
                 /\ steps' = steps + 1 /\ UNCHANGED <<cur, seen>>
Next == \E i \in Iters : Iter(i) \/ NextOf(i)
          \/ \E k \in 1..NParts, p \in Fresh : SetItem(k, p)
Spec == Init /\ [][Next]_evars

LengthNeverChanges == Len(parts) = NParts /\ Len(structure) = NParts
OnePerPosition == \A i \in Iters : cur[i] >= 1 => Len(seen[i]) = cur[i] - 1
(* a position is yielded as an original part or as one of the replacements, never as anything else *)
YieldsAreParts == \A i \in Iters : \A k \in 1..Len(seen[i]) : seen[i][k] = k \/ seen[i][k] \in Fresh
StructureAgrees == structure = parts
=============================================================================
