SPECIFICATION Spec
CONSTANT MaxLen = 4
CONSTRAINT Report
INVARIANT OneRowPerEntry
INVARIANT RowsNumbered
INVARIANT ReadBackIsPrefix
INVARIANT RoundTrip
CHECK_DEADLOCK FALSE
