------------------------------ MODULE Estimators ------------------------------
(***************************************************************************)
(* C17: pre/post-conditions and metamorphic relations of the estimators    *)
(* (the algorithms themselves are not re-specified), validated on recorded *)
(* calls.  Records:                                                        *)
(*  "spell"  : pitches, out (seq of <<step, alter, octave>>), out2 (result  *)
(*             for the same notes given in another row order, re-aligned)  *)
(*  "voices" : notes (seq of <<onset, duration>> on an integer grid), out   *)
(*             (seq of voice numbers), chord (1 = chord mode)              *)
(*  "key"    : name, name_octave (input shifted by octaves), name_scaled    *)
(*             (durations rescaled), k, name_transposed (input + k)        *)
(***************************************************************************)
EXTENDS Pitch, Json, IOUtils, TLCExt, SequencesExt

Batch == TLCEval(JsonDeserialize(IOEnv.TRACE_FILE))
VARIABLE i
ValidKeys == {<<f, m>> : f \in ValidFifths, m \in BOOLEAN}
IsKeyName(nm) == \E k \in ValidKeys : KeyName(k[1], k[2]) = nm
KeyOf(nm) == CHOOSE k \in ValidKeys : KeyName(k[1], k[2]) = nm
SpellClauses(r) ==
   [sounds_the_pitch |-> \A k \in 1..Len(r.pitches) : r.out[k][1] \in {StepNames[j] : j \in 1..7}
                              /\ Midi(r.out[k][1], r.out[k][2], r.out[k][3]) = r.pitches[k],
    at_most_double_accidental |-> \A k \in 1..Len(r.pitches) : r.out[k][2] >= -2 /\ r.out[k][2] <= 2,
    one_per_note |-> Len(r.out) = Len(r.pitches),
    row_order_independent |-> r.out2 = r.out]
VoiceClauses(r) ==
   LET V == {r.out[k] : k \in 1..Len(r.out)}
   IN [one_per_note |-> Len(r.out) = Len(r.notes),
       positive |-> \A v \in V : v >= 1,
       no_gaps |-> V = 1..Cardinality(V),
       chords_share_a_voice |-> r.chord = 1 =>
                                 \A a, b \in 1..Len(r.notes) : Len(r.out) = Len(r.notes) /\ r.notes[a] = r.notes[b] => r.out[a] = r.out[b]]
KeyClauses(r) ==
   [valid_name |-> IsKeyName(r.name),
    octave_invariant |-> r.name_octave = r.name,
    duration_scale_invariant |-> r.name_scaled = r.name,
    transposes_with_input |-> (IsKeyName(r.name) /\ IsKeyName(r.name_transposed)) =>
                                LET a == KeyOf(r.name)  b == KeyOf(r.name_transposed)
                                IN a[2] = b[2] /\ TonicPc(b[1], b[2]) = (TonicPc(a[1], a[2]) + r.k) % 12]
MidiClauses(r) == [imported_pitches_are_the_files |-> r.file_pitches = r.score_pitches]
Clauses(r) == CASE r.kind = "spell" -> SpellClauses(r) [] r.kind = "voices" -> VoiceClauses(r)
                [] r.kind = "key" -> KeyClauses(r) [] r.kind = "midi" -> MidiClauses(r)
Failing(r) == LET C == Clauses(r) IN {c \in DOMAIN C : ~C[c]}
Init == i \in 1..Len(Batch)
Next == UNCHANGED i
Spec == Init /\ [][Next]_i
Report == PrintT(<<"VERDICT", Batch[i].rid, IF Batch[i].err = "" THEN Failing(Batch[i]) ELSE {"raises"}>>)
=============================================================================
